//go:build !noast

package main

import (
	"fmt"
	"sort"
	"strconv"
	"strings"

	"github.com/ah-naf/borno/ast"
	"github.com/ah-naf/borno/token"

	"verifharness/ref"
)

// implSexp renders the implementation's tree (walked through exported
// fields, not through String()) in the reference tree's canonical form.
// An unknown node type is reported (the comparison is then inconclusive).
type sexpWriter struct {
	b       strings.Builder
	unknown string
	strip   bool // skip Grouping nodes
}

func opKind(t token.Token) string {
	if k, ok := implKind[t.Type]; ok {
		return k
	}
	return "?" + t.Lexeme
}

func (w *sexpWriter) node(n interface{}) {
	b := &w.b
	switch e := n.(type) {
	case nil:
		b.WriteString("_")
	case *ast.Literal:
		switch v := e.Value.(type) {
		case nil:
			b.WriteString("nil")
		case bool:
			if v {
				b.WriteString("true")
			} else {
				b.WriteString("false")
			}
		case float64:
			b.WriteString("#" + ref.FmtNum(v))
		case []rune:
			b.WriteString(strconv.Quote(string(v)))
		case string:
			b.WriteString(strconv.Quote(v))
		default:
			w.unknown = fmt.Sprintf("literal %T", v)
		}
	case *ast.Identifier:
		b.WriteString("$" + e.Name.Lexeme)
	case *ast.Grouping:
		if w.strip {
			w.node(e.Expression)
			return
		}
		b.WriteString("(group ")
		w.node(e.Expression)
		b.WriteString(")")
	case *ast.Unary:
		b.WriteString("(unary " + opKind(e.Operator) + " ")
		w.node(e.Right)
		b.WriteString(")")
	case *ast.Binary:
		b.WriteString("(binary " + opKind(e.Operator) + " ")
		w.node(e.Left)
		b.WriteString(" ")
		w.node(e.Right)
		b.WriteString(")")
	case *ast.Logical:
		b.WriteString("(logical " + opKind(e.Operator) + " ")
		w.node(e.Left)
		b.WriteString(" ")
		w.node(e.Right)
		b.WriteString(")")
	case *ast.Call:
		b.WriteString("(call ")
		w.node(e.Callee)
		for _, a := range e.Arguments {
			b.WriteString(" ")
			w.node(a)
		}
		b.WriteString(")")
	case *ast.ArrayAccess:
		b.WriteString("(index ")
		w.node(e.Array)
		b.WriteString(" ")
		w.node(e.Index)
		b.WriteString(")")
	case *ast.PropertyAccess:
		b.WriteString("(prop " + e.Property.Lexeme + " ")
		w.node(e.Object)
		b.WriteString(")")
	case *ast.ArrayLiteral:
		b.WriteString("(array")
		for _, a := range e.Elements {
			b.WriteString(" ")
			w.node(a)
		}
		b.WriteString(")")
	case *ast.ObjectLiteral:
		keys := make([]string, 0, len(e.Properties))
		for k := range e.Properties {
			keys = append(keys, k)
		}
		sort.Strings(keys)
		b.WriteString("(object")
		for _, k := range keys {
			b.WriteString(" " + k + ":")
			w.node(e.Properties[k])
		}
		b.WriteString(")")
	case *ast.AssignmentStmt:
		b.WriteString("(assign " + e.Name.Lexeme + " ")
		w.node(e.Value)
		b.WriteString(")")
	case *ast.ArrayAssignment:
		b.WriteString("(setindex ")
		w.node(e.Array)
		b.WriteString(" ")
		w.node(e.Index)
		b.WriteString(" ")
		w.node(e.Value)
		b.WriteString(")")
	case *ast.PropertyAssignment:
		b.WriteString("(setprop " + e.Property.Lexeme + " ")
		w.node(e.Object)
		b.WriteString(" ")
		w.node(e.Value)
		b.WriteString(")")
	case *ast.ExpressionStatement:
		b.WriteString("(expr ")
		w.node(e.Expression)
		b.WriteString(")")
	case *ast.PrintStatement:
		b.WriteString("(print ")
		w.node(e.Expression)
		b.WriteString(")")
	case *ast.VarStmt:
		w.varStmt(e)
	case *ast.VarListStmt:
		b.WriteString("(varlist")
		for i := range e.Declarations {
			b.WriteString(" ")
			w.varStmt(&e.Declarations[i])
		}
		b.WriteString(")")
	case *ast.BlockStmt:
		b.WriteString("(block")
		for _, s := range e.Block {
			b.WriteString(" ")
			w.node(s)
		}
		b.WriteString(")")
	case *ast.IfStmt:
		b.WriteString("(if ")
		w.node(e.Condition)
		b.WriteString(" ")
		w.node(e.ThenBranch)
		b.WriteString(" ")
		w.opt(e.ElseBranch)
		b.WriteString(")")
	case *ast.While:
		b.WriteString("(while ")
		w.node(e.Condition)
		b.WriteString(" ")
		w.node(e.Body)
		b.WriteString(")")
	case *ast.ForStmt:
		b.WriteString("(for ")
		w.opt(e.Initializer)
		b.WriteString(" ")
		// a missing condition is represented by a synthetic `true` literal (line 0)
		if l, ok := e.Condition.(*ast.Literal); ok && l.Line == 0 && l.Value == true {
			b.WriteString("_")
		} else {
			w.opt(e.Condition)
		}
		b.WriteString(" ")
		w.opt(e.Increment)
		b.WriteString(" ")
		w.node(e.Body)
		b.WriteString(")")
	case *ast.BreakStmt:
		b.WriteString("(break)")
	case *ast.ContinueStmt:
		b.WriteString("(continue)")
	case *ast.Return:
		b.WriteString("(return ")
		w.opt(e.Value)
		b.WriteString(")")
	case *ast.FunctionStmt:
		names := []string{}
		for _, p := range e.Params {
			names = append(names, p.Lexeme)
		}
		b.WriteString("(fun " + e.Name.Lexeme + " [" + strings.Join(names, ",") + "]")
		for _, s := range e.Body {
			b.WriteString(" ")
			w.node(s)
		}
		b.WriteString(")")
	default:
		w.unknown = fmt.Sprintf("%T", n)
	}
}

func (w *sexpWriter) varStmt(e *ast.VarStmt) {
	w.b.WriteString("(var " + e.Name.Lexeme + " ")
	w.opt(e.Initializer)
	w.b.WriteString(")")
}

// opt renders a possibly-nil interface holding a possibly-nil pointer.
func (w *sexpWriter) opt(n interface{}) {
	if isNilNode(n) {
		w.b.WriteString("_")
		return
	}
	w.node(n)
}

func isNilNode(n interface{}) bool {
	if n == nil {
		return true
	}
	switch v := n.(type) {
	case *ast.Literal:
		return v == nil
	case *ast.BlockStmt:
		return v == nil
	case *ast.VarStmt:
		return v == nil
	case *ast.ExpressionStatement:
		return v == nil
	}
	return false
}

func ImplSexpList(stmts []ast.Stmt) (string, string) { return implSexpList(stmts, false) }

func implSexpList(stmts []ast.Stmt, strip bool) (string, string) {
	w := &sexpWriter{strip: strip}
	for i, s := range stmts {
		if i > 0 {
			w.b.WriteString(" ")
		}
		w.node(s)
	}
	return w.b.String(), w.unknown
}
