//go:build noast

package main

import "github.com/ah-naf/borno/ast"

// Fallback used when astadapt.go does not compile against the repository's current ast package
// (a refactoring changed the exported node fields): every structural tree comparison is then
// inconclusive ("unknown node shape"), while all behavioural monitors keep working.
const astShapeNote = "the repository's ast package no longer has the node fields the tree adapter reads"

func ImplSexpList(stmts []ast.Stmt) (string, string) { return implSexpList(stmts, false) }

func implSexpList(stmts []ast.Stmt, strip bool) (string, string) {
	return "", astShapeNote
}
