package main

import (
	"sort"
	"fmt"
	"strings"

	"verifharness/ref"
)

// C01 — parse tree follows the documented ladder.

var c01BinSpell = func() []string {
	return []string{"||", K["or"], "&&", K["and"], "|", "^", "&", "==", "!=", "<", "<=", ">", ">=", "<<", ">>", "+", "-", "*", "/", "%", "**", "="}
}

// treeJudge: the implementation's tree for the text must equal the reference
// parser's tree (Grouping nodes included).
func treeJudge(c *Ctx, cs *Case) bool { return frontJudge(c, cs, true) }

func num(f float64) *ref.Node   { return &ref.Node{Kind: "num", Num: f} }
func ident(s string) *ref.Node  { return &ref.Node{Kind: "ident", Name: s} }
func strn(s string) *ref.Node   { return &ref.Node{Kind: "str", Str: s} }
func un(op string, x *ref.Node) *ref.Node { return &ref.Node{Kind: "unary", Op: op, Kids: []*ref.Node{x}} }
func bin(op string, l, r *ref.Node) *ref.Node {
	k := "binary"
	if op == "&&" || op == "||" {
		k = "logical"
	}
	return &ref.Node{Kind: k, Op: op, Kids: []*ref.Node{l, r}}
}

var c01Idents = []string{"a", "b", "ক", "x1", "\u09ab\u09b0\u09cd\u09ae\u09c1\u09b2\u09be", "\u09b8\u09a4\u09cd\u09af\u09bf", "\u09ac\u09be\u0981", "\u09ab\u09b0\u09be\u09b8\u09bf", "nil_", "\u09a7\u09b0\u09bf\u09c7"}
var c01BinOps = []string{"||", "&&", "|", "^", "&", "==", "!=", "<", "<=", ">", ">=", "<<", ">>", "+", "-", "*", "/", "%", "**"}

func randTreeExpr(r *Rng, depth int, lit bool) *ref.Node {
	atom := func() *ref.Node {
		if lit {
			switch r.Intn(6) {
			case 0:
				return &ref.Node{Kind: "bool", Bool: r.Bool()}
			case 1:
				return strn([]string{"", "s", "t u"}[r.Intn(3)])
			case 2:
				return &ref.Node{Kind: "nil"}
			default:
				return num(float64(r.Intn(9)))
			}
		}
		switch r.Intn(8) {
		case 0:
			return &ref.Node{Kind: "bool", Bool: r.Bool()}
		case 1:
			return strn([]string{"", "s", "t u"}[r.Intn(3)])
		case 2:
			return &ref.Node{Kind: "nil"}
		case 3, 4:
			return num([]float64{0, 1, 2, 7, 1.5, 10, 1000000}[r.Intn(7)])
		case 5:
			if r.Intn(4) == 0 {
				return ident(B["len"])
			}
			fallthrough
		default:
			return ident(c01Idents[r.Intn(len(c01Idents))])
		}
	}
	if depth <= 0 || r.Intn(5) == 0 {
		return atom()
	}
	sub := func() *ref.Node { return randTreeExpr(r, depth-1, lit) }
	switch k := r.Intn(20); {
	case k < 8:
		return bin(c01BinOps[r.Intn(len(c01BinOps))], sub(), sub())
	case k < 11:
		return un([]string{"!", "-", "~"}[r.Intn(3)], sub())
	case k < 12 && !lit:
		n := &ref.Node{Kind: "call", Kids: []*ref.Node{sub()}}
		for i := r.Intn(3); i > 0; i-- {
			n.Kids = append(n.Kids, sub())
		}
		return n
	case k < 13:
		return &ref.Node{Kind: "index", Kids: []*ref.Node{sub(), sub()}}
	case k < 14 && !lit:
		return &ref.Node{Kind: "prop", Name: []string{"k", "নাম"}[r.Intn(2)], Kids: []*ref.Node{sub()}}
	case k < 15:
		n := &ref.Node{Kind: "array"}
		for i := r.Intn(3); i > 0; i-- {
			n.Kids = append(n.Kids, sub())
		}
		return n
	case k < 16:
		n := &ref.Node{Kind: "object"}
		keys := []string{"k", "j", "নাম"}
		for i := r.Intn(3); i > 0; i-- {
			n.Keys = append(n.Keys, keys[i])
			n.Kids = append(n.Kids, sub())
		}
		return n
	case k < 17 && !lit:
		return &ref.Node{Kind: "assign", Name: c01Idents[r.Intn(len(c01Idents))], Kids: []*ref.Node{sub()}}
	case k < 18 && !lit:
		return &ref.Node{Kind: "setindex", Kids: []*ref.Node{sub(), sub(), sub()}}
	case k < 19 && !lit:
		return &ref.Node{Kind: "setprop", Name: "k", Kids: []*ref.Node{sub(), sub()}}
	}
	return bin(c01BinOps[r.Intn(len(c01BinOps))], sub(), sub())
}

// danglingSafe: would printing this statement before an `else` let the else
// attach to something inside it?
func endsOpenIf(n *ref.Node) bool {
	switch n.Kind {
	case "if":
		if n.Kids[2] == nil {
			return true
		}
		return endsOpenIf(n.Kids[2])
	case "while":
		return endsOpenIf(n.Kids[1])
	case "for":
		return endsOpenIf(n.Kids[3])
	}
	return false
}

func randTreeStmt(r *Rng, depth int, decl bool) *ref.Node {
	e := func() *ref.Node { return randTreeExpr(r, 3, false) }
	if depth <= 0 {
		if r.Bool() {
			return &ref.Node{Kind: "print", Kids: []*ref.Node{e()}}
		}
		return &ref.Node{Kind: "expr", Kids: []*ref.Node{e()}}
	}
	body := func() *ref.Node { return randTreeStmt(r, depth-1, false) }
	k := r.Intn(14)
	if !decl && k >= 11 {
		k = r.Intn(11)
	}
	switch k {
	case 0, 1:
		return &ref.Node{Kind: "expr", Kids: []*ref.Node{e()}}
	case 2:
		return &ref.Node{Kind: "print", Kids: []*ref.Node{e()}}
	case 3:
		n := &ref.Node{Kind: "block"}
		for i := r.Intn(3); i > 0; i-- {
			n.Kids = append(n.Kids, randTreeStmt(r, depth-1, true))
		}
		return n
	case 4, 5:
		th := body()
		var el *ref.Node
		if r.Bool() {
			el = body()
			if endsOpenIf(th) {
				th = &ref.Node{Kind: "block", Kids: []*ref.Node{th}}
			}
		}
		return &ref.Node{Kind: "if", Kids: []*ref.Node{e(), th, el}}
	case 6:
		return &ref.Node{Kind: "while", Kids: []*ref.Node{e(), body()}}
	case 7:
		var init, cond, inc *ref.Node
		switch r.Intn(3) {
		case 0:
			init = &ref.Node{Kind: "var", Name: "i", Kids: []*ref.Node{num(0)}}
		case 1:
			init = &ref.Node{Kind: "expr", Kids: []*ref.Node{e()}}
		}
		if r.Bool() {
			cond = e()
		}
		if r.Bool() {
			inc = e()
		}
		return &ref.Node{Kind: "for", Kids: []*ref.Node{init, cond, inc, body()}}
	case 8:
		return &ref.Node{Kind: "break"}
	case 9:
		return &ref.Node{Kind: "continue"}
	case 10:
		if r.Bool() {
			return &ref.Node{Kind: "return", Kids: []*ref.Node{nil}}
		}
		return &ref.Node{Kind: "return", Kids: []*ref.Node{e()}}
	case 11:
		var init *ref.Node
		if r.Bool() {
			init = e()
		}
		return &ref.Node{Kind: "var", Name: c01Idents[r.Intn(len(c01Idents))], Kids: []*ref.Node{init}}
	case 12:
		n := &ref.Node{Kind: "varlist"}
		for i := 2 + r.Intn(2); i > 0; i-- {
			var init *ref.Node
			if r.Bool() {
				init = randTreeExpr(r, 2, false)
			}
			n.Kids = append(n.Kids, &ref.Node{Kind: "var", Name: c01Idents[r.Intn(len(c01Idents))], Kids: []*ref.Node{init}})
		}
		return n
	default:
		n := &ref.Node{Kind: "fun", Name: []string{"f", "g", "ফ"}[r.Intn(3)]}
		for i := r.Intn(3); i > 0; i-- {
			n.Keys = append(n.Keys, []string{"p", "q", B["len"]}[i])
		}
		for i := r.Intn(3); i > 0; i-- {
			n.Kids = append(n.Kids, randTreeStmt(r, depth-1, true))
		}
		return n
	}
}

// roundTrip: print T (min or full parentheses), parse with the real parser,
// strip groupings, compare with T.
func roundTripJudge(c *Ctx, cs *Case, T []*ref.Node) bool {
	want := ref.SexpList(T)
	for vi, src := range append([]string{cs.Src}, cs.Alt...) {
		// oracle self-check: the reference parser must itself reproduce T
		toks, lerr := ref.Lex([]rune(src))
		prog, serr := ref.NewParser(toks).ParseProgram()
		if len(lerr) > 0 || serr != nil {
			c.Inconclusive(fmt.Sprintf("printer produced text the reference front end rejects: %v %q", serr, trunc(src, 200)))
			return false
		}
		stripped := make([]*ref.Node, len(prog))
		for i, p := range prog {
			stripped[i] = ref.StripGroups(p)
		}
		if got := ref.SexpList(stripped); got != want {
			c.Inconclusive("oracle self-disagreement in round trip: " + trunc(src, 200))
			return false
		}
		o := RunLib(src, RunOpts{ParseOnly: true, KeepAST: true})
		if CheckAbnormal(c, o) {
			return false
		}
		if !o.Accepted {
			c.Violate(Violation{Why: fmt.Sprintf("printed tree (variant %d) was rejected by the parser", vi), Observed: describeObs(o), Signature: "roundtrip-reject", Case: Case{Gen: cs.Gen, Src: src}})
			return false
		}
		got, unk := implSexpList(o.Stmts, true)
		if unk != "" {
			c.Inconclusive("unknown AST node type " + unk)
			return false
		}
		if got != want {
			c.Violate(Violation{Why: fmt.Sprintf("parse(print(T)) != T (variant %d: %s parentheses)", vi, []string{"minimal", "full", "minimal, word operators", "minimal, CRLF line ends"}[vi%4]), Expected: trunc(want, 500), Observed: trunc(got, 500), Signature: "roundtrip-tree", Case: Case{Gen: cs.Gen, Src: src}})
			return false
		}
		c.Count("roundtrips", 1)
	}
	return true
}

func c01Run(c *Ctx) {
	tj := func(cs *Case) { c01Judge(c, cs) }
	ops := c01BinSpell()
	// 1. every ordered pair and triple of binary/logical/assignment operator spellings
	for _, o1 := range ops {
		for _, o2 := range ops {
			if c.Mine() {
				tj(&Case{Gen: "op-pairs", Src: fmt.Sprintf("a %s b %s c;", o1, o2)})
			}
			for _, o3 := range ops {
				if c.Mine() {
					tj(&Case{Gen: "op-triples", Src: fmt.Sprintf("a %s b %s c %s d;", o1, o2, o3)})
				}
			}
		}
	}
	// 2. prefix operators against every binary operator, stacks, and **
	pre := []string{"!", "-", "~"}
	for _, p := range pre {
		for _, o := range ops {
			for _, src := range []string{fmt.Sprintf("%s a %s b;", p, o), fmt.Sprintf("a %s %s b;", o, p), fmt.Sprintf("%s a %s %s b;", p, o, p), fmt.Sprintf("%s (a %s b);", p, o)} {
				if c.Mine() {
					tj(&Case{Gen: "prefix-vs-binary", Src: src})
				}
			}
		}
		for _, q := range pre {
			for _, s := range pre {
				if c.Mine() {
					tj(&Case{Gen: "prefix-stacks", Src: fmt.Sprintf("%s %s %s a ** %s b ** c;", p, q, s, p)})
				}
			}
		}
	}
	// 3. suffix chains of length <= 3 on every primary form
	suffixes := []string{"()", "(x)", "(x, y)", "[x]", ".k"}
	primaries := []string{"a", "1", `"s"`, "(a)", "[a, b]", "({k: 1})", K["true"], "nil", B["len"]}
	for _, p := range primaries {
		for _, s1 := range suffixes {
			if c.Mine() {
				tj(&Case{Gen: "suffix-chains", Src: p + s1 + ";"})
			}
			for _, s2 := range suffixes {
				if c.Mine() {
					tj(&Case{Gen: "suffix-chains", Src: p + s1 + s2 + ";"})
				}
				for _, s3 := range suffixes {
					if c.Mine() {
						tj(&Case{Gen: "suffix-chains", Src: "- " + p + s1 + s2 + s3 + " ** 2;"})
					}
				}
			}
		}
	}
	// 4. assignment chains over the three target forms with every level on the right
	targets := []string{"a", "a[i]", "a.k", "a.k[i].j", "f(x)[0]", "f(x).k"}
	for _, t1 := range targets {
		for _, t2 := range targets {
			for _, o := range ops {
				if c.Mine() {
					tj(&Case{Gen: "assign-chains", Src: fmt.Sprintf("%s = %s = b %s c;", t1, t2, o)})
				}
			}
		}
	}
	// 5. every expression form in every expression slot of every statement form
	exprs := []string{"a = b", "a || b", "a + b * c", "- a", "f(a, b)", "a[0]", "a.k", "[a, b]", "{k: a}", "(a)", "a == b", `"s"`, "a.k = b", "a[0] = b"}
	slots := []string{
		"%s;", K["print"] + " %s;", K["var"] + " v = %s;", K["var"] + " v = 1, w = %s;", K["return"] + " %s;",
		K["if"] + " (%s) a;", K["if"] + " (a) b; " + K["else"] + " " + K["print"] + " %s;", K["while"] + " (%s) a;",
		K["for"] + " (%s; a; b) c;", K["for"] + " (; %s; b) c;", K["for"] + " (; a; %s) c;", K["for"] + " (" + K["var"] + " i = %s; a; b) c;",
		"{ %s; }", K["fun"] + " f(p) { " + K["return"] + " %s; }", "g(%s);", "g(a, %s);", "[%s];", "({k: %s});", "a[%s];", "(%s);",
	}
	for _, e := range exprs {
		for _, sl := range slots {
			text := fmt.Sprintf(sl, e)
			if strings.HasPrefix(text, "{k") { // an object literal cannot start a statement
				continue
			}
			if c.Mine() {
				tj(&Case{Gen: "expr-in-slot", Src: text})
			}
		}
	}
	// 6. if/else nests to depth 4, with and without else at each level (dangling else)
	var nests func(depth int) []string
	nests = func(depth int) []string {
		if depth == 0 {
			return []string{"s;"}
		}
		var out []string
		for _, inner := range nests(depth - 1) {
			out = append(out, K["if"]+" (c) "+inner)
			out = append(out, K["if"]+" (c) "+inner+" "+K["else"]+" t;")
			out = append(out, K["if"]+" (c) { "+inner+" } "+K["else"]+" t;")
			out = append(out, K["while"]+" (c) "+inner)
		}
		return out
	}
	for d := 1; d <= 4; d++ {
		for _, s := range nests(d) {
			if c.Mine() {
				tj(&Case{Gen: "if-else-nests", Src: s})
			}
		}
	}
	// 6b. wide nodes: the grammar puts no bound on arguments, elements, properties or chain length
	for _, w := range []int{2, 254, 255, 256, 257, 400, 1000} {
		xs := make([]string, w)
		ks := make([]string, w)
		for i := range xs {
			xs[i] = fmt.Sprint(i % 7)
			ks[i] = fmt.Sprintf("k%d: %d", i, i%7)
		}
		for _, src := range []string{
			"f(" + strings.Join(xs, ", ") + ");", "[" + strings.Join(xs, ", ") + "];", "x = {" + strings.Join(ks, ", ") + "};",
			strings.Join(xs, " + ") + ";", strings.Join(xs, " ** ") + ";", strings.Join(xs, " || ") + ";", "a" + strings.Repeat(".k", w) + ";", "a" + strings.Repeat("[0]", w) + ";", "a" + strings.Repeat("()", w) + ";",
			strings.Repeat("a = ", w) + "1;", strings.Repeat("- ", w) + "1;",
		} {
			if c.Mine() {
				tj(&Case{Gen: "wide-nodes", Src: src, X: map[string]string{"width": fmt.Sprint(w)}})
			}
		}
	}
	// 7. every token sequence up to a length bound (tree compared for each accepted one)
	enumTokenSeqs(c, fullAlphabet(), c.N(3, 4), "tokseq", tj)
	enumTokenSeqs(c, coreAlphabet(), c.N(5, 6), "coreseq", tj)
	// 8. random trees: print (minimal / full parentheses, both logical spellings), parse, compare
	r := c.Rand("trees")
	n := c.N(15000, 400000)
	for k := 0; k < n; k++ {
		var T []*ref.Node
		for i := 1 + r.Intn(3); i > 0; i-- {
			T = append(T, randTreeStmt(r, 1+r.Intn(4), true))
		}
		if !c.Mine() {
			continue
		}
		cs := &Case{Gen: "random-tree-roundtrip", Src: ref.PrintOpts{}.Program(T), Alt: []string{ref.PrintOpts{Full: true}.Program(T), ref.PrintOpts{AltLogical: true}.Program(T)}}
		// the same text saved with CRLF line ends and tab indentation: line terminators and blanks are not tokens
		if crlf := "\t" + strings.ReplaceAll(cs.Src, "\n", "\r\n\t") + "\r\n"; !strings.Contains(cs.Src, "\"") && !strings.Contains(cs.Src, "//") {
			cs.Alt = append(cs.Alt, crlf)
		}
		c.Begin(cs)
		if roundTripJudge(c, cs, T) {
			c.Nontrivial(cs.Src)
		}
		c.Sample(cs.Gen, cs.Src)
	}
	// 8b. parentheses around literal operands of every operator never change what is printed
	plits := []string{"nil", True(), False(), "0", "1", "2.5", `""`, `"a"`, `"5"`, "\"\u09e6\u09eb\"", "[]", "[1]", "({k: 1})"}
	for _, a := range plits {
		for _, op := range []string{"!", "-", "~"} {
			if c.Mine() {
				c01Judge(c, &Case{Gen: "paren-print-equivalence", Src: Print(op+" "+a) + "\n" + Print(op+" "+op+" "+a) + "\n", Alt: []string{Print(op+"("+a+")") + "\n" + Print(op+"("+op+"("+a+"))") + "\n"}})
			}
		}
		for _, b := range plits {
			for _, op := range c01BinOps {
				if c.Mine() {
					c01Judge(c, &Case{Gen: "paren-print-equivalence", Src: Print(a+" "+op+" "+b) + "\n", Alt: []string{Print("("+a+") "+op+" ("+b+")") + "\n"}})
				}
			}
		}
	}
	// 9. ladder-consistent parentheses never change what a program prints
	r = c.Rand("printeq")
	n = c.N(6000, 150000)
	for k := 0; k < n; k++ {
		e := randTreeExpr(r, 1+r.Intn(4), true)
		if !c.Mine() {
			continue
		}
		cs := &Case{Gen: "paren-print-equivalence", Src: Print(ref.PrintOpts{}.Expr(e, 0)) + "\n", Alt: []string{Print(ref.PrintOpts{Full: true}.Expr(e, 0)) + "\n"}}
		if k%10 == 0 {
			cs.Mode = "cli"
		}
		c01Judge(c, cs)
	}
	// 9b. every ordered pair and triple-with-repeat of operators over small operand grids, written bare and
	// written with the parentheses the ladder implies: both must print the same (values chosen so that the
	// possible groupings, and short-circuit decisions, usually differ)
	{
		ops2 := append([]string{K["or"], K["and"]}, c01BinOps...)
		grids := [][]string{{"0", "1", "2", "3"}, {"2", "1", "0", "5"}, {"1", "0", "3", "0"}, {"3", "2", "0", "1"}, {False(), True(), "nil", "7"}, {`""`, "4", "0", `"s"`}}
		full := func(text string) (string, bool) {
			toks, lerr := ref.Lex([]rune(text))
			if len(lerr) > 0 {
				return "", false
			}
			prog, perr := ref.NewParser(toks).ParseProgram()
			if perr != nil {
				return "", false
			}
			return ref.PrintOpts{Full: true}.Program(prog), true
		}
		k := 0
		for _, o1 := range ops2 {
			for _, o2 := range ops2 {
				for gi, g := range grids {
					k++
					texts := []string{Print(g[0] + " " + o1 + " " + g[1] + " " + o2 + " " + g[2])}
					if gi < 3 {
						texts = append(texts, Print(g[0]+" "+o1+" "+g[1]+" "+o2+" "+g[2]+" "+o1+" "+g[3]))
					}
					for _, t := range texts {
						if !c.Mine() {
							continue
						}
						if f, ok := full(t + "\n"); ok {
							cs := &Case{Gen: "paren-print-equivalence", Src: t + "\n", Alt: []string{f}}
							if k%25 == 0 {
								cs.Mode = "cli"
							}
							c01Judge(c, cs)
						}
					}
				}
			}
		}
	}
	// 9b'. what stands where a single statement is expected is a statement: a declaration there is not accepted
	for _, in := range []string{K["var"] + " x = 1;", K["var"] + " x;", K["var"] + " x = 1, y;", K["fun"] + " g() { }", "x = 1;", K["print"] + " 1;", "{ " + K["var"] + " x = 1; }", ";"} {
		for _, slot := range []string{K["if"] + " (c) %s", K["if"] + " (c) %s " + K["else"] + " y = 2;", K["if"] + " (c) y = 2; " + K["else"] + " %s", K["while"] + " (c) %s", K["for"] + " (;;) %s", K["if"] + " (c) " + K["if"] + " (d) %s " + K["else"] + " z = 3;", K["fun"] + " f() { " + K["if"] + " (c) %s }", K["if"] + " (c) y = 1; " + K["else"] + " " + K["if"] + " (d) %s"} {
			if c.Mine() {
				tj(&Case{Gen: "statement-slots", Src: fmt.Sprintf(slot, in)})
			}
		}
	}
	// 9b''. line breaks inside an array / object literal initialiser are not tokens: same tree as on one line
	for _, text := range []string{K["var"] + " m = [\n [1, 2],\n [3, 4]\n];", K["var"] + " o = {\n a: 1,\n b: [\n 2\n ]\n};", K["var"] + " t = [\n {id: 1},\n {id: 2}\n];\n" + K["print"] + " t;", K["var"] + " e = [\n];", K["var"] + " w = [1,\n 2, 3];", K["var"] + " bad = [\n 1,\n 2 3\n];", K["var"] + " bad2 = {\n a: 1\n b: 2\n};"} {
		if c.Mine() {
			tj(&Case{Gen: "multiline-literal-declarations", Src: text})
		}
		if c.Mine() {
			tj(&Case{Gen: "multiline-literal-declarations", Src: strings.ReplaceAll(text, "\n", " ")})
		}
	}
	// 9b3. comments of every star shape between operands and operators are not tokens
	for _, cm := range []string{"/** doc **/", "/**** banner ****/", "/***/", "/* plain */", "/** odd ***/", "/*//*/"} {
		for _, e := range []string{"2 + 3 %s * 4 %s", "%s 2 ** %s 3 ** 2", "- %s 2 ** 2 %s", "1 < 2 %s == %s 2 > 1", "a %s = b = %s c"} {
			txt := strings.ReplaceAll(e, "%s", cm)
			plain := strings.ReplaceAll(e, "%s", "")
			if c.Mine() {
				tj(&Case{Gen: "comment-shapes", Src: txt + "; /* end */"})
			}
			if c.Mine() && !strings.Contains(e, "a ") {
				c01Judge(c, &Case{Gen: "paren-print-equivalence", Src: Print(plain) + "\n", Alt: []string{Print(txt) + " /* end */\n"}})
			}
		}
	}
	// 9c. property names are plain identifiers: every built-in name (and a few other words) as a key of an
	// object literal, after a dot on the right and on the left of an assignment (tree comparison)
	{
		var names []string
		for _, n := range B {
			names = append(names, n)
		}
		sort.Strings(names)
		names = append(names, "input", "nil2", "k", "\u09ae\u09be\u09a8")
		for _, n := range names {
			for _, form := range []string{"o = {%s: 1};", "o = {k: 1, %s: 2, j: {%s: 3}};", "o.%s;", "o.%s = 1;", "o.%s.%s = o.k;", "f({%s: [1]}).%s;", K["print"] + " {%s: 1}.%s;", K["return"] + " {%s: a, k: {%s: b}};"} {
				if c.Mine() {
					tj(&Case{Gen: "property-names", Src: strings.ReplaceAll(form, "%s", n)})
				}
			}
		}
	}
	// 9d. interactive mode: a bare expression statement and the same expression in redundant parentheses
	// are echoed alike, whatever the expression yields (nil included)
	{
		pre := Fun("nothing", "", "") + " " + Fun("zero", "", " "+Ret("0")+" ") + " " + Fun("give", "v", " "+Ret("v")+" ") + " " + Var("o", "{f: nothing, k: nil, n: 5}") + " " + Var("a", "[nil, 0, nothing]")
		for _, e := range []string{"nothing()", "zero()", "give(nil)", `give("")`, "give(" + False() + ")", "o.f()", "o.k", "o.n", "a[0]", "a[1]", "a[2]()", "nil", "0", `""`, False(), "give(give)(nil)", "1 + 1", "[]", "nothing", B["len"], BI("len", "[]"), BI("abs", "0")} {
			if c.Mine() {
				c01Judge(c, &Case{Gen: "paren-print-equivalence", Src: pre + "\n" + e + ";\n", Alt: []string{pre + "\n(" + e + ");\n", pre + "\n((" + e + "));\n"}, X: map[string]string{"repl": "1"}})
			}
		}
	}
	// 10. the same for whole programs: the hand-written scoping / call programs and generated programs,
	// each against the text with every composite sub-expression parenthesised as the ladder groups it,
	// and with every atom parenthesised as well (callee, operand, index, condition positions)
	r = c.Rand("progeq")
	progs := append(c03Handwritten(), c04Handwritten()...)
	for k := 0; k < c.N(400, 30000); k++ {
		g := NewPG(r, 8+r.Intn(25))
		g.Faults = r.Intn(4) == 0
		progs = append(progs, g.Program(3))
	}
	for k, src := range progs {
		if !c.Mine() {
			continue
		}
		tp, _, prog, ok := tokenise(src)
		if !ok {
			continue
		}
		cs := &Case{Gen: "paren-program-equivalence", Src: tp.canonical(), Alt: []string{ref.PrintOpts{Full: true}.Program(prog), ref.PrintOpts{Full: true, Atoms: true}.Program(prog)},
			X: map[string]string{"t0": "parentheses-full", "t1": "parentheses-full-atoms"}}
		if k%10 == 0 {
			cs.Mode = "cli"
		}
		c01Judge(c, cs)
	}
	// assignment associates to the right: a chain and its fully parenthesised spelling are one program, also when an
	// outer target reads what an inner assignment writes
	for _, pr := range [][2]string{
		{"tail.next = tail = node;", "(tail.next = (tail = node));"}, {"log[top] = top = top + 1;", "(log[top] = (top = (top + 1)));"},
		{"o.a = o.b = o = {a: 0, b: 0, n: r};", "(o.a = (o.b = (o = {a: 0, b: 0, n: r})));"}, {"log[top = top + 1] = top = top * 2;", "(log[(top = (top + 1))] = (top = (top * 2)));"},
	} {
		mk := func(st string) string {
			return Lines(Var("head", "{val: 0, next: nil}"), Var("tail", "head"), Var("log", "[0, 0, 0, 0, 0, 0, 0, 0, 0]"), Var("top", "0"), Var("o", "{a: 1, b: 2}"), Var("keep", "o"),
				For(Var("r", "1"), "r <= 3", "r = r + 1", "{ "+Var("node", "{val: r, next: nil}")+" "+st+" }"), Var("cur", "head"), Var("n", "0"), While("cur != nil && n < 10", "{ "+Print("cur.val")+" n = n + 1; cur = cur.next; }"), Print("tail.val"), Print("log"), Print("top"), Print("o"), Print("keep"))
		}
		for _, mode := range []string{"", "cli"} {
			if c.Mine() {
				c01Judge(c, &Case{Gen: "paren-program-equivalence", Mode: mode, Src: mk(pr[0]), Alt: []string{mk(pr[1])}, X: map[string]string{"t0": "parentheses-full"}})
			}
		}
	}
	// literals of many digits are leaves of the tree like any other: the tree of the printed text carries the same values
	for _, lit := range []string{"3.14159265358979323846", "1.7976931348623157", "123456789.123456789", "0.49999999999999994", "4503599627370496.5", "9007199254740993", "0.1000000000000000055511151231257827", "\u09e9.\u09e7\u09ea\u09e7\u09eb\u09ef\u09e8\u09ec\u09eb\u09e9\u09eb\u09ee\u09ef\u09ed\u09ef\u09e9\u09e8\u09e9\u09ee\u09ea\u09ec", "179769313486231570000000000000000000000.5"} {
		for _, form := range []string{"%s;", "a = %s + %s * 2;", "- %s ** 2;", "[%s, {k: %s}];", "f(%s)[%s];"} {
			tj(&Case{Gen: "expr-in-slot", Src: strings.ReplaceAll(form, "%s", lit)})
		}
	}
	// one token sequence, one tree, however it is cut into lines: a data table wrapped, on one physical line of
	// 80-200 KB, and the whole program on one line, through the binary (line terminators are not tokens)
	for _, cs := range c18LongLineCases("paren-program-equivalence") {
		if c.Mine() {
			c01Judge(c, cs)
		}
	}
}

func sameObs(a, b *Obs) bool {
	return a.Stdout == b.Stdout && a.Stderr == b.Stderr && a.Exit == b.Exit
}

func c01Judge(c *Ctx, cs *Case) {
	if cs.Gen == "random-tree-roundtrip" {
		// replay path: re-derive T from the minimal text with the reference parser
		c.Begin(cs)
		toks, _ := ref.Lex([]rune(cs.Src))
		prog, serr := ref.NewParser(toks).ParseProgram()
		if serr != nil {
			c.Inconclusive("replay: reference parser rejects the stored text")
			return
		}
		T := make([]*ref.Node, len(prog))
		for i, p := range prog {
			T[i] = ref.StripGroups(p)
		}
		roundTripJudge(c, cs, T)
		return
	}
	if cs.Gen == "paren-program-equivalence" {
		c18Judge(c, cs)
		return
	}
	c.Begin(cs)
	if cs.Gen == "paren-print-equivalence" {
		var a, b *Obs
		if cs.Mode == "cli" {
			a = RunCLI(CLIOpts{Bin: c.Bin, Src: cs.Src, Dir: c.Scratch})
			b = RunCLI(CLIOpts{Bin: c.Bin, Src: cs.Alt[0], Dir: c.Scratch})
			c.Count("cli_runs", 2)
			if a.TimedOut || b.TimedOut {
				c.Inconclusive("CLI watchdog")
				return
			}
		} else {
			repl := cs.X != nil && cs.X["repl"] == "1"
			a = RunLib(cs.Src, RunOpts{MaxSteps: 100000, Repl: repl})
			b = RunLib(cs.Alt[0], RunOpts{MaxSteps: 100000, Repl: repl})
			if CheckAbnormal(c, a) || CheckAbnormal(c, b) {
				return
			}
			if len(cs.Alt) > 1 && sameObs(a, b) {
				b = RunLib(cs.Alt[1], RunOpts{MaxSteps: 100000, Repl: repl})
				if CheckAbnormal(c, b) {
					return
				}
			}
		}
		if !sameObs(a, b) {
			c.Violate(Violation{Why: "adding parentheses that agree with the ladder changed what the program prints", Expected: describeObs(a), Observed: describeObs(b), Signature: "paren-print"})
			return
		}
		c.Count("print_pairs", 1)
		if a.Exit == 0 {
			c.Count("print_pairs_value", 1)
		}
		c.Nontrivial(cs.Src)
		c.Sample(cs.Gen, map[string]string{"min": cs.Src, "full": cs.Alt[0]})
		return
	}
	if treeJudge(c, cs) {
		c.Nontrivial(cs.Src)
	}
	c.Sample(cs.Gen, cs.Src)
}

func init() {
	register(&CheckDef{
		ID:   "C01",
		Rule: "texts: `a o1 b o2 c [o3 d];` for every ordered pair and triple of the 22 binary/logical/assignment operator spellings; every prefix operator against every binary operator on either side, prefix stacks against **; suffix chains of length <=3 over {(),(x),(x,y),[x],.k} on every primary form; assignment chains over all target forms with every operator on the right; every expression form in every expression slot of every statement form; if/else/while nests to depth 4 with and without else at every level; every token sequence of length <=3/<=4 over the 40-token alphabet and <=5/<=6 over the core alphabet; each accepted text's tree (walked through exported fields) compared with the reference precedence-table parser's tree. Plus seeded random statement trees printed with minimal and with full parentheses and with word-spelled logical operators, parsed by the real parser and compared with the original tree modulo Grouping; plus random literal expressions whose minimal- and fully-parenthesised forms must print the same (in-process and through the binary); plus the hand-written scoping / call programs and generated programs against their fully parenthesised forms (atoms included), compared on stdout, status and first diagnostic. Non-trivial = distinct decided text.",
		Assumptions: []string{"the 13-row precedence table in harness/ref/parser.go transcribes the documented ladder (it is cross-checked against the Earley grammar on every accepted text)"},
		Run:         c01Run,
		Judge:       c01Judge,
		MustCount:   func(c *Ctx) []string { return []string{"gen:op-pairs", "gen:op-triples", "gen:prefix-vs-binary", "gen:suffix-chains", "gen:assign-chains", "gen:expr-in-slot", "gen:if-else-nests", "gen:wide-nodes", "trees_compared", "roundtrips", "print_pairs", "print_pairs_value", "cli_runs"} },
	})
}
