package main

import (
	"fmt"
	"math"
	"math/big"
	"sort"
	"strings"

	"verifharness/ref"
)

// C02 — operators compute the documented result on the whole operand matrix.

type poolVal struct {
	Expr string // producing expression (bound to a variable by the program)
	Kind string // coverage class
	Pre  string // statements needed before (e.g. a function declaration)
}

func c02Pool() []poolVal {
	one308 := "1" + strings.Repeat("0", 308)
	tiny := "0." + strings.Repeat("0", 323) + "5"
	p := []poolVal{
		{"nil", "nil", ""}, {True(), "bool", ""}, {False(), "bool", ""},
		{"0", "num0", ""}, {"(-0)", "num-0", ""}, {"1", "num", ""}, {"(-1)", "num", ""}, {"0.5", "numfrac", ""}, {"1.5", "numfrac", ""},
		{"63", "num", ""}, {"64", "num", ""}, {"65", "num", ""}, {"(-7)", "num", ""}, {"3", "num", ""},
		{"2147483648", "num", ""}, {"9007199254740992", "num2^53", ""}, {"9007199254740994", "num2^53", ""},
		{"9223372036854775808", "num2^63", ""}, {"(-9223372036854775808)", "num-2^63", ""},
		{one308, "numhuge", ""}, {tiny, "numtiny", ""},
		{"(10 ** 400)", "inf", ""}, {"(-(10 ** 400))", "-inf", ""}, {"((10 ** 400) - (10 ** 400))", "nan", ""},
		{"(7 & 3)", "numbitwise", ""}, {"(1 << 40)", "numbitwise", ""}, {"(5 | 0)", "numbitwise", ""},
		{`""`, "str-empty-lit", ""}, {`("" + "")`, "str-empty-cat", ""},
		{`"a"`, "str-lit", ""}, {`("" + "a")`, "str-cat", ""}, {`"abc"`, "str-lit", ""}, {`("ab" + "c")`, "str-cat", ""},
		{`"5"`, "str-numeric-lit", ""}, {`("" + "5")`, "str-numeric-cat", ""}, {`"০৫"`, "str-numeric-bn", ""}, {`"a b"`, "str-lit", ""},
		// text that merely starts like a number is not a number
		{`"16cm"`, "str-numeric-prefix", ""}, {"\"\u09eb \u099f\u09be\u0995\u09be\"", "str-numeric-prefix", ""}, {`("3" + " kg")`, "str-numeric-prefix", ""}, {`"-2px"`, "str-numeric-prefix", ""},
		// canonically equivalent but differently spelled strings are different strings
		{"\"\u09df\"", "str-nfc-composed", ""}, {"\"\u09af\u09bc\"", "str-nfc-decomposed", ""}, {"\"\u00e9\"", "str-nfc-composed", ""}, {"(\"e\" + \"\u0301\")", "str-nfc-decomposed", ""},
		{`("" + 5)`, "str-from-number", ""}, {`("" + 0)`, "str-from-number", ""}, {`(5 + "")`, "str-from-number", ""},
		{`"%"`, "str-percent", ""}, {`"%d%s"`, "str-percent", ""},
		{"[]", "arr", ""}, {"[1]", "arr", ""}, {"[1, 2]", "arr", ""},
		{"{}", "obj", ""}, {"{k: 1}", "obj", ""},
		{"fq", "fn", Fun("fq", "", "") + "\n"}, {B["len"], "builtin", ""}, {B["abs"], "builtin", ""},
	}
	return p
}

var c02BinOps = []string{"+", "-", "*", "/", "%", "**", "<", "<=", ">", ">=", "==", "!=", "&", "|", "^", "<<", ">>"}
var c02UnOps = []string{"-", "!", "~"}

func c02Run(c *Ctx) {
	pool := c02Pool()
	// 1. full matrix
	for _, op := range c02BinOps {
		for i, a := range pool {
			for j, b := range pool {
				if !c.Mine() {
					continue
				}
				cs := &Case{Gen: "matrix", Src: a.Pre + onlyOnce(a.Pre, b.Pre) + Var("a", a.Expr) + "\n" + Var("b", b.Expr) + "\n" + Print("a "+op+" b") + "\n",
					X: map[string]string{"op": op, "ka": a.Kind, "kb": b.Kind}}
				_ = i
				_ = j
				c02Judge(c, cs)
			}
		}
	}
	// 2. unary and reflexive forms
	for _, a := range pool {
		for _, op := range c02UnOps {
			if !c.Mine() {
				continue
			}
			cs := &Case{Gen: "unary", Src: a.Pre + Var("a", a.Expr) + "\n" + Print(op+"a") + "\n", X: map[string]string{"op": "u" + op, "ka": a.Kind}}
			c02Judge(c, cs)
		}
		// chains of prefix operators applied directly to each other
		for _, o1 := range c02UnOps {
			for _, o2 := range c02UnOps {
				if c.Mine() {
					c02Judge(c, &Case{Gen: "unary-chains", Src: a.Pre + Var("a", a.Expr) + "\n" + Print(o1+" "+o2+"a") + "\n" + Print("("+o1+" "+o2+"a) + 1") + "\n", X: map[string]string{"op": "u" + o1 + o2, "ka": a.Kind}})
				}
				for _, o3 := range c02UnOps {
					if c.Mine() {
						c02Judge(c, &Case{Gen: "unary-chains", Src: a.Pre + Var("a", a.Expr) + "\n" + Print(o1+" "+o2+" "+o3+"a") + "\n", X: map[string]string{"op": "u" + o1 + o2 + o3, "ka": a.Kind}})
					}
				}
			}
		}
		for _, op := range c02BinOps {
			if !c.Mine() {
				continue
			}
			cs := &Case{Gen: "reflexive", Src: a.Pre + Var("a", a.Expr) + "\n" + Print("a "+op+" a") + "\n", X: map[string]string{"op": op, "ka": a.Kind, "kb": a.Kind}}
			c02Judge(c, cs)
		}
	}
	// 2b. the same operators applied directly to literal operands (no variable in between)
	lits := []string{"nil", True(), False(), "0", "1", "0.5", "63", "64", "3", `""`, `"a"`, `"5"`, "\"\u09e6\u09eb\"", `"a b"`, `"16cm"`, `"0 km"`, "[]", "[1]", "{}", "{k: 1}", "9223372036854775808", B["len"]}
	for _, a := range lits {
		for _, op := range c02UnOps {
			if c.Mine() {
				c02Judge(c, &Case{Gen: "literal-operands", Src: Print(op+a) + "\n" + Print(op+" "+op+a) + "\n", X: map[string]string{"op": "u" + op, "ka": "lit"}})
			}
		}
		if strings.HasPrefix(a, "{") {
			continue
		}
		for _, b := range lits {
			for _, op := range c02BinOps {
				if c.Mine() {
					c02Judge(c, &Case{Gen: "literal-operands", Src: Print(a+" "+op+" "+b) + "\n", X: map[string]string{"op": op, "ka": "lit", "kb": "lit"}})
				}
			}
		}
	}
	// 2c. numeric-looking strings: an operator that accepts them must see the number s * 1 gives
	strs := []string{`"0"`, `"-0"`, `"0.0"`, "\"\u09e6\"", `"5"`, `"-3"`, `"2.5"`, `"64"`, `"-1"`, `"1e3"`, `"007"`, `" 4"`, `"0x10"`, `("" + 0)`, `("" + (0 - 2))`, `"9223372036854775808"`, `"1.5"`, `"inf"`, `"NaN"`}
	partners := []string{"1", "0", "7", "(-2)", "2.5", "(1 << 40)"}
	for _, sv := range strs {
		for _, op := range []string{"-", "*", "/", "%", "**", "<", "<=", ">", ">=", "&", "|", "^", "<<", ">>"} {
			for _, a := range partners {
				for _, side := range []string{"left", "right"} {
					if c.Mine() {
						c02Judge(c, &Case{Gen: "string-coercion", Src: sv + " " + op + " " + a + " " + side, X: map[string]string{"s": sv, "a": a, "op": op, "side": side}})
					}
				}
			}
		}
		for _, op := range []string{"-", "~"} {
			if c.Mine() {
				c02Judge(c, &Case{Gen: "string-coercion", Src: op + sv, X: map[string]string{"s": sv, "a": "0", "op": op, "side": "unary"}})
			}
		}
	}
	// 2c. operators written without blanks between them: a binary operator followed directly by one or two
	// prefix operators (`5--3`, `2**-1`, `1<-~2`, `x---y`), for every combination
	for _, bop := range append([]string{K["or"] + " ", K["and"] + " ", "||", "&&"}, c02BinOps...) {
		for _, u1 := range []string{"-", "!", "~"} {
			for _, u2 := range []string{"", "-", "!", "~"} {
				for _, operands := range [][2]string{{"5", "3"}, {"2", "1"}, {"x", "y"}, {"0", "0.5"}} {
					l, r := operands[0], operands[1]
					sp := ""
					if strings.HasSuffix(bop, " ") {
						sp = " "
					}
					src := Var("x", "6") + "\n" + Var("y", "2") + "\n" + Print(l+sp+bop+u1+u2+r) + "\n" + Print(u1+u2+l+sp+bop+u2+u1+r) + "\n"
					if c.Mine() {
						c02Judge(c, &Case{Gen: "tight-spelling", Src: src, X: map[string]string{"op": bop + u1 + u2}})
					}
				}
			}
		}
	}
	// 3. equality laws (no model needed): total, boolean, symmetric, != is the negation, reflexive on non-NaN
	for _, a := range pool {
		for _, b := range pool {
			if !c.Mine() {
				continue
			}
			cs := &Case{Gen: "eqlaws", Src: a.Pre + onlyOnce(a.Pre, b.Pre) + Var("a", a.Expr) + "\n" + Var("b", b.Expr) + "\n" +
				Print("a == b") + "\n" + Print("b == a") + "\n" + Print("a != b") + "\n" + Print("b != a") + "\n" + Print("a == a") + "\n" + Print("a != a") + "\n",
				X: map[string]string{"ka": a.Kind, "kb": b.Kind}}
			c02Judge(c, cs)
		}
	}
	// 3b. the same laws for every built-in against every built-in (each is a value like any other),
	// directly, through a variable and through an array element
	var bis []string
	for _, n := range B {
		bis = append(bis, n)
	}
	sort.Strings(bis)
	for _, a := range bis {
		for _, b := range bis {
			if !c.Mine() {
				continue
			}
			c02Judge(c, &Case{Gen: "eqlaws", Src: Var("a", a) + "\n" + Var("b", "["+b+"][0]") + "\n" +
				Print("a == b") + "\n" + Print("b == a") + "\n" + Print("a != b") + "\n" + Print("b != a") + "\n" + Print("a == a") + "\n" + Print(a+" != "+a) + "\n",
				X: map[string]string{"ka": "builtin", "kb": "builtin", "same": fmt.Sprint(a == b)}})
		}
	}
	// 3c. a user function is one value however it is reached: under its own name inside its body, from
	// outside, through a parameter, an array element, at another recursion depth
	for _, src := range []string{
		Lines(Fun("f", "", " "+Ret("f")+" "), Print("f() == f"), Print("f() != f"), Print("f()() == f()"), Var("g", "f"), Print("g() == f"), Print("[f][0] == f()")),
		Lines(Fun("me", "g", " "+Ret("g == me")+" "), Print("me(me)"), Print("me(nil)"), Fun("other", "g", " "+Ret("g == me")+" "), Print("other(me)"), Print("other(other)")),
		Lines(Var("tab", "[nil]"), Fun("reg", "", " tab[0] = reg; "+Ret("tab[0] == reg")+" "), Print("reg()"), Print("tab[0] == reg"), Print("tab[0]() == (tab[0] == reg)")),
		Lines(Var("first", "nil"), Fun("r", "n", " "+If("n == 3", "{ first = r; }")+" "+If("n == 0", "{ "+Ret("first == r")+" }")+" "+Ret("r(n - 1)")+" "), Print("r(3)"), Print("first == r"), Print("first != r")),
		Lines(Fun("mk", "", " "+Fun("inner", "", " "+Ret("inner")+" ")+" "+Ret("inner")+" "), Var("a", "mk()"), Var("b", "mk()"), Print("a == a()"), Print("a == b"), Print("a() == b()"), Print("a != b")),
	} {
		if c.Mine() {
			c02Judge(c, &Case{Gen: "function-identity", Src: src, X: map[string]string{"op": "=="}})
		}
	}
	// 3c2. the clock value is a number like any other: relations that hold for every number
	if c.Mine() {
		c02Judge(c, &Case{Gen: "clock-operand", Src: Lines(Var("t", BI("clock")), Print(`(t + "") == ("" + t)`), Print("t == t + 0"), Print("t - t"), Print(`(t + ": x") == ("" + t + ": x")`), Print("t * 0"), Print("t / t"), Print(`"" + (t - t) + (t * 0)`)), X: map[string]string{"op": "+"}})
	}
	// 3d. one operator in the program text evaluated again and again with operands of changing kinds: what
	// it yields depends on the operands it is given now, not on what it was given before
	{
		seqs := map[string][][2]string{
			"+":  {{`"x"`, "1"}, {"1", "2"}, {"2", `"y"`}, {"2.5", "0.5"}, {`"a"`, `"b"`}, {"3", "4"}},
			"==": {{"1", "1"}, {`"1"`, `"1"`}, {"nil", "nil"}, {"1", `"x"`}, {"[1]", "[1]"}, {"2", "2"}},
			"<":  {{"1", "2"}, {"2.5", "0.5"}, {"-1", "0"}, {"1000000", "999999"}, {"0", "0"}},
			"*":  {{"2", "3"}, {"0.5", "4"}, {"-1", "-1"}, {"1000000", "1000000"}, {"0", "5"}},
			"-":  {{"5", "3"}, {"0.5", "0.25"}, {"0", "0"}, {"1", "1000000"}},
			"&":  {{"6", "3"}, {"255", "15"}, {"0", "1"}, {"1048576", "1048576"}},
		}
		r := c.Rand("site-history")
		for op, pairs := range seqs {
			for rep := 0; rep < c.N(12, 200); rep++ {
				order := make([]int, len(pairs))
				for i := range order {
					order[i] = i
				}
				for i := len(order) - 1; i > 0; i-- {
					j := r.Intn(i + 1)
					order[i], order[j] = order[j], order[i]
				}
				lines := []string{Fun("ap", "a, b", " "+Ret("a "+op+" b")+" "), Var("rows", "[]")}
				for _, k := range order {
					lines = append(lines, Print("ap("+pairs[k][0]+", "+pairs[k][1]+")"))
				}
				var rows []string
				for _, k := range order {
					rows = append(rows, "["+pairs[k][0]+", "+pairs[k][1]+"]")
				}
				lines = append(lines, "rows = ["+strings.Join(rows, ", ")+"];", For(Var("i", "0"), "i < "+BI("len", "rows"), "i = i + 1", "{ "+Print("rows[i][0] "+op+" rows[i][1]")+" }"), Print("ap(2, 3) "+op+" ap(2, 3)"))
				if c.Mine() {
					c02Judge(c, &Case{Gen: "operator-site-history", Src: Lines(lines...), X: map[string]string{"op": op}})
				}
			}
		}
	}
	// 4. random doubles under every arithmetic / comparison operator
	r := c.Rand("doubles")
	n := c.N(40000, 8000000)
	arith := []string{"+", "-", "*", "/", "%", "**", "<", "<=", ">", ">=", "==", "!="}
	for k := 0; k < n; k++ {
		x, y := RandDouble(r), RandDouble(r)
		op := arith[r.Intn(len(arith))]
		if !c.Mine() {
			continue
		}
		cs := &Case{Gen: "randdouble", Src: Var("a", NumLit(x)) + "\n" + Var("b", NumLit(y)) + "\n" + Print("a "+op+" b") + "\n" + Print("-a") + "\n",
			X: map[string]string{"op": op, "ka": "rand", "kb": "rand"}}
		c02Judge(c, cs)
	}
	// 5. random integers under bitwise operators
	r = c.Rand("ints")
	n = c.N(15000, 3000000)
	bit := []string{"&", "|", "^", "<<", ">>"}
	for k := 0; k < n; k++ {
		x := randInt53(r)
		y := randInt53(r)
		op := bit[r.Intn(len(bit))]
		if op == "<<" || op == ">>" {
			y = float64(r.Intn(80) - 6)
			if r.Intn(10) == 0 {
				y += 0.5
			}
		}
		if !c.Mine() {
			continue
		}
		cs := &Case{Gen: "randbitwise", Src: Var("a", NumLit(x)) + "\n" + Var("b", NumLit(y)) + "\n" + Print("a "+op+" b") + "\n" + Print("~a") + "\n",
			X: map[string]string{"op": op, "ka": "randint", "kb": "randint"}}
		c02Judge(c, cs)
	}
	// 5''. an operator error never yields a value — also when the operator sits in the body of a user function, a chain of
	// returns, a loop or a block, and the call is the operand of a print, an element, an argument, an initialiser
	for _, f := range []string{"a / b", "a % b", "a << (b - 1)", "a >> (b - 1)", `a - "x"`, "a & 0.5", "-nil", "a < nil", `a * "3x"`} {
		defs := Lines(Fun("op", "a, b", " "+Ret(f)+" "), Fun("via", "a, b", " "+Ret("op(a, b)")+" "), Fun("inloop", "a, b", " "+While(True(), "{ { "+Ret(f)+" } }")+" "), Fun("stmt", "a, b", " "+Var("t", f)+" "+Ret("t")+" "))
		for _, fn := range []string{"op", "via", "inloop", "stmt"} {
			call := fn + "(10, 0)"
			for _, use := range []string{Print(call), Print("[" + call + "]"), Print("[1, " + call + ", 2]"), Print("{k: " + call + "}"), Var("r", call) + " " + Print("r"), call + ";", Print(BI("len", "["+call+"]")), Print("1 + " + call), Print(call + " == nil"), Print("idf(" + call + ")")} {
				if c.Mine() {
					c02Judge(c, &Case{Gen: "faults-in-functions", Src: defs + Fun("idf", "v", " "+Ret("v")+" ") + "\n" + Print(`"before"`) + "\n" + use + "\n" + Print(`"AFTER"`) + "\n", X: map[string]string{"op": "fault-in-function"}})
				}
			}
		}
	}
	// 5'. every ordered pair of binary operators without parentheses, on operands for which the two groupings differ:
	// each operator gets the operands the documented nesting gives it
	for _, o1 := range c02BinOps {
		for _, o2 := range c02BinOps {
			for _, tri := range [][3]string{{"9", "4", "2"}, {"6", "3", "1"}, {"12", "10", "6"}, {"2", "3", "2"}, {"100", "7", "3"}} {
				if c.Mine() {
					c02Judge(c, &Case{Gen: "nested-minimal-parens", Src: Print(tri[0]+" "+o1+" "+tri[1]+" "+o2+" "+tri[2]) + "\n", X: map[string]string{"op": "nested"}})
				}
			}
		}
	}
	// 6. random nested expressions
	r = c.Rand("nested")
	n = c.N(10000, 2000000)
	for k := 0; k < n; k++ {
		e := randExpr(r, 4)
		if !c.Mine() {
			continue
		}
		cs := &Case{Gen: "nested", Src: Print(e) + "\n", X: map[string]string{"op": "nested"}}
		c02Judge(c, cs)
		// the same tree written with only the parentheses the documented nesting needs
		if toks, lerr := ref.Lex([]rune(cs.Src)); len(lerr) == 0 {
			if prog, perr := ref.NewParser(toks).ParseProgram(); perr == nil {
				for i, st := range prog {
					prog[i] = ref.StripGroups(st)
				}
				c02Judge(c, &Case{Gen: "nested-minimal-parens", Src: ref.PrintOpts{}.Program(prog), X: map[string]string{"op": "nested"}})
			}
		}
	}
	// 7. exact integer powers cross-checked with math/big (independent of math.Pow)
	for base := -12; base <= 12; base++ {
		for exp := 0; exp <= 40; exp++ {
			if !c.Mine() {
				continue
			}
			cs := &Case{Gen: "bigpow", Src: Print(fmt.Sprintf("(%d) ** %d", base, exp)) + "\n", X: map[string]string{"base": fmt.Sprint(base), "exp": fmt.Sprint(exp), "op": "**"}}
			c02Judge(c, cs)
		}
	}
	// 8. a sample of the matrix through the real binary
	r = c.Rand("cli")
	n = c.N(1500, 40000)
	for k := 0; k < n; k++ {
		a, b := pool[r.Intn(len(pool))], pool[r.Intn(len(pool))]
		op := c02BinOps[r.Intn(len(c02BinOps))]
		if !c.Mine() {
			continue
		}
		cs := &Case{Gen: "matrix-cli", Mode: "cli", Src: a.Pre + onlyOnce(a.Pre, b.Pre) + Var("a", a.Expr) + "\n" + Var("b", b.Expr) + "\n" + Print("a "+op+" b") + "\n",
			X: map[string]string{"op": op, "ka": a.Kind, "kb": b.Kind}}
		c02Judge(c, cs)
	}
}

func onlyOnce(have, add string) string {
	if have == add {
		return ""
	}
	return add
}

func randInt53(r *Rng) float64 {
	switch r.Intn(6) {
	case 0:
		return float64(r.Intn(64)) - 8
	case 1:
		return float64(int64(r.U64()>>11)) * float64(1-2*r.Intn(2))
	case 2:
		return float64(r.Intn(1 << 16))
	case 3:
		return []float64{0, 1, -1, 63, 64, 2147483647, 2147483648, 4294967295, 9007199254740991, -9007199254740991}[r.Intn(10)]
	case 4:
		return float64(int64(r.U64() >> uint(12+r.Intn(50))))
	default:
		return -float64(r.Intn(1 << 20))
	}
}

func randExpr(r *Rng, depth int) string {
	if depth == 0 || r.Intn(4) == 0 {
		switch r.Intn(8) {
		case 0:
			return fmt.Sprint(r.Intn(10))
		case 1:
			return NumLit(float64(r.Intn(1000)) / 8)
		case 2:
			return `"s` + fmt.Sprint(r.Intn(3)) + `"`
		case 3:
			return []string{True(), False(), "nil"}[r.Intn(3)]
		case 4:
			return fmt.Sprint(r.Intn(70))
		default:
			return NumLit(float64(r.Intn(200) - 100))
		}
	}
	switch r.Intn(10) {
	case 0:
		return "(" + []string{"-", "!", "~"}[r.Intn(3)] + randExpr(r, depth-1) + ")"
	case 1:
		return "(" + randExpr(r, depth-1) + " " + []string{K["and"], K["or"], "&&", "||"}[r.Intn(4)] + " " + randExpr(r, depth-1) + ")"
	default:
		op := c02BinOps[r.Intn(len(c02BinOps))]
		return "(" + randExpr(r, depth-1) + " " + op + " " + randExpr(r, depth-1) + ")"
	}
}

func c02Judge(c *Ctx, cs *Case) {
	c.Begin(cs)
	switch cs.Gen {
	case "clock-operand":
		o := RunLib(cs.Src, RunOpts{MaxSteps: 100000})
		if CheckAbnormal(c, o) {
			return
		}
		if o.Exit != 0 || o.Stdout != "true\ntrue\n0\ntrue\n0\n1\n00\n" {
			c.Violate(Violation{Why: "the value of ক্লক() does not behave like an ordinary number under the operators", Expected: "true true 0 true 0 1 00", Observed: describeObs(o), Signature: "clock-operand"})
			return
		}
		c.Nontrivial(cs.Src)
		return
	case "eqlaws":
		c02EqLaws(c, cs)
		return
	case "bigpow":
		c02BigPow(c, cs)
		return
	case "string-coercion":
		c02Coercion(c, cs)
		return
	}
	if cs.Mode == "cli" {
		m := RunModel(cs.Src, "", false, 0)
		if cliJudge(c, cs, m) == "" {
			c.Nontrivial("cli|" + cs.Src)
		}
		return
	}
	v, m, _ := stdJudge(c, cs, RunOpts{}, JudgeOpts{})
	if v == "" {
		c.Nontrivial(cs.Src)
		key := "cell:" + cs.X["op"] + ":" + cs.X["ka"] + ":" + cs.X["kb"]
		if cs.Gen == "matrix" || cs.Gen == "unary" || cs.Gen == "reflexive" {
			c.Count(key, 1)
		}
		if m.Res.Fault != nil {
			c.Count("outcome:fault", 1)
		} else {
			c.Count("outcome:value", 1)
		}
	}
	c.Sample(cs.Gen, cs.Src)
}

// c02Coercion: the absolute result of an operator on a numeric-looking string is
// not pinned, but when the operator accepts the string at all it must treat it as the
// number that arithmetic coercion (s * 1) gives: same value, and the same faults
// (zero divisor, negative shift, non-integral bitwise operand).
func c02Coercion(c *Ctx, cs *Case) {
	pre := Var("s", cs.X["s"]) + "\n" + Var("a", cs.X["a"]) + "\n"
	run := func(body string) *Obs { return RunLib(pre+body+"\n", RunOpts{MaxSteps: 100000}) }
	probe := run(Print("s * 1"))
	if CheckAbnormal(c, probe) {
		return
	}
	if probe.Exit != 0 {
		c.Count("coercion_not_accepted", 1)
		return
	}
	op := cs.X["op"]
	var direct, viaNumber *Obs
	switch cs.X["side"] {
	case "right":
		direct, viaNumber = run(Print("a "+op+" s")), run(Print("a "+op+" (s * 1)"))
	case "left":
		direct, viaNumber = run(Print("s "+op+" a")), run(Print("(s * 1) "+op+" a"))
	default:
		direct, viaNumber = run(Print(op+"s")), run(Print(op+"(s * 1)"))
	}
	if CheckAbnormal(c, direct) || CheckAbnormal(c, viaNumber) {
		return
	}
	d1, d2 := ParseDiags(direct.Stderr), ParseDiags(viaNumber.Stderr)
	if direct.Exit != 0 && len(d1) > 0 && viaNumber.Exit == 0 {
		// the operator rejects strings although the number would be fine: allowed (type error), not compared
		c.Count("coercion_operator_rejects_string", 1)
		return
	}
	same := direct.Stdout == viaNumber.Stdout && direct.Exit == viaNumber.Exit
	if same && len(d1) > 0 && len(d2) > 0 {
		same = NormDiag(d1[0], true) == NormDiag(d2[0], true)
	}
	if !same {
		c.Violate(Violation{Why: fmt.Sprintf("operator %s treats the string %s differently from the number it coerces to (s * 1)", op, cs.X["s"]), Expected: "with the number: " + describeObs(viaNumber), Observed: "with the string: " + describeObs(direct), Signature: "coercion-inconsistent:" + op})
		return
	}
	c.Count("coercion_consistent", 1)
	c.Nontrivial(cs.Src)
	c.Sample(cs.Gen, cs.Src)
}

func c02EqLaws(c *Ctx, cs *Case) {
	o := RunLib(cs.Src, RunOpts{MaxSteps: 100000})
	if CheckAbnormal(c, o) {
		return
	}
	lines := strings.Split(strings.TrimRight(o.Stdout, "\n"), "\n")
	bad := func(why string) {
		c.Violate(Violation{Why: "equality law broken: " + why, Observed: describeObs(o), Signature: "eqlaw:" + why})
	}
	if o.Exit != 0 || o.Stderr != "" {
		bad("==/!= is not total (diagnostic or non-zero exit)")
		return
	}
	if len(lines) != 6 {
		bad("expected six boolean lines")
		return
	}
	for _, l := range lines {
		if l != "true" && l != "false" {
			bad("result is not a boolean")
			return
		}
	}
	if lines[0] != lines[1] {
		bad("a==b differs from b==a")
		return
	}
	if lines[2] == lines[0] || lines[3] == lines[1] {
		bad("!= is not the negation of ==")
		return
	}
	if cs.X["ka"] != "nan" && (lines[4] != "true" || lines[5] != "false") {
		bad("a==a is not true for a non-NaN value")
		return
	}
	if cs.X["same"] == "true" && lines[0] != "true" {
		bad("one and the same value reached by two routes is not equal to itself")
		return
	}
	if cs.X["ka"] == "nan" && (lines[4] != "false" || lines[5] != "true") {
		bad("NaN == NaN must be false (IEEE)")
		return
	}
	c.Nontrivial(cs.Src)
	c.Count("eqlaws_held", 1)
	c.Sample(cs.Gen, cs.Src)
}

func c02BigPow(c *Ctx, cs *Case) {
	var base, exp int64
	fmt.Sscan(cs.X["base"], &base)
	fmt.Sscan(cs.X["exp"], &exp)
	z := new(big.Int).Exp(big.NewInt(base), big.NewInt(exp), nil)
	f := new(big.Float).SetInt(z)
	want, _ := f.Float64() // nearest-even rounding of the exact power
	if math.IsInf(want, 0) {
		return
	}
	o := RunLib(cs.Src, RunOpts{MaxSteps: 100000})
	if CheckAbnormal(c, o) {
		return
	}
	mt := &Matcher{s: o.Stdout}
	if !mt.num(want) || !mt.lit("\n") || mt.pos != len(o.Stdout) || o.Exit != 0 {
		// exact powers that are representable must be exact; others within 1 ulp
		got := strings.TrimSpace(o.Stdout)
		var g float64
		if _, err := fmt.Sscan(got, &g); err == nil && z.IsInt64() == false {
			if math.Abs(g-want) <= math.Abs(math.Nextafter(want, math.Inf(1))-want) {
				c.Count("bigpow_within_1ulp", 1)
				return
			}
		}
		c.Violate(Violation{Why: fmt.Sprintf("(%d) ** %d must print the double nearest to the exact power %s", base, exp, z.String()), Expected: fmt.Sprint(want), Observed: describeObs(o), Signature: "bigpow"})
		return
	}
	c.Nontrivial(cs.Src)
	c.Count("bigpow_exact", 1)
}

func init() {
	register(&CheckDef{
		ID:          "C02",
		Rule:        "programs `ধরি a = <producer>; ধরি b = <producer>; দেখাও a op b;` for every binary operator x every ordered pair of a 51-value pool (all value kinds, boundary magnitudes, literal vs computed producers), unary forms, the same operators applied directly to 20 literal operands (no variable in between), chains of two and three prefix operators, reflexive forms, equality laws (symmetry, negation, reflexivity) for every pair, random doubles by bit pattern, random integers under bitwise operators, random nested expressions, exact integer powers against math/big; each compared with refborno's expected value or fault (stdout numerals by read-back, first diagnostic by category and line, exit status). Non-trivial = distinct program text whose comparison was decided (not skipped out of domain).",
		Assumptions: []string{"Go's float64 arithmetic and math.Mod/math.Pow in the harness are IEEE-754 (math.Pow additionally cross-checked against math/big on exact integer powers)", "the absolute result of arithmetic on numeric-looking strings, of == on two distinct containers, and of bitwise operations outside the exactly-representable range is not pinned by the property (skipped, counted)"},
		Run:         c02Run,
		Judge:       c02Judge,
		MustCount: func(c *Ctx) []string {
			return []string{"gen:matrix", "gen:string-coercion", "coercion_consistent", "gen:unary-chains", "gen:literal-operands", "gen:tight-spelling", "gen:function-identity", "gen:operator-site-history", "gen:eqlaws", "gen:randdouble", "gen:randbitwise", "gen:nested", "gen:bigpow", "outcome:fault", "outcome:value", "cli_runs"}
		},
	})
}
