package main

import (
	"fmt"
	"strings"

	"github.com/ah-naf/borno/vhook"
)

// C03 — lexical scoping, shadowing, lifetimes.

// scopeMonitor is the model-free invariant on the hook trace: a lookup that
// hits in scope H must hit a scope that (per the EnvDefine events) holds the
// name, and no scope on the known parent chain between the start scope and H
// may hold the name.
func scopeMonitor(ev []vhook.Event) (string, int, int) {
	parent := map[int]int{}
	names := map[int]map[string]bool{}
	var start int
	var startName string
	have := false
	verified, unverified := 0, 0
	for _, e := range ev {
		switch e.Kind {
		case "envdefine":
			if e.Par != 0 {
				parent[e.Env] = e.Par
			}
			if names[e.Env] == nil {
				names[e.Env] = map[string]bool{}
			}
			names[e.Env][e.Name] = true
		case "envlookup":
			if e.A == "declare" {
				have = false
				continue
			}
			start, startName, have = e.Env, e.Name, true
		case "envhit":
			if e.Par != 0 {
				parent[e.Env] = e.Par
			}
			if !names[e.Env][e.Name] {
				return fmt.Sprintf("lookup of %q hit scope #%d, which never declared it", e.Name, e.Env), verified, unverified
			}
			if have && startName == e.Name {
				s := start
				ok := false
				for hops := 0; hops < 10000; hops++ {
					if s == e.Env {
						ok = true
						break
					}
					if names[s][e.Name] {
						return fmt.Sprintf("lookup of %q from scope #%d resolved in outer scope #%d although inner scope #%d holds a binding", e.Name, start, e.Env, s), verified, unverified
					}
					p, known := parent[s]
					if !known {
						break
					}
					s = p
				}
				if ok {
					verified++
				} else {
					unverified++
				}
				have = false
			}
		case "envmiss":
			if have && startName == e.Name {
				s := start
				for hops := 0; hops < 10000; hops++ {
					if names[s][e.Name] {
						return fmt.Sprintf("lookup of %q from scope #%d reported undefined although scope #%d on its chain holds a binding", e.Name, start, s), verified, unverified
					}
					p, known := parent[s]
					if !known {
						break
					}
					s = p
				}
				have = false
			}
		}
	}
	return "", verified, unverified
}

func c03Judge(c *Ctx, cs *Case) {
	if cs.Gen == "repl-lines" {
		c20Judge(c, cs)
		return
	}
	c.Begin(cs)
	if cs.Mode == "cli" {
		m := RunModel(cs.Src, "", false, 0)
		if cliJudge(c, cs, m) == "" {
			c.Nontrivial("cli|" + cs.Src)
		}
		return
	}
	v, m, o := stdJudge(c, cs, RunOpts{Events: "env"}, JudgeOpts{})
	if v == "violated" {
		return
	}
	if bad, ver, unver := scopeMonitor(o.Events); bad != "" {
		c.Violate(Violation{Why: "scope-chain invariant on hook events: " + bad, Observed: describeObs(o), Signature: "scope-monitor"})
		return
	} else {
		c.Count("hook_lookups_verified", int64(ver))
		c.Count("hook_lookups_chain_unknown", int64(unver))
	}
	if v == "" && m.Res != nil {
		st := m.Res.Stats
		if st.ShadowDecls > 0 && st.FarResolutions > 0 {
			c.Nontrivial(cs.Src)
		}
		c.Count(fmt.Sprintf("resolution_max_distance:%d", min(st.MaxDist, 6)), 1)
		if st.ShadowDecls > 0 {
			c.Count("programs_with_shadowing", 1)
		}
		if st.Closures > 0 && st.Calls > 0 {
			c.Count("programs_with_calls", 1)
		}
		if m.Res.Fault != nil {
			c.Count("faulted", 1)
		} else {
			c.Count("clean", 1)
		}
	}
	c.Sample(cs.Gen, cs.Src)
}

// enumerated event histories
type c03Frame struct{ kind string } // block loop fun

func c03Render(events []int, names []string) (string, bool) {
	var b strings.Builder
	b.WriteString(Var("h", "nil") + "\n")
	var stack []string
	tag := 100
	fresh := func() string { tag++; return fmt.Sprint(tag) }
	closeTop := func() {
		top := stack[len(stack)-1]
		stack = stack[:len(stack)-1]
		switch top {
		case "block":
			b.WriteString("}\n")
		case "loop":
			b.WriteString(Break() + "\n}\n")
		case "fun":
			b.WriteString("}\nf(" + fresh() + ");\n")
		}
	}
	nn := len(names)
	for _, e := range events {
		switch {
		case e < nn:
			b.WriteString(Var(names[e], fresh()) + "\n")
		case e < 2*nn:
			b.WriteString(VarNil(names[e-nn]) + "\n")
		case e < 3*nn:
			b.WriteString(names[e-2*nn] + " = " + fresh() + ";\n")
		case e < 4*nn:
			b.WriteString(Print(names[e-3*nn]) + "\n")
		default:
			switch e - 4*nn {
			case 0:
				b.WriteString("{\n")
				stack = append(stack, "block")
			case 1:
				b.WriteString(K["for"] + " (" + Var(names[0], fresh()) + " " + True() + "; ) {\n")
				stack = append(stack, "loop")
			case 2:
				b.WriteString(K["fun"] + " f(" + names[0] + ") {\n")
				stack = append(stack, "fun")
			case 3:
				if len(stack) == 0 {
					return "", false
				}
				closeTop()
			case 4:
				b.WriteString("f(" + fresh() + ");\n")
			case 5:
				b.WriteString("h = f;\n") // the function value escapes its scope
			case 6:
				b.WriteString("h(" + fresh() + ");\n")
			case 8:
				// several variables declared by one statement
				b.WriteString(K["var"] + " " + names[0] + " = " + fresh() + ", " + names[1] + " = " + fresh() + ";\n")
			case 9:
				// a read whose value is not used: a statement that is just the name
				b.WriteString(names[0] + ";\n")
			case 10:
				b.WriteString("(" + names[1] + ");\n")
			case 11:
				// a function declaration binds its name in the scope where it stands, like any declaration
				b.WriteString(K["fun"] + " " + names[1] + "() { " + Ret(fresh()) + " }\n")
			case 7:
				// a for header declaring several variables with one declaration list
				b.WriteString(K["for"] + " (" + K["var"] + " " + names[0] + " = " + fresh() + ", " + names[1] + " = " + fresh() + "; " + True() + "; ) {\n")
				stack = append(stack, "loop")
			}
		}
	}
	for len(stack) > 0 {
		closeTop()
	}
	return b.String(), true
}

func c03Run(c *Ctx) {
	// the Bangla name ends in precomposed U+09DF, which NFC rewrites: bindings
	// are keyed by spelling, so every operation must treat it consistently
	names := []string{"ক\u09df", "a"}
	nEv := 4*len(names) + 12
	maxLen := c.N(5, 6)
	ev := make([]int, 0, maxLen)
	var rec func()
	rec = func() {
		if len(ev) > 0 {
			// histories ending in an opener say nothing new over their prefix
			last := ev[len(ev)-1] - 4*len(names)
			if !((last >= 0 && last <= 2) || last == 7) {
				if src, ok := c03Render(ev, names); ok && c.Mine() {
					c03Judge(c, &Case{Gen: fmt.Sprintf("histories-len%d", len(ev)), Src: src})
				}
			}
		}
		if len(ev) == maxLen {
			return
		}
		for e := 0; e < nEv; e++ {
			// prune: a closer needs something open
			if e == 4*len(names)+3 {
				open := 0
				for _, x := range ev {
					k := x - 4*len(names)
					if (k >= 0 && k <= 2) || k == 7 {
						open++
					} else if k == 3 {
						open--
					}
				}
				if open <= 0 {
					continue
				}
			}
			// prune: calling f inside f's own body never terminates (no base case)
			if e == 4*len(names)+4 {
				var st []int
				for _, x := range ev {
					k := x - 4*len(names)
					if (k >= 0 && k <= 2) || k == 7 {
						st = append(st, k)
					} else if k == 3 && len(st) > 0 {
						st = st[:len(st)-1]
					}
				}
				inFun := false
				for _, k := range st {
					if k == 2 {
						inFun = true
					}
				}
				if inFun {
					continue
				}
			}
			// prune: an event that certainly faults (outside function bodies, where
			// the static scope is the dynamic one) may only be the last event
			if c03CertainFault(ev, names) {
				continue
			}
			ev = append(ev, e)
			rec()
			ev = ev[:len(ev)-1]
		}
	}
	rec()
	// hand-written scoping programs (every mechanism in the property statement)
	for _, src := range append(c03Handwritten(), c04DeepScopes()...) {
		if c.Mine() {
			c03Judge(c, &Case{Gen: "handwritten", Src: src})
		}
		if c.Mine() {
			c03Judge(c, &Case{Gen: "handwritten-cli", Mode: "cli", Src: src})
		}
	}
	// interactive mode: the same scoping rules hold for a line typed at the prompt
	for _, line := range []string{
		Var("x", "1") + " " + Print("x") + " " + Var("x", "2") + " " + Print("x"), "{ " + Var("y", "1") + " " + Var("y", "2") + " " + Print("y") + " }", For(Var("i", "0"), "i < 2", "i = i + 1", "{ "+Var("t", "i")+" "+Var("t", "9")+" "+Print("t")+" }") + " " + Print(`"done"`),
		K["var"] + " a = 1, a = 2; " + Print("a"), Var("z", "1") + " { " + Var("z", "2") + " " + Print("z") + " } " + Print("z"), Print("nope_undefined"), "q_undefined = 1;", Fun("f", "", " "+Var("w", "1")+" "+Var("w", "2")+" ") + " f();",
	} {
		if c.Mine() {
			c03Judge(c, &Case{Gen: "repl-lines", Src: strings.Join([]string{line, Print("1 + 1"), line}, "\n"), X: map[string]string{"final_newline": "1", "all_self": "1"}})
		}
	}
	// a line's bindings die with the line — including what it assigned to a built-in's name, at top level or in a function
	for _, sess := range [][]string{
		{B["max"] + " = 10; " + Print(B["max"]), Print(BI("max", "3", "7")), Print(B["max"] + " == 10")},
		{Fun("dbl", "v", " "+Ret("v * 2")+" ") + " " + B["round"] + " = dbl; " + Print(BI("round", "2.6")), Print(BI("round", "2.6")), Print("dbl")},
		{Fun("set", "", " "+B["len"]+" = nil; ") + " set(); " + Print(B["len"]), Print(BI("len", "[1, 2]")), "{ " + B["abs"] + " = 1; }", Print(BI("abs", "-4")), B["abs"] + ";"},
		{Var("keep", "5"), Print("keep"), "keep = 6;", Fun("kf", "", " "+Ret("1")+" "), Print("kf()"), Print("1 + 1")},
		{B["min"] + " = " + B["max"] + ";", Print(BI("min", "1", "2")), For(Var("i", "0"), "i < 1", "i = i + 1", "{ "+B["keys"]+" = i; }"), Print(BI("keys", "{a: 1}"))},
	} {
		if c.Mine() {
			c03Judge(c, &Case{Gen: "repl-lines", Src: strings.Join(sess, "\n"), X: map[string]string{"final_newline": "1", "all_self": "1"}})
		}
	}
	// random larger programs
	r := c.Rand("random")
	n := c.N(15000, 300000)
	for k := 0; k < n; k++ {
		g := NewPG(r, 8+r.Intn(30))
		g.Faults = r.Intn(4) == 0
		g.Names = []string{"ক", "খ\u09dc", "a", "ক\u09c7\u09be"}
		src := g.Program(3)
		if !c.Mine() {
			continue
		}
		cs := &Case{Gen: "random-programs", Src: src}
		if k%8 == 0 {
			cs.Gen, cs.Mode = "random-programs-cli", "cli"
		}
		c03Judge(c, cs)
	}
}

func c03Handwritten() []string {
	return []string{
		// inside a body the function's own name is bound afresh in every activation: assigning to it touches that activation only
		Lines(Fun("fib", "n", " "+If("n < 2", "{ fib = n; "+Ret("fib")+" }")+" "+Ret("fib(n - 1) + fib(n - 2)")+" "), Print("fib(6)"), Print("fib(7)"), Fun("label", "x", " "+Print("label")+" label = x; "+Ret("label")+" "), Print(`label("a")`), Print(`label("b")`),
			Fun("walk", "n", " "+If("n == 0", "{ walk = \"bottom\"; "+Ret("walk")+" }")+" "+Var("below", "walk(n - 1)")+" "+Print("walk")+" "+Ret("below")+" "), Print("walk(2)"), Fun("fact", "n", " "+If("n < 2", "{ "+Ret("1")+" }")+" "+Ret("n * fact(n - 1)")+" "), Var("g", "fact"), "fact = nil;", Print("g(4)")),
		// a function declared inside a branch / loop body of a function, escaping, called after its creator returned (and after
		// other calls): it still reads and assigns the creator's parameter and locals, not globals of the same name
		Lines(Var("n", `"global n"`), Var("loc", `"global loc"`), Fun("mk", "n", " "+Var("loc", "n * 2")+" "+If("n > 0", "{ "+Fun("get", "", " loc = loc + 1; "+Ret(`n + ":" + loc`)+" ")+" "+Ret("get")+" }")+" "+Ret("nil")+" "), Var("g1", "mk(1)"), Var("g5", "mk(5)"), Fun("other", "n", " "+Var("loc", "0")+" "+Ret("n + loc")+" "), "other(100);", Print("g1()"), Print("g5()"), Print("g1()"), Print("n"), Print("loc")),
		Lines(Var("i", "99"), Fun("handlers", "count", " "+Var("hs", "[]")+" "+Var("base", "count * 10")+" "+For(Var("i", "0"), "i < count", "i = i + 1", "{ "+Fun("h", "", " base = base + 1; "+Ret("base + count")+" ")+" hs = "+BI("append", "hs", "h")+"; }")+" "+Ret("hs")+" "), Var("hs", "handlers(2)"), Var("more", "handlers(3)"), Print("hs[0]()"), Print("hs[1]()"), Print("more[2]()"), Print("hs[0]()"), Print("i")),
		Lines(Fun("outer", "tag", " "+Var("k", "0")+" "+While("k < 1", "{ k = k + 1; "+Fun("inner", "", " "+Ret(`tag + k`)+" ")+" "+Ret("inner")+" }")+" "), Var("fa", `outer("a")`), Var("fb", `outer("b")`), Fun("noise", "tag, k", " "+Ret("tag")+" "), `noise("z", 9);`, Print("fa()"), Print("fb()")),
		// shadowing never modifies the outer binding; inner binding dies with its block
		Lines(Var("a", "1"), "{", Var("a", "2"), Print("a"), "a = 3;", Print("a"), "}", Print("a")),
		// assignment updates exactly the binding a read would return
		Lines(Var("a", "1"), "{", "a = 2;", "{", Var("a", "9"), "a = 10;", "}", Print("a"), "}", Print("a")),
		// for header scope shared by init/cond/incr/body; loop variable not visible after
		Lines(For(Var("i", "0"), "i < 2", "i = i + 1", "{ "+Print("i")+" }"), For(Var("i", "5"), "i < 6", "i = i + 1", "{ "+Print("i")+" }"), Print("i")),
		Lines(Var("i", "7"), For(Var("i", "0"), "i < 2", "i = i + 1", "{ "+Var("i", "50")+" "+Print("i")+" }"), Print("i")),
		// a block whose only declarations are multi-variable ones is still a scope of its own
		Lines(Var("n", "0"), While("n < 3", "{ n = n + 1; "+K["var"]+" a = n, b = n * 2; "+Print("a + b")+" }"), Print("n")),
		Lines("{ "+K["var"]+" p = 1, q = 2; "+Print("p + q")+" }", Print(`"after"`), Print("p")),
		Lines(Var("a", "100"), For(Var("i", "0"), "i < 2", "i = i + 1", "{ "+K["var"]+" a = i, b; "+Print("a")+" "+Print("b")+" }"), Print("a")),
		// a for header may declare several variables: they live in the loop's own scope
		Lines(Var("i", "100"), Var("n", "200"), For(K["var"]+" i = 0, n = 2;", "i < n", "i = i + 1", "{ "+Print("i + n")+" }"), Print("i"), Print("n")),
		Lines(For(K["var"]+" i = 0, n = 2;", "i < n", "i = i + 1", "{ "+Print("i")+" }"), For(K["var"]+" i = 5, n = 6;", "i < n", "i = i + 1", "{ "+Print("i")+" }"), Print("n")),
		Lines(For(K["var"]+" a = 1, b = 2, c;", "a < 2", "a = a + 1", "{ "+Print("c")+" "+Var("a", "9")+" "+Print("a + b")+" }"), Print("b")),
		// redeclaration in the same scope, undefined read, undefined assignment
		Lines(Var("a", "1"), Print("a"), Var("a", "2"), Print("a")),
		Lines(Print("1"), Print("q")), Lines(Print("1"), "q = 2;", Print("3")),
		// a function declared two or three blocks deep keeps every enclosing block's bindings alive after all of them ended
		Lines(Var("keep", "nil"), For(Var("i", "0"), "i < 2", "i = i + 1", "{ "+Var("outerv", "i * 10")+" "+If(True(), "{ "+Var("innerv", "1")+" "+Fun("cb", "", " "+Ret("outerv + innerv + i")+" ")+" keep = cb; }")+" }"), Print("keep()"), Print("keep()"), Print(BI("len", "[1, 2]"))),
		Lines(Var("keep", "nil"), "{ "+Var("a1", `"A"`)+" { "+Var("b1", `"B"`)+" { "+Fun("deep", "x", " "+Ret("a1 + b1 + x")+" ")+" keep = deep; } } }", Print(`keep("1")`), "{ "+Var("other", "5")+" "+Print("other")+" }", Print(`keep("2")`)),
		Lines(Var("hs", "[nil, nil]"), Var("n", "0"), While("n < 2", "{ "+Var("lv", "n + 100")+" "+IfElse("n == 0", "{ "+Fun("h0", "", " "+Ret("lv")+" ")+" hs[0] = h0; }", "{ "+Fun("h1", "", " lv = lv + 1; "+Ret("lv")+" ")+" hs[1] = h1; }")+" n = n + 1; }"), Print("hs[0]()"), Print("hs[1]()"), Print("hs[1]()"), Print("n")),
		Lines(Fun("reg", "", " "+Var("cfg", "7")+" { { "+Fun("cbk", "", " "+Ret("cfg * 2")+" ")+" "+Ret("cbk")+" } } "), Var("c1", "reg()"), Print("c1()"), Var("c2", "reg()"), Print("c2() + c1()")),
		// built-in names are bindings of the outermost scope: reading, assigning and shadowing them works like for any global
		Lines(Fun("myLen", "a", " "+Ret("42")+" "), Print(BI("len", "[1, 2]")), B["len"]+" = myLen;", Print(BI("len", "[1, 2]")), Fun("f", "", " "+B["round"]+" = myLen; "+Ret(BI("round", "2.5"))+" "), Print("f()"), Print(BI("round", "2.5")), "{ "+B["abs"]+" = nil; }", Print(B["abs"])),
		Lines(Fun("g", B["max"], " "+B["max"]+" = 5; "+Ret(B["max"])+" "), Print("g(1)"), Print(BI("max", "1", "2")), "{ "+Var("loc", "1")+" "+B["min"]+" = loc; }", Print(B["min"]), Print(`"end"`)),
		// a function declared in an inner scope shadows, never replaces, an outer binding of its name
		Lines(Fun("greet", "", " "+Ret(`"outer"`)+" "), "{ "+Fun("greet", "", " "+Ret(`"inner"`)+" ")+" "+Print("greet()")+" }", Print("greet()")),
		Lines(Var("h", "1"), Fun("f", "", " "+Fun("h", "", " "+Ret("2")+" ")+" "+Ret("h()")+" "), Print("f()"), Print("h")),
		Lines(Fun("fmt", "v", " "+Ret(`"top:" + v`)+" "), Fun("a", "", " "+Fun("fmt", "v", " "+Ret(`"a:" + v`)+" ")+" "+Ret("fmt(1)")+" "), Print("a()"), Print("fmt(2)"), For(Var("i", "0"), "i < 2", "i = i + 1", "{ "+Fun("fmt", "v", " "+Ret(`"loop:" + v`)+" ")+" "+Print("fmt(i)")+" }"), Print("fmt(3)")),
		// a read whose value is not used is still a read
		Lines(Print("1"), "q;", Print("3")), Lines(Print("1"), "(q);", Print("3")), Lines("{ "+Var("t", "1")+" t; }", "t;", Print("3")),
		Lines(Fun("g", "", " loc; "+Print(`"in g"`)+" "), Fun("f", "", " "+Var("loc", "5")+" loc; g(); "), "f();", Print("3")),
		Lines(For(Var("i", "0"), "i < 1", "i = i + 1", "{ i; }"), "((i));", Print("3")), Lines("u;", Var("u", "1"), Print("u")),
		Lines("{", Var("a", "1"), "}", Print("a")),
		// a callee never sees its caller's locals
		Lines(Fun("g", "", " "+Print("loc")+" "), Fun("f", "", " "+Var("loc", "5")+" g(); "), "f();"),
		Lines(Var("loc", "1"), Fun("g", "", " "+Print("loc")+" "), Fun("f", "", " "+Var("loc", "5")+" g(); "), "f();"),
		// parameters shadow outer names, including built-in names
		Lines(Var("a", "1"), Fun("f", "a", " a = a + 1; "+Print("a")+" "), "f(10);", Print("a")),
		Lines(Fun("f", B["len"], " "+Print(B["len"])+" "), "f(3);", Print(BI("len", "[1,2]"))),
		// a parameter named like a built-in shadows it for calls too, not only for reads
		Lines(Fun("f", B["len"], " "+Print(B["len"]+"(10)")+" "), Fun("sq", "v", " "+Ret("v * v")+" "), "f(sq);", Print(BI("len", "[1]"))),
		Lines(Fun("f", B["len"], " "+Print(B["len"])+" "+Print(B["len"]+"([1, 2])")+" "), Print(`"b"`), "f(3);"),
		Lines(Fun("outer", B["max"], " "+Fun("inner", "", " { "+Ret(B["max"]+"(1, 2)")+" } ")+" "+Ret("inner()")+" "), Fun("pick", "a, b", " "+Ret("a")+" "), Print("outer(pick)"), Print(BI("max", "1", "2"))),
		// a parameter spelled like the function itself is the parameter, not the function
		Lines(Fun("f", "f", " "+Print("f")+" f = f + 1; "+Ret("f")+" "), Print("f(41)"), Print("f(1)")),
		Lines(Fun("apply", "apply, v", " "+Ret("apply(v)")+" "), Fun("inc", "x", " "+Ret("x + 1")+" "), Print("apply(inc, 1)"), Print("apply(inc, 5)")),
		Lines(Fun("g", "g", " { "+Fun("h", "", " "+Ret("g * 2")+" ")+" "+Ret("h()")+" } "), Print("g(21)")),
		// closures made by the same declaration in different scopes keep their own scope, also when
		// an earlier one is used after a later one was created
		Lines(Fun("mk", "n", " "+Fun("get", "", " n = n + 1; "+Ret("n")+" ")+" "+Ret("get")+" "), Var("c1", "mk(10)"), Var("c2", "mk(20)"), Print("c1()"), Print("c2()"), Print("c1()"), Var("c3", "mk(30)"), Print("c1()"), Print("c3()"), Print("c2()")),
		Lines(Fun("walk", "d", " "+Fun("me", "", " "+Ret("d")+" ")+" "+If("d < 2", "walk(d + 1);")+" "+Print("me()")+" "), "walk(0);"),
		Lines(Var("fs", "[nil, nil, nil]"), For(Var("i", "0"), "i < 3", "i = i + 1", "{ "+Var("loc", "i * 10")+" "+Fun("rd", "", " "+Ret("loc")+" ")+" fs[i] = rd; }"), Print("fs[0]()"), Print("fs[1]()"), Print("fs[2]()")),
		// nested function scopes, then globals
		Lines(Var("a", "1"), Fun("f", "", " "+Var("b", "2")+" "+Fun("g", "", " "+Var("c", "3")+" "+Print("a + b + c")+" a = a + 1; b = b + 1; ")+" g(); g(); "+Print("b")+" "), "f();", Print("a")),
		// declaration initialiser sees the outer binding of the same name
		Lines(Var("a", "1"), "{", Var("a", "a + 1"), Print("a"), "}", Print("a")),
		// while body block scope is fresh per iteration
		Lines(Var("n", "0"), While("n < 3", "{ "+Var("t", "n * 10")+" "+Print("t")+" n = n + 1; }")),
		// a function declared in a block keeps that block's bindings alive after the block ended
		Lines(Var("keep", "nil"), Var("v", `"outer"`), "{", Var("v", `"inner"`), Fun("rd", "", " "+Ret("v")+" "), "keep = rd;", Print("rd()"), "}", Print("keep()"), Print("v")),
		Lines(Var("keep", "[nil, nil]"), Var("n", "100"), If(True(), "{ "+Var("n", "0")+" "+Fun("up", "", " n = n + 1; "+Ret("n")+" ")+" keep[0] = up; }"), Print("keep[0]()"), Print("keep[0]()"), Print("n")),
		Lines(Var("keep", "nil"), Var("i", "0"), While("i < 2", "{ i = i + 1; "+Var("loc", "i * 10")+" "+Fun("g", "", " loc = loc + 1; "+Ret("loc")+" ")+" keep = g; }"), Print("keep()"), Print("keep()")),
		Lines(Var("keep", "nil"), For(Var("k", "0"), "k < 2", "k = k + 1", "{ "+Var("loc", "k + 5")+" "+Fun("g", "", " "+Ret("loc + k")+" ")+" keep = g; }"), Print("keep()")),
		// identifiers whose spelling Unicode normalisation would rewrite are ordinary names
		Lines(Var("ক\u09df", "1"), "ক\u09df = ক\u09df + 1;", Print("ক\u09df"), "{ ক\u09df = 5; "+Var("ক\u09df", "7")+" ক\u09df = 8; "+Print("ক\u09df")+" }", Print("ক\u09df"), Fun("f", "ব\u09dc", " ব\u09dc = ব\u09dc * 2; "+Ret("ব\u09dc")+" "), Print("f(4)")),
		Lines(Var("ক\u09c7\u09be", "1"), For(Var("গ\u09dd", "0"), "গ\u09dd < 3", "গ\u09dd = গ\u09dd + 1", "{ ক\u09c7\u09be = ক\u09c7\u09be * 2; }"), Print("ক\u09c7\u09be"), Var("ক\u09cb", "9"), Print("ক\u09cb")),
		// if branches do not leak
		Lines(Var("a", "1"), If(True(), "{ "+Var("a", "2")+" "+Print("a")+" }"), Print("a")),
	}
}

func init() {
	register(&CheckDef{
		ID:   "C03",
		Rule: "programs: every balanced history of length <=5 (quick) / <=6 (thorough) over 20 events {declare n = fresh, declare n, assign n, read n} x 2 colliding names + {a read that is a whole statement (`n;`, `(n);`), a function declaration named like one of the variables, open block, open for-header declaring the name, open for-header declaring both names in one declaration list, a declaration list binding both names, open function taking the name as parameter, close, call f}, each assigned value a unique integer; hand-written programs for every clause of the statement; seeded random larger programs (<=40 statements, depth <=3, names from a 3-name pool, closures, loops, planted faults). Each execution of the real interpreter (with scope hooks on) is compared with refborno's scope model on stdout, first diagnostic (category, name, line) and exit status, and the hook trace is checked by a model-free scope-chain invariant. Non-trivial = distinct program with >=1 shadowing declaration and >=1 read/assignment resolved at scope distance >=1 (counted by the model).",
		Assumptions: []string{"declaring a name in a scope after a closure that mentions it was created beneath that scope is out of domain (the property's own exclusion), detected dynamically by the model", "redeclaring the function's own name or a parameter with ধরি at function-body level, and ফাংশন redeclaring an existing name in the same scope, are out of domain"},
		Run:         c03Run,
		Judge:       c03Judge,
		MustCount:   func(c *Ctx) []string { return []string{"gen:histories-len5", "gen:handwritten", "gen:random-programs", "programs_with_shadowing", "programs_with_calls", "hook_lookups_verified", "fault:UndefinedName", "fault:Redeclare", "clean", "cli_runs"} },
	})
}

// c03CertainFault: does the history (so far) already contain an event that
// certainly raises a runtime fault?  Only events outside function bodies are
// judged, by a static walk of the block / loop scopes.
func c03CertainFault(ev []int, names []string) bool {
	nn := len(names)
	type scope struct {
		kind string
		vars map[string]bool
	}
	stack := []scope{{"top", map[string]bool{"h": true}}}
	inFun := 0
	hIsFn := false
	has := func(n string) bool {
		for i := len(stack) - 1; i >= 0; i-- {
			if stack[i].vars[n] {
				return true
			}
		}
		return false
	}
	for _, e := range ev {
		switch {
		case e < 2*nn: // declare
			n := names[e%nn]
			if inFun == 0 && stack[len(stack)-1].vars[n] {
				return true
			}
			stack[len(stack)-1].vars[n] = true
		case e < 4*nn: // assign / read
			if inFun == 0 && !has(names[e%nn]) {
				return true
			}
		default:
			switch e - 4*nn {
			case 0:
				stack = append(stack, scope{"block", map[string]bool{}})
			case 1:
				stack = append(stack, scope{"loop", map[string]bool{names[0]: true}})
			case 2:
				stack[len(stack)-1].vars["f"] = true
				stack = append(stack, scope{"fun", map[string]bool{names[0]: true, "f": true}})
				inFun++
			case 3:
				if len(stack) > 1 {
					if stack[len(stack)-1].kind == "fun" {
						inFun--
					}
					stack = stack[:len(stack)-1]
				}
			case 4:
				if inFun == 0 && !has("f") {
					return true
				}
			case 5:
				if inFun == 0 {
					if !has("f") {
						return true
					}
					hIsFn = true
				}
			case 6:
				if inFun == 0 && !hIsFn {
					return true
				}
			case 7:
				stack = append(stack, scope{"loop", map[string]bool{names[0]: true, names[1]: true}})
			case 8:
				if inFun == 0 && (stack[len(stack)-1].vars[names[0]] || stack[len(stack)-1].vars[names[1]]) {
					return true
				}
				stack[len(stack)-1].vars[names[0]] = true
				stack[len(stack)-1].vars[names[1]] = true
			case 9, 10:
				if inFun == 0 && !has(names[e-4*nn-9]) {
					return true
				}
			case 11:
				stack[len(stack)-1].vars[names[1]] = true
			}
		}
	}
	return false
}
