package main

import (
	"fmt"
	"strings"
)

// C04 — calls bind by position, return exactly; closures own their state.

var c04Constructs = []string{"block", "ifthen", "ifelse", "while", "for"}

func c04Wrap(kind string, level int, inner string, iter int) string {
	after := Print(fmt.Sprintf(`"after-%s%d"`, kind, level))
	switch kind {
	case "block":
		return "{ " + inner + " " + after + " }"
	case "ifthen":
		return K["if"] + " (" + True() + ") { " + inner + " " + after + " } " + K["else"] + " { " + Print(fmt.Sprintf(`"else%d"`, level)) + " }"
	case "ifelse":
		return K["if"] + " (" + False() + ") { " + Print(fmt.Sprintf(`"then%d"`, level)) + " } " + K["else"] + " { " + inner + " " + after + " }"
	case "while":
		v := fmt.Sprintf("w%d", level)
		body := inner
		if iter == 2 {
			body = K["if"] + " (" + v + " == 2) { " + inner + " }"
		}
		return Var(v, "0") + " " + K["while"] + ` (tr("cond-` + v + `", ` + v + " < 3)) { " + v + " = " + v + " + 1; " + Print(v) + " " + body + " " + after + " }"
	case "for":
		v := fmt.Sprintf("i%d", level)
		body := inner
		if iter == 2 {
			body = K["if"] + " (" + v + " == 1) { " + inner + " }"
		}
		return K["for"] + " (" + Var(v, `tr("init-`+v+`", 0)`) + " " + `tr("cond-` + v + `", ` + v + " < 3); " + v + " = " + `tr("inc-` + v + `", ` + v + " + 1)) { " + Print(v) + " " + body + " " + after + " }"
	}
	panic(kind)
}

func c04ReturnProgram(path []string, iter int, withValue bool) string {
	inner := Ret("")
	if withValue {
		inner = Ret("777")
	}
	for l := len(path) - 1; l >= 0; l-- {
		inner = c04Wrap(path[l], l, inner, iter)
	}
	return Lines(
		Fun("tr", "t, v", " "+Print("t")+" "+Ret("v")+" "),
		Fun("f", "", "\n  "+Print(`"enter"`)+"\n  "+inner+"\n  "+Print(`"after-all"`)+"\n  "+Ret("99")+"\n"),
		Print(`"before"`), Print("f()"), Print(`"done"`), Print("f()"))
}

func c04Judge(c *Ctx, cs *Case) {
	if cs.Gen == "repl-after-call-errors" {
		c20Judge(c, cs)
		return
	}
	c.Begin(cs)
	if cs.Mode == "cli" {
		m := RunModel(cs.Src, "", false, 0)
		if cliJudge(c, cs, m) == "" {
			c.Nontrivial("cli|" + cs.Src)
		}
		return
	}
	var v string
	var m *ModelOut
	if cs.Gen == "long-call-histories" {
		m = RunModel(cs.Src, "", false, 200000000)
		if m.Res == nil || m.Res.OOD != "" {
			c.Count("skipped_out_of_domain", 1)
			return
		}
		o := RunLib(cs.Src, RunOpts{MaxSteps: int64(3*m.Res.Steps + 10000)})
		v = CompareModel(c, m, o, JudgeOpts{})
	} else {
		v, m, _ = stdJudge(c, cs, RunOpts{}, JudgeOpts{})
	}
	if v == "" && m.Res != nil {
		st := m.Res.Stats
		if st.Calls > 0 {
			c.Nontrivial(cs.Src)
		}
		if st.ReturnInWhile > 0 {
			c.Count("return_inside_while", 1)
		}
		if st.ReturnInFor > 0 {
			c.Count("return_inside_for", 1)
		}
		if st.Closures >= 3 {
			c.Count("programs_with_3plus_closures", 1)
		}
		if st.MaxCallDepth >= 100 {
			c.Count("recursion_depth_100plus", 1)
		}
		if cs.Gen == "return-placement" {
			c.Count("return_path:"+cs.X["path"], 1)
		}
		if m.Res.Fault != nil {
			c.Count("faulted", 1)
		} else {
			c.Count("clean", 1)
		}
	}
	c.Sample(cs.Gen, cs.Src)
}

func c04Run(c *Ctx) {
	both := func(cs *Case) {
		if c.Mine() {
			c04Judge(c, cs)
		}
		if c.Mine() {
			cc := *cs
			cc.Gen, cc.Mode = cs.Gen+"-cli", "cli"
			c04Judge(c, &cc)
		}
	}
	// 1. return placement: every path of depth <= 3
	var paths [][]string
	var rec func(p []string)
	rec = func(p []string) {
		if len(p) > 0 {
			paths = append(paths, append([]string{}, p...))
		}
		if len(p) == 3 {
			return
		}
		for _, k := range c04Constructs {
			rec(append(p, k))
		}
	}
	rec(nil)
	for _, p := range paths {
		for _, iter := range []int{1, 2} {
			for _, wv := range []bool{true, false} {
				both(&Case{Gen: "return-placement", Src: c04ReturnProgram(p, iter, wv), X: map[string]string{"path": strings.Join(p, ">"), "iter": fmt.Sprint(iter)}})
			}
		}
	}
	// 2. positional binding and arity
	for np := 0; np <= 4; np++ {
		for na := 0; na <= 5; na++ {
			ps := []string{}
			body := ""
			sum := "0"
			for i := 0; i < np; i++ {
				// two of the names contain precomposed letters that Unicode normalisation would rewrite
				p := []string{"p", "\u09ac\u09df\u09b8", "ক", "\u09ac\u09dc", "s"}[i]
				ps = append(ps, p)
				body += " " + Print(fmt.Sprintf(`"%s=" + %s`, p, p))
				sum += " + " + p
			}
			args := []string{}
			for i := 0; i < na; i++ {
				args = append(args, fmt.Sprint(1000+100*i))
			}
			both(&Case{Gen: "binding-arity", Src: Lines(Fun("f", strings.Join(ps, ", "), body+" "+Ret(sum)+" "), Print(`"start"`), Print(Call("f", args...)), Print(`"end"`)), X: map[string]string{"params": fmt.Sprint(np), "args": fmt.Sprint(na)}})
		}
	}
	for _, callee := range []string{"5", `"s"`, "nil", True(), "[1]", "({k: 1})", "(1 + 2)", "o.k", "a[0]"} {
		for _, args := range []string{"", "1", "1, 2"} {
			both(&Case{Gen: "non-callable", Src: Lines(Var("o", "{k: 1}"), Var("a", "[7]"), Print(`"start"`), Print(callee+"("+args+")"), Print(`"end"`))})
		}
	}
	// a parameter may carry the function's own name: it is a parameter like any other (accessor / setter style)
	for _, src := range []string{
		Lines(Fun("val", "val", " "+Ret("val")+" "), Fun("sq", "sq", " "+Ret("sq * sq")+" "), Print("val(7)"), Print(`val("k")`), Print("sq(6)"), Print("val(nil)"), Print("val(val)")),
		Lines(Fun("scale", "k, scale", " "+Ret("k * scale")+" "), Fun("pick", "pick, other", " "+If("pick", "{ "+Ret("other")+" }")+" "+Ret("nil")+" "), Print("scale(3, 5)"), Print("pick("+False()+", 1)"), Print("pick(1, 2)"), Print("scale(2)")),
		Lines(Fun("cell", "", " "+Var("v", "0")+" "+Fun("set", "set", " v = set; "+Ret("v")+" ")+" "+Fun("get", "", " "+Ret("v")+" ")+" "+Ret("{set: set, get: get}")+" "), Var("a", "cell()"), Var("b", "cell()"), "a.set(41);", "b.set(a.get() + 1);", Print("a.get()"), Print("b.get()")),
		Lines(Fun("apply", "v, apply", " "+Ret("apply(v)")+" "), Fun("inc", "n", " "+Ret("n + 1")+" "), Print("apply(1, inc)"), Print("apply(5, inc)"), Fun("cnt", "cnt", " "+If("cnt <= 0", "{ "+Ret("0")+" }")+" "+Ret("cnt - 1")+" "), Print("cnt(3)"), Print("cnt(0)")),
	} {
		both(&Case{Gen: "parameter-named-like-function", Src: src})
	}
	// every built-in called with every argument count 0..4 (numbers, then an array first): the count is checked like a user function's
	for _, nick := range []string{"len", "append", "remove", "delete", "keys", "values", "abs", "sqrt", "pow", "sin", "cos", "tan", "min", "max", "round"} {
		for na := 0; na <= 4; na++ {
			for _, first := range []string{"1", "[1, 2]", "{k: 1}"} {
				args := []string{}
				for i := 0; i < na; i++ {
					if i == 0 {
						args = append(args, first)
					} else if nick == "delete" && i == 1 {
						args = append(args, `"k"`)
					} else {
						args = append(args, fmt.Sprint(i))
					}
				}
				both(&Case{Gen: "builtin-arity", Src: Lines(Print(`"start"`), Var("r", BI(nick, args...)), Print("r"), Fun("via", "f", " "+Ret(Call("f", args...))+" "), Print("via("+B[nick]+")"), Print(`"end"`)), X: map[string]string{"nick": nick, "args": fmt.Sprint(na)}})
			}
		}
	}
	// arguments that are themselves calls, evaluated left to right, bound by position
	both(&Case{Gen: "binding-nested", Src: Lines(Fun("g", "t", " "+Print(`"g" + t`)+" "+Ret("t * 10")+" "), Fun("f", "p, q, r", " "+Print(`"f " + p + " " + q + " " + r`)+" "+Ret("p - q - r")+" "), Print("f(g(1), g(2), g(3))"), Print("f(g(4), f(g(5), 0, 0), g(6))"))})
	// 3. fresh activations
	for _, src := range append(c04Handwritten(), c04DeepScopes()...) {
		both(&Case{Gen: "activations-closures", Src: src})
	}
	// 4. closures: every interleaving of calls over sibling closures
	maxCalls := c.N(4, 6)
	for _, store := range []string{"array", "object", "vars"} {
		for k := 1; k <= 3; k++ {
			var setup []string
			var closures []string
			switch store {
			case "array":
				setup = append(setup, Fun("make", "start", " "+Var("n", "start")+" "+Fun("inc", "", " n = n + 1; "+Ret("n")+" ")+" "+Fun("get", "", " "+Ret("n")+" ")+" "+Ret("[inc, get]")+" "))
			case "object":
				setup = append(setup, Fun("make", "start", " "+Var("n", "start")+" "+Fun("inc", "", " n = n + 1; "+Ret("n")+" ")+" "+Fun("get", "", " "+Ret("n")+" ")+" "+Ret("{inc: inc, get: get}")+" "))
			case "vars":
				setup = append(setup, Fun("make", "start", " "+Var("n", "start")+" "+Fun("inc", "", " n = n + 1; "+Ret("n")+" ")+" "+Ret("inc")+" "))
			}
			for f := 0; f < k; f++ {
				name := []string{"A", "B", "C"}[f]
				setup = append(setup, Var(name, fmt.Sprintf("make(%d)", 100*(f+1))))
				switch store {
				case "array":
					closures = append(closures, name+"[0]()", name+"[1]()")
				case "object":
					closures = append(closures, name+".inc()", name+".get()")
				case "vars":
					closures = append(closures, name+"()")
				}
			}
			seq := make([]int, 0, maxCalls)
			var rc func()
			rc = func() {
				if len(seq) > 0 && c.Mine() {
					lines := append([]string{}, setup...)
					for _, s := range seq {
						lines = append(lines, Print(closures[s]))
					}
					c04Judge(c, &Case{Gen: "closure-interleavings", Src: Lines(lines...), X: map[string]string{"store": store, "factories": fmt.Sprint(k)}})
				}
				if len(seq) == maxCalls {
					return
				}
				for i := range closures {
					seq = append(seq, i)
					rc()
					seq = seq[:len(seq)-1]
				}
			}
			rc()
		}
	}
	// 4b. function-name rebinding histories: the function value kept under other
	// references (variable, array element, object property) while its name is
	// reassigned / shadowed; calls through every reference; reads of the name
	{
		// viaf calls whatever the name f denotes at the time of the call, from one and the same call expression
		pre := Lines(Var("h", "nil"), Var("arr", "[nil]"), Var("ob", "{}"), Fun("g2", "x", " "+Print(`"g2-body " + x`)+" "+Ret("x * 2")+" "), Fun("viaf", "x", " "+Ret("f(x)")+" "))
		evs := []string{
			Fun("f", "x", " "+Print(`"f-body " + x`)+" "+Ret("x")+" "),
			"h = f;", "f = %f;", Print("f(%f)"), Print("h(%f)"), Print("f"), Print("h"),
			"arr[0] = f;", Print("arr[0](%f)"), "ob.m = f;", Print("ob.m(%f)"), "{", "}", Var("f", "%f"),
			Print("viaf(%f)"), "f = g2;",
		}
		maxLen := c.N(4, 5)
		seq := []int{0}
		var rc func(open int)
		rc = func(open int) {
			if len(seq) > 1 && c.Mine() {
				var b strings.Builder
				b.WriteString(pre)
				tag := 500
				for _, e := range seq {
					t := evs[e]
					for strings.Contains(t, "%f") {
						tag++
						t = strings.Replace(t, "%f", fmt.Sprint(tag), 1)
					}
					b.WriteString(t + "\n")
				}
				b.WriteString(strings.Repeat("}\n", open))
				b.WriteString(Print("f") + "\n" + Print("h") + "\n")
				c04Judge(c, &Case{Gen: "function-name-rebinding", Src: b.String()})
			}
			if len(seq) == maxLen+1 {
				return
			}
			for e := range evs {
				no := open
				if e == 11 {
					no++
				}
				if e == 12 {
					if open == 0 {
						continue
					}
					no--
				}
				seq = append(seq, e)
				rc(no)
				seq = seq[:len(seq)-1]
			}
		}
		rc(0)
	}
	// 4c. long call histories: a call is correct however many calls (of built-ins, of user functions,
	// finished or still active) the run has already made
	for _, n := range []int{c.N(260000, 2500000), c.N(70000, 1100000)} {
		N := fmt.Sprint(n)
		for _, src := range []string{
			Lines(Fun("sq", "x", " "+Ret("x * x")+" "), Var("i", "0"), Var("s", "0"), While("i < "+N, "{ s = s + "+BI("abs", "-1")+"; i = i + 1; }"), Print("s"), Print(BI("len", "[1, 2]")), Print("sq(7)")),
			Lines(Fun("sq", "x", " "+Ret("x * x")+" "), Var("arr", "[1, 2, 3]"), Var("i", "0"), Var("s", "0"), For(";", "i < "+N, "i = i + 1", "{ "+If("i < "+BI("len", "arr"), "{ s = s + arr[i]; }")+" }"), Print("s"), Print("sq(3)"), Print(BI("max", "1", "2"))),
			Lines(Fun("one", "", " "+Ret("1")+" "), Var("i", "0"), Var("s", "0"), While("i < "+N, "{ s = s + one(); i = i + 1; }"), Print("s"), Print(BI("abs", "-2")), Print("one()")),
			Lines(Fun("mk", "", " "+Var("n", "0")+" "+Fun("up", "", " n = n + 1; "+Ret("n")+" ")+" "+Ret("up")+" "), Var("c1", "mk()"), Var("i", "0"), While("i < "+N, "{ c1(); i = i + 1; }"), Print("c1()"), Var("c2", "mk()"), Print("c2()")),
			Lines(Fun("f", "a, b", " "+Ret(BI("min", "a", "b"))+" "), Var("i", "0"), Var("s", "0"), While("i < "+N, "{ s = s + f(i, 1); i = i + 1; }"), Print("s"), Print("f(5, 4)")),
		} {
			if c.Mine() {
				c04Judge(c, &Case{Gen: "long-call-histories", Src: src, X: map[string]string{"calls": N}})
			}
		}
	}
	// 4d. interactive mode: after a line that called with the wrong count or called a non-function, later lines still call
	for _, bad := range []string{Fun("two", "a, b", " "+Ret("a")+" ") + " two(1);", Var("x", "5") + " x(1);", `"s"();`, Fun("z", "", "") + " z(1, 2);"} {
		lines := []string{Fun("add", "a, b", " "+Ret("a + b")+" ") + " " + Print("add(3, 5)"), bad, Fun("add", "a, b", " "+Ret("a + b")+" ") + " " + Print("add(3, 5)"), Fun("fib", "n", " "+If("n < 2", "{ "+Ret("n")+" }")+" "+Ret("fib(n - 1) + fib(n - 2)")+" ") + " fib(10);", bad, Fun("mk", "", " "+Var("n", "0")+" "+Fun("up", "", " n = n + 1; "+Ret("n")+" ")+" "+Ret("up")+" ") + " " + Var("u", "mk()") + " u(); u();"}
		if c.Mine() {
			c04Judge(c, &Case{Gen: "repl-after-call-errors", Src: strings.Join(lines, "\n"), X: map[string]string{"final_newline": "1", "all_self": "1"}})
		}
	}
	// 5. random compositions
	r := c.Rand("random")
	n := c.N(10000, 600000)
	for k := 0; k < n; k++ {
		g := NewPG(r, 10+r.Intn(40))
		if k%3 == 0 {
			g.Names = []string{"\u09b8\u09ae\u09df", "a", "\u0997\u09dd", "ক"}
		}
		g.Faults = r.Intn(5) == 0
		src := g.Program(3)
		if !c.Mine() {
			continue
		}
		c04Judge(c, &Case{Gen: "random-programs", Src: src})
	}
}

// c04DeepScopes: closures made in every round of a loop, counters and a recursive helper, all k blocks deep inside
// a function nested in a function (scope chains of 5 to 14 links; every closure keeps its own round's bindings).
func c04DeepScopes() []string {
	var out []string
	for k := 0; k <= 9; k++ {
		open, shut := strings.Repeat("{ ", k), strings.Repeat(" }", k)
		if k%2 == 1 {
			open, shut = strings.Repeat(If(True(), "{ "), k), strings.Repeat(" }", k)
		}
		out = append(out,
			Lines(Fun("outer", "", " "+Var("hs", "[]")+" "+Fun("inner", "base", " "+open+Var("i", "0")+" "+While("i < 3", "{ "+Var("mine", "base + i")+" "+Fun("h", "", " "+Ret("mine")+" ")+" hs = "+BI("append", "hs", "h")+"; i = i + 1; }")+shut+" ")+" inner(100); "+Ret("hs")+" "),
				Var("got", "outer()"), Print("got[0]()"), Print("got[1]()"), Print("got[2]()"), Print("got[0]() + got[2]()")),
			Lines(Fun("outer", "", " "+Var("cs", "[]")+" "+Fun("inner", "", " "+open+For(Var("r", "0"), "r < 3", "r = r + 1", "{ "+Var("n", "r * 10")+" "+Fun("inc", "", " n = n + 1; "+Ret("n")+" ")+" cs = "+BI("append", "cs", "inc")+"; }")+shut+" ")+" inner(); "+Ret("cs")+" "),
				Var("cs", "outer()"), Print("cs[0]()"), Print("cs[0]()"), Print("cs[1]()"), Print("cs[2]()"), Print("cs[0]()")),
			Lines(Fun("outer", "n", " "+Fun("mid", "m", " "+open+Fun("sum", "q", " { "+If("q == 0", "{ "+Ret("0")+" }")+" } "+Ret("q + sum(q - 1)")+" ")+" "+Ret("sum(m)")+shut+" ")+" "+Ret("mid(n)")+" "), Print("outer(4)"), Print("outer(10)")))
	}
	return out
}

func c04Handwritten() []string {
	return []string{
		// a call's value used directly: property, element and further calls after an argument list, fluent chains
		Lines(Fun("make", "n", " "+Fun("inc", "", " n = n + 1; "+Ret("n")+" ")+" "+Ret("{inc: inc, start: n}")+" "), Print("make(10).inc()"), Print("make(5).start"), Fun("dbl", "v", " "+Ret("v * 2")+" "), Fun("table", "", " "+Ret("[make, dbl]")+" "), Print("table()[1](5)"), Print("table()[0](7).inc()"),
			Fun("pair", "a, b", " "+Ret("[a, [b, a]]")+" "), Print("pair(1, 2)[1]"), Print("pair(1, 2)[1][0]"), Fun("acc", "t", " "+Fun("add", "v", " "+Ret("acc(t + v)")+" ")+" "+Ret("{add: add, total: t}")+" "), Print("acc(0).add(1).add(2).total"), Var("c", "make(1)"), "c.inc();", Print("c.inc() + make(100).inc()")),
		Lines(Fun("loopsum", "n", " "+Var("s", "0")+" "+For(Var("i", "1"), "i <= n", "i = i + 1", "{ "+If("i % 2 == 0", "{ "+Continue()+" }")+" s = s + i; }")+" "+Ret("s")+" "), Print("loopsum(5)"), Print("loopsum(6)"), Fun("cnt", "xs", " "+Var("k", "0")+" "+Var("i", "0")+" "+While("i < "+BI("len", "xs"), "{ i = i + 1; "+If("xs[i - 1] < 0", "{ "+Continue()+" }")+" k = k + 1; }")+" "+Ret("k")+" "), Print("cnt([3, 4, -1])"), Print("cnt([3, -4, 1])"),
			Fun("outer", "", " "+Var("t", "0")+" "+For(Var("a", "0"), "a < 3", "a = a + 1", "{ "+For(Var("b", "0"), "b < 2", "b = b + 1", "{ "+If("b == 1", "{ "+Continue()+" }")+" t = t + 1; }")+" t = t + 10; }")+" "+Ret("t")+" "), Print("outer()")),
		// closures that end by calling a sibling instance of themselves (same declaration, different captured state)
		Lines(Fun("mk", "tag, bonus", " "+Var("peer", "nil")+" "+Fun("setPeer", "p", " peer = p; ")+" "+Fun("hit", "n", " "+If("n > 2", "{ "+Ret(`tag + ":" + (n + bonus)`)+" }")+" "+Ret("peer(n + 1)")+" ")+" "+Ret("{hit: hit, setPeer: setPeer}")+" "),
			Var("a", `mk("a", 10)`), Var("b", `mk("b", 20)`), "a.setPeer(b.hit);", "b.setPeer(a.hit);", Print("a.hit(0)"), Print("b.hit(0)"), Print("a.hit(2)"), Print("a.hit(3)")),
		Lines(Fun("node", "name, depth, next", " "+Fun("visit", "acc", " "+If("next == nil", "{ "+Ret(`name + "@" + (acc + depth)`)+" }")+" "+Ret("next(acc + depth)")+" ")+" "+Ret("visit")+" "), Var("leaf", `node("leaf", 2, nil)`), Var("mid", `node("mid", 3, leaf)`), Var("root", `node("root", 4, mid)`), Print("root(0)"), Print("mid(1)"), Print("leaf(5)")),
		Lines(Fun("acct", "nm", " "+Var("calls", "0")+" "+Var("peer", "nil")+" "+Fun("link", "p", " peer = p; ")+" "+Fun("pass", "n", " calls = calls + 1; "+If("n == 0", "{ "+Ret("nm")+" }")+" "+Ret("peer(n - 1)")+" ")+" "+Fun("count", "", " "+Ret("calls")+" ")+" "+Ret("{pass: pass, link: link, count: count}")+" "),
			Var("x", `acct("x")`), Var("y", `acct("y")`), "x.link(y.pass);", "y.link(x.pass);", Print("x.pass(5)"), Print("x.count()"), Print("y.count()")),
		// factorial, fibonacci, mutual recursion, deep recursion
		Lines(Fun("fact", "n", " "+If("n <= 1", Ret("1"))+" "+Ret("n * fact(n - 1)")+" "), Print("fact(10)"), Print("fact(20)")),
		Lines(Fun("fib", "n", " "+If("n < 2", Ret("n"))+" "+Ret("fib(n - 1) + fib(n - 2)")+" "), Print("fib(15)")),
		Lines(Fun("even", "n", " "+If("n == 0", Ret(True()))+" "+Ret("odd(n - 1)")+" "), Fun("odd", "n", " "+If("n == 0", Ret(False()))+" "+Ret("even(n - 1)")+" "), Print("even(500)"), Print("odd(7)"), Print("even(301)")),
		Lines(Fun("depth", "n", " "+If("n == 0", Ret("0"))+" "+Ret("1 + depth(n - 1)")+" "), Print("depth(500)")),
		// locals survive a recursive call made in between
		Lines(Fun("f", "n", " "+Var("loc", "n * 10")+" "+If("n > 0", "f(n - 1);")+" "+Print("loc")+" "+Ret("loc")+" "), Print("f(3)")),
		// re-entrant call through a callback stored in an array / object
		Lines(Fun("apply", "fn, v", " "+Var("t", "v + 1")+" "+Var("res", "fn(t)")+" "+Print("t")+" "+Ret("res")+" "), Fun("dbl", "x", " "+Ret("apply2(x)")+" "), Fun("apply2", "v", " "+Var("t", "v * 2")+" "+Ret("t")+" "), Var("tab", "[dbl]"), Var("ob", "{h: dbl}"), Print("apply(tab[0], 5)"), Print("apply(ob.h, 7)")),
		// first executed return wins; no return gives nil; return without value gives nil
		Lines(Fun("f", "x", " "+If("x > 0", "{ "+Ret(`"pos"`)+" }")+" "+If("x < 0", "{ "+Ret(`"neg"`)+" }")+" "), Print("f(1)"), Print("f(-1)"), Print("f(0)"), Fun("g", "", " "+Ret("")+" "+Print(`"unreachable"`)+" "), Print("g()")),
		// return from nested loops inside a function leaves both
		Lines(Fun("find", "", " "+For(Var("i", "0"), "i < 3", "i = i + 1", "{ "+Var("j", "0")+" "+While("j < 3", "{ "+If("i * 3 + j == 4", "{ "+Ret("i * 10 + j")+" }")+" j = j + 1; }")+" }")+" "+Ret("-1")+" "), Print("find()")),
		// captured variable observes later updates and outlives its scope
		Lines(Var("fs", "[]"), "{", Var("x", "1"), Fun("show", "", " "+Ret("x")+" "), "fs = "+BI("append", "fs", "show")+";", "x = 2;", Print("show()"), "}", Print("fs[0]()")),
		Lines(Fun("outer", "", " "+Var("v", `"first"`)+" "+Fun("rd", "", " "+Ret("v")+" ")+" v = "+`"second"`+"; "+Ret("rd")+" "), Var("r", "outer()"), Print("r()")),
		// two closures from one activation share it; different activations do not
		Lines(Fun("mk", "", " "+Var("n", "0")+" "+Fun("up", "", " n = n + 1; "+Ret("n")+" ")+" "+Fun("dn", "", " n = n - 1; "+Ret("n")+" ")+" "+Ret("[up, dn]")+" "), Var("p", "mk()"), Var("q", "mk()"), Print("p[0]()"), Print("p[0]()"), Print("q[0]()"), Print("p[1]()"), Print("q[1]()"), Print("q[1]()")),
		// closure in a loop captures the per-iteration block variable
		Lines(Var("fs", "[]"), For(Var("i", "0"), "i < 3", "i = i + 1", "{ "+Var("j", "i * 10")+" "+Fun("h", "", " "+Ret("j")+" ")+" fs = "+BI("append", "fs", "h")+"; }"), Print("fs[0]()"), Print("fs[1]()"), Print("fs[2]()")),
		// functions returned from functions, called immediately; function values as arguments
		Lines(Fun("adder", "a", " "+Fun("add", "b", " "+Ret("a + b")+" ")+" "+Ret("add")+" "), Print("adder(1)(2)"), Var("a5", "adder(5)"), Print("a5(10)"), Print("adder(100)(a5(1))")),
		// accumulator closed over by several closures stored in an object
		Lines(Fun("acc", "", " "+Var("total", "0")+" "+Fun("add", "x", " total = total + x; "+Ret("total")+" ")+" "+Fun("reset", "", " total = 0; "+Ret("total")+" ")+" "+Ret("{add: add, reset: reset}")+" "), Var("o1", "acc()"), Var("o2", "acc()"), Print("o1.add(5)"), Print("o1.add(6)"), Print("o2.add(1)"), Print("o1.reset()"), Print("o1.add(2)"), Print("o2.add(1)")),
		// a return inside a for loop leaves at once: the increment does not run again
		Lines(Var("pos", "0"), Fun("find", "", " "+For("pos = 0;", "pos < 5", "pos = pos + 1", "{ "+If("pos == 1", Ret("pos"))+" }")+" "+Ret("-1")+" "), Print("find()"), Print("pos")),
		Lines(Var("ticks", "0"), Fun("tick", "", " ticks = ticks + 1; "+Ret("ticks")+" "), Fun("g", "", " "+For(Var("i", "0"), "i < 9", "i = tick()", "{ "+If("i == 3", Ret(`"found"`))+" }")+" "+Ret(`"none"`)+" "), Print("g()"), Print("ticks")),
		Lines(Fun("g", "", " "+Var("n", "0")+" "+For(";", "", "n = n + 1", "{ "+If("n == 2", "{ "+Ret("n")+" }")+" }")+" "), Print("g()")),
		// factories whose inner function is declared inside a branch, a loop body or a bare block: every call of the factory makes a separate variable
		Lines(Fun("make", "kind", " "+Var("n", "0")+" "+IfElse(`kind == "up"`, "{ "+Fun("step", "", " n = n + 1; "+Ret("n")+" ")+" "+Ret("step")+" }", "{ "+Fun("step", "", " n = n - 1; "+Ret("n")+" ")+" "+Ret("step")+" }")+" "), Var("u", `make("up")`), Print("u()"), Print("u()"), Var("d", `make("down")`), Print("d()"), Print("u()"), Print("d()"), Print("u()"), Var("u2", `make("up")`), Print("u2()"), Print("u()")),
		Lines(Fun("mk", "start", " "+Var("acc", "start")+" "+While(True(), "{ "+Fun("add", "x", " acc = acc + x; "+Ret("acc")+" ")+" "+Ret("add")+" }")+" "), Var("a1", "mk(10)"), Print("a1(1)"), Var("a2", "mk(100)"), Print("a2(1)"), Print("a1(1)"), Print("a2(5)"), Print("a1(5)")),
		Lines(Fun("cell", "v", " { "+Fun("get", "", " "+Ret("v")+" ")+" "+Fun("set", "x", " v = x; "+Ret("v")+" ")+" "+Ret("[get, set]")+" } "), Var("c1", "cell(1)"), Var("c2", "cell(2)"), Print("c1[0]()"), "c2[1](20);", Print("c1[0]()"), Print("c2[0]()"), Var("c3", "cell(3)"), Print("c1[0]() + c2[0]() + c3[0]()")),
		// parameters whose spelling Unicode normalisation would rewrite, read and assigned in the body and in inner closures
		Lines(Var("\u09ac\u09df\u09b8", "99"), Fun("f", "\u09ac\u09df\u09b8", " \u09ac\u09df\u09b8 = \u09ac\u09df\u09b8 + 1; "+Ret("\u09ac\u09df\u09b8")+" "), Print("f(20)"), Print("\u09ac\u09df\u09b8"),
			Fun("mk", "\u09b8\u09ae\u09df", " "+Fun("up", "\u09ac\u09dc", " \u09b8\u09ae\u09df = \u09b8\u09ae\u09df + \u09ac\u09dc; "+Ret("\u09b8\u09ae\u09df")+" ")+" "+Ret("up")+" "), Var("u1", "mk(1)"), Var("u2", "mk(100)"), Print("u1(1)"), Print("u2(1)"), Print("u1(5)")),
		// a return without a value yields nil whatever earlier calls returned
		Lines(Fun("sq", "x", " "+Ret("x * x")+" "), Fun("note", "m", " "+If(`m == ""`, "{ "+Ret("")+" }")+" "+Ret("m")+" "), Print("sq(7)"), Print(`note("")`), Print(`note("x")`), Print(`note("")`), Fun("none", "", " "+Ret("")+" "), Print("[sq(2), none(), sq(3), none()]")),
		// comments closed with any number of stars inside and in front of functions are blanks
		Lines("/** guard **/", Fun("limit", "n", " /** neg **/ "+If("n < 0", "{ "+Ret("0")+" }")+" /**** double ****/ "+Ret("n * 2")+" /* end */ "), Print("limit(-5)"), Print("limit(4)"), "/***/", Fun("mkc", "", " /** state **/ "+Var("n", "0")+" /* f */ "+Fun("up", "", " n = n + 1; "+Ret("n")+" ")+" /**/ "+Ret("up")+" "), Var("n", "100"), Var("k1", "mkc()"), Var("k2", "mkc()"), Print("k1()"), Print("k1()"), Print("k2()"), Print("n"), "/* last */"),
		// built-ins with no fixed count report a wrong count like any function, also when called through a value
		Lines(Var("m", B["max"]), Fun("callit", "f", " "+Ret("f()")+" "), Print(`"before"`), Print("callit(m)"), Print(`"AFTER"`)), Lines(Print(`"before"`), Print(BI("min")), Print(`"AFTER"`)), Lines(Var("fs", "["+B["max"]+"]"), Print(`"before"`), "fs[0]();", Print(`"AFTER"`)),
		// names: a leading underscore, a lone underscore, English words that happen to name built-ins elsewhere
		Lines(Fun("_mk", "", " "+Var("_n", "0")+" "+Fun("_step", "", " _n = _n + 1; "+Ret("_n")+" ")+" "+Ret("_step")+" "), Var("_a", "_mk()"), Var("_b", "_mk()"), Print("_a()"), Print("_a()"), Print("_b()"), Fun("second", "_, v", " "+Ret("v")+" "), Print("second(1, 2)"), Fun("_go", "k, acc", " "+If("k == 0", "{ "+Ret("acc")+" }")+" "+Ret("_go(k - 1, acc + k)")+" "), Print("_go(4, 0)"), Print(`"before"`), Print("second(1)"), Print(`"AFTER"`)),
		Lines(Fun("pow", "b, e", " "+If("e == 0", "{ "+Ret("1")+" }")+" "+Ret("b * pow(b, e - 1)")+" "), Print("pow(2, 10)"), Fun("abs", "x", " "+If("x < 0", "{ "+Ret("0 - x")+" }")+" "+Ret("x")+" "), Var("f", "abs"), Print("f(-3) + abs(4)"), Fun("game", "", " "+Var("round", "0")+" "+Fun("next", "", " round = round + 1; "+Ret("round")+" ")+" "+Ret("next")+" "), Var("g1", "game()"), Var("g2", "game()"), "g1();", Print("g1()"), Print("g2()"),
			Fun("max", "a", " "+Ret("a")+" "), Fun("len", "", " "+Ret("0")+" "), Var("sqrt", "1"), Var("clock", "2"), Var("print", "3"), Var("keys", "4"), Var("min", "5"), Var("sin", "6"), Print("max(7) + len() + sqrt + clock + print + keys + min + sin"), Print(`"before"`), Print("abs(1, 2)"), Print(`"AFTER"`)),
		// a call that executes no ফেরত yields nil, whatever its last statement was
		Lines(Var("acc", "{total: 0}"), Var("cnt", "0"), Fun("dbl", "y", " "+Ret("y * 2")+" "), Fun("f1", "", " acc.total = acc.total + 50; "), Fun("f2", "", " cnt = cnt + 1; "), Fun("f3", "y", " dbl(y); "), Fun("f4", "", " 7; "), Fun("f5", "a", " a[0] = 4; "), Fun("f6", "", " "+If(False(), "{ "+Ret("1")+" }")+" cnt; "),
			Print("f1()"), Print("f2() == nil"), Print("[f3(2), f4()]"), Var("arr5", "[0]"), Print("f5(arr5)"), Print("f6()"), IfElse("f1()", Print(`"came back"`), Print(`"nothing came back"`)), Print(`"" + cnt + acc.total`)),
		// the operand of ফেরত may be any expression, an assignment included
		Lines(Fun("counter", "", " "+Var("n", "0")+" "+Fun("next", "", " "+Ret("n = n + 1")+" ")+" "+Ret("next")+" "), Var("c1", "counter()"), Print("c1()"), Print("c1()"), Var("memo", "[0, 0, 0]"), Fun("sq", "k", " "+Ret("memo[k] = k * k")+" "), Print("sq(2)"), Print("memo"), Var("state", "{last: 0}"), Fun("rec", "v", " "+If("v > 5", "{ "+Ret("state.last = v")+" }")+" "+Ret("state.last = state.last + v")+" "), Print("rec(1)"), Print("rec(9)"), Print("state")),
		// the operand of ফেরত may start on the following line or after a comment
		Lines(Fun("fib", "n", " "+If("n < 2", "{ "+K["return"]+"\n n; }")+"\n"+K["return"]+"\n fib(n - 1) + fib(n - 2);\n"), Print("fib(10)"), Fun("pick", "xs, want", "\n"+For(Var("i", "0"), "i < "+BI("len", "xs"), "i = i + 1", "{ "+If("xs[i] == want", "{ "+K["return"]+" // found\n i; }")+" }")+"\n"+K["return"]+" /* none */\n -1;\n"), Print("pick([4, 5, 6], 5)"), Print("pick([4], 9)"),
			Fun("cnt", "", " "+Var("n", "0")+" "+Fun("up", "", " n = n + 1; "+K["return"]+"\n\n n; ")+" "+K["return"]+"\n up; "), Var("u", "cnt()"), Print("u()"), Print("u()")),
		// arguments are evaluated (and must be valid) whatever the callee does with them
		Lines(Var("ticks", "0"), Fun("tick", "", " ticks = ticks + 1; "+Ret("ticks")+" "), Fun("debug", "msg", " "), Fun("noop", "a, b", " // nothing\n "), `debug("step " + tick());`, "noop(tick(), tick());", Print("ticks"), Var("handler", "nil"), Print(`"before"`), "noop(1, handler(1));", Print(`"AFTER"`)),
		// one call expression executed several times while what its callee name denotes changes in between
		Lines(Fun("greet", "", " "+Ret(`"hi"`)+" "), Fun("other", "", " "+Ret(`"yo"`)+" "), Fun("run", "", " "+Ret("greet()")+" "), Print("run()"), "greet = other;", Print("run()"), "greet = 7;", Print(`"before"`), Print("run()"), Print(`"AFTER"`)),
		Lines(Fun("plus", "a", " "+Ret("a + 1")+" "), Fun("times", "a", " "+Ret("a * 3")+" "), Var("acc", "1"), For(Var("i", "0"), "i < 4", "i = i + 1", "{ acc = plus(acc); "+If("i == 1", "{ plus = times; }")+" }"), Print("acc")),
		Lines(Fun("twice", "x", " "+Ret("x * 2")+" "), Fun("square", "x", " "+Ret("x * x")+" "), Fun("apply", "twice, v", " "+Ret("twice(v)")+" "), Print("apply(twice, 5)"), Print("apply(square, 5)"), Print("apply(twice, 6)")),
		Lines(Fun("f", "", " "+Ret("1")+" "), Fun("call", "", " "+Ret("f()")+" "), Print("call()"), "{ "+Var("f", "2")+" "+Print("call()")+" }", "f = nil;", Print("call()"), Print(`"AFTER"`)),
		Lines(Fun("a", "", " "+Ret(`"a"`)+" "), Fun("b", "", " "+Ret(`"b"`)+" "), Var("k", "0"), While("k < 3", "{ "+Print("a()")+" "+Var("t", "a")+" a = b; b = t; k = k + 1; }")),
		// parameters may be named like built-ins and are then called / read like any binding
		Lines(Fun("apply", B["len"]+", x", " "+Ret(B["len"]+"(x)")+" "), Fun("twice", "v", " "+Ret("v * 2")+" "), Print("apply(twice, 21)"), Print(BI("len", "[1, 2, 3]"))),
		Lines(Fun("f", B["abs"], " "+Fun("inner", "", " "+Ret(B["abs"]+"(5)")+" ")+" "+Ret("inner()")+" "), Fun("neg", "v", " "+Ret("0 - v")+" "), Print("f(neg)"), Print(BI("abs", "-5"))),
		Lines(Fun("f", B["pow"], " "+Print(B["pow"])+" "+Ret(B["pow"]+"(2, 3)")+" "), Print(`"before"`), Print("f(7)"), Print(`"not reached"`)),
		Lines(Fun("f", B["clock"], " { "+Ret(B["clock"]+"()")+" } "), Fun("k", "", " "+Ret(`"from-param"`)+" "), Print("f(k)")),
		// a function's name is an ordinary binding: rebinding it is not undone by calling the old value
		Lines(Fun("f", "", " "+Ret("1")+" "), Var("g", "f"), "f = 5;", Print("g()"), Print("f"), Print("g()"), Print("f")),
		Lines(Fun("price", "x", " "+Ret("x + 1")+" "), Var("old", "price"), "price = nil;", Print("old(1)"), Print("price"), "{", Fun("price", "x", " "+Ret("old(x) + 100")+" "), Print("price(1)"), Print("price(1)"), "}", Print("price")),
		Lines(Var("tab", "[nil]"), "{", Fun("f", "", " "+Ret("7")+" "), "tab[0] = f;", "f = 0;", Print("tab[0]()"), Print("f"), "}", Print("tab[0]()")),
		// arity and non-function faults carry the call's line
		Lines(Fun("f", "a", " "+Ret("a")+" "), Print(`"x"`), Print("f(1)"), Print("f()")),
		Lines(Fun("f", "a", " "+Ret("a")+" "), Print(`"x"`), Print("f(1, 2)")),
		Lines(Var("notfn", "3"), Print(`"x"`), "notfn();"),
	}
}

func init() {
	register(&CheckDef{
		ID:   "C04",
		Rule: "programs: a function whose body nests `ফেরত` under every path of depth <=3 over {block, if-then, if-else, while, for} (155 paths) x {first, second iteration} x {with value, without}, with tagged prints after the return at every level; 0-4 parameters x 0-5 arguments with unique values; non-callable callees of every kind; one call expression executed repeatedly while its callee name is rebound (wrapper, loop, parameter named like a global function); runs that have already made 70 000 - 2 500 000 calls of built-ins, user functions and closures; recursion (factorial, fibonacci, mutual, depth 500), callbacks through arrays/objects; counter factories with every interleaving of <=4 (quick) / <=6 (thorough) calls over the closures of 1-3 factory activations stored in arrays, objects and variables; seeded random compositions. Each through the real interpreter in-process and (all enumerated families except interleavings) through the binary, compared with refborno's closure model. Non-trivial = distinct program in which at least one user function call executes.",
		Assumptions: []string{"break/continue reaching a function body outside a loop, duplicate parameters, and redeclaring a function's own name/parameters are out of domain"},
		Run:         c04Run,
		Judge:       c04Judge,
		MustCount: func(c *Ctx) []string {
			out := []string{"return_inside_while", "return_inside_for", "programs_with_3plus_closures", "recursion_depth_100plus", "fault:Arity", "fault:NotCallable", "gen:closure-interleavings", "gen:function-name-rebinding", "gen:repl-after-call-errors", "gen:long-call-histories", "gen:builtin-arity", "gen:parameter-named-like-function", "cli_runs"}
			return out
		},
	})
}
