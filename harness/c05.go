package main

import (
	"fmt"
	"strings"
)

// C05 — branches and loops run exactly what their conditions dictate.

const c05Probe = "c" // ফাংশন c(t, v) { দেখাও t; ফেরত v; }

func c05Prelude() string {
	return Fun(c05Probe, "t, v", " "+Print("t")+" "+Ret("v")+" ") + "\n"
}

type c05Item struct {
	text string // may contain %T for a unique trace tag
}

func c05Items(v string, inner bool) []string {
	items := []string{
		Print(`"T%T"`),
		Break(),
		Continue(),
		If(v+" == 1", Break()),
		If(v+" == 1", Continue()),
		If(v+" == 2", "{ "+Print(`"T%T"`)+" "+Break()+" }"),
		If(v+" == 2", "{ "+Print(`"T%T"`)+" "+Continue()+" }"),
		IfElse(v+" == 1", "{ "+Print(`"then%T"`)+" }", "{ "+Print(`"else%T"`)+" }"),
		IfElse(v+" == 1", Break(), Print(`"else%T"`)),
		IfElse(v+" == 1", Print(`"then%T"`), Continue()),
		If(True(), Print(`"T%T"`)),
		If(False(), Break()),
		"{ " + Print(`"T%T"`) + " " + If(v+" == 2", Continue()) + " " + Print(`"T%T"`) + " }",
	}
	if inner {
		items = append(items, If("i == 1", Break()), If("i == 2", Continue()))
	}
	return items
}

var c05LoopKinds = []string{"while", "for", "for-nocond", "for-noinc", "for-noinit", "for-multivar"}

// c05Loop builds a bounded loop of the given kind over variable v.
func c05Loop(kind, v, body string) string {
	P := func(tag, e string) string { return Call(c05Probe, `"`+tag+"-"+v+`"`, e) }
	switch kind {
	case "while":
		return Var(v, "0") + "\n" + K["while"] + " (" + P("cond", v+" < 3") + ") {\n" + v + " = " + v + " + 1;\n" + body + "}\n"
	case "for":
		return K["for"] + " (" + Var(v, P("init", "0")) + " " + P("cond", v+" < 3") + "; " + v + " = " + P("inc", v+" + 1") + ") {\n" + body + "}\n"
	case "for-nocond":
		return K["for"] + " (" + Var(v, P("init", "0")) + " ; " + v + " = " + P("inc", v+" + 1") + ") {\n" + If(v+" >= 3", Break()) + "\n" + body + "}\n"
	case "for-noinc":
		return K["for"] + " (" + Var(v, P("init", "0")) + " " + P("cond", v+" < 3") + "; ) {\n" + v + " = " + v + " + 1;\n" + body + "}\n"
	case "for-multivar":
		lim := "lim" + v
		return K["for"] + " (" + K["var"] + " " + v + " = " + P("init", "0") + ", " + lim + " = 3; " + P("cond", v+" < "+lim) + "; " + v + " = " + P("inc", v+" + 1") + ") {\n" + body + "}\n"
	case "for-noinit":
		return Var(v, "0") + "\n" + K["for"] + " (; " + P("cond", v+" < 3") + "; " + v + " = " + P("inc", v+" + 1") + ") {\n" + body + "}\n"
	}
	panic(kind)
}

func c05Tagify(s string) string {
	n := 0
	for strings.Contains(s, "%T") {
		n++
		s = strings.Replace(s, "%T", fmt.Sprint(n), 1)
	}
	return s
}

func c05Judge(c *Ctx, cs *Case) {
	if cs.Gen == "repl-after-stray" {
		c20Judge(c, cs)
		return
	}
	c.Begin(cs)
	if cs.Mode == "cli" {
		m := RunModel(cs.Src, "", false, 0)
		if cliJudge(c, cs, m) == "" {
			c.Nontrivial("cli|" + cs.Src)
		}
		return
	}
	var v string
	var m *ModelOut
	if cs.X != nil && cs.X["model_steps"] != "" {
		m = RunModel(cs.Src, "", false, 60000000)
		o := RunLib(cs.Src, RunOpts{MaxSteps: int64(3*m.Res.Steps + 10000)})
		v = CompareModel(c, m, o, JudgeOpts{})
	} else {
		v, m, _ = stdJudge(c, cs, RunOpts{}, JudgeOpts{})
	}
	if v == "" && m.Res != nil {
		st := m.Res.Stats
		if st.LoopIters > 0 || st.IfTaken+st.ElseTaken > 0 {
			c.Nontrivial(cs.Src)
		}
		c.Count("loop_iterations", int64(st.LoopIters))
		c.Count("breaks_taken", int64(st.Breaks))
		c.Count("continues_taken", int64(st.Continues))
		c.Count("then_arms", int64(st.IfTaken))
		c.Count("else_arms", int64(st.ElseTaken))
	}
	c.Sample(cs.Gen, cs.Src)
}

func c05Run(c *Ctx) {
	pre := c05Prelude()
	// 1. loop skeletons
	innerKinds := []string{"while", "for", "for-noinc", "for-multivar"}
	innerItems := c05Items("j", true)[:9]
	innerItems = append(innerItems, If("i == 1", Break()), If("i == 2", Continue()))
	var innerLoops []string
	for _, ik := range innerKinds {
		for a := range innerItems {
			innerLoops = append(innerLoops, c05Loop(ik, "j", innerItems[a]+"\n"))
			for b := range innerItems {
				if c.Quick() && (a+b)%3 != 0 {
					continue
				}
				innerLoops = append(innerLoops, c05Loop(ik, "j", innerItems[a]+"\n"+innerItems[b]+"\n"))
			}
		}
	}
	outerItems := c05Items("i", false)
	maxItems := c.N(2, 3)
	for _, ok := range c05LoopKinds {
		seq := []string{}
		var rec func(usedInner bool)
		rec = func(usedInner bool) {
			if len(seq) > 0 && c.Mine() {
				body := strings.Join(seq, "\n") + "\n" + Print(`"end-body"`) + "\n"
				loop := c05Loop(ok, "i", body)
				if ok == "for-multivar" {
					// entered twice from the same scope: the header variables must be fresh each time
					loop = loop + Print(`"between"`) + "\n" + loop
				}
				src := pre + c05Tagify(loop+Print(`"after"`)+"\n")
				c05Judge(c, &Case{Gen: "loop-skeletons", Src: src, X: map[string]string{"outer": ok}})
			}
			if len(seq) == maxItems {
				return
			}
			for _, it := range outerItems {
				seq = append(seq, it)
				rec(usedInner)
				seq = seq[:len(seq)-1]
			}
			if !usedInner {
				for _, il := range innerLoops {
					seq = append(seq, il)
					rec(true)
					seq = seq[:len(seq)-1]
				}
			}
		}
		rec(false)
	}
	// 2. arm selection for a value of every kind, in if / if-else / while / for conditions
	vals := []string{"nil", True(), False(), "0", "(-0)", "1", "0.5", "(0 - 0)", `""`, `("" + "")`, `"a"`, `"0"`, "[]", "[0]", "{}", "{k: 0}", B["len"], c05Probe, "((10 ** 400) - (10 ** 400))", "(7 & 8)", "(7 & 3)"}
	for _, v := range vals {
		for _, form := range []string{
			IfElse("x", Print(`"then"`), Print(`"else"`)),
			If("x", Print(`"then"`)),
			IfElse("!x", Print(`"then"`), Print(`"else"`)),
			Var("n", "0") + " " + While("x", "{ "+Print(`"body"`)+" n = n + 1; "+If("n == 2", Break())+" }"),
			For(Var("n", "0"), "x", "n = n + 1", "{ "+Print(`"body"`)+" "+If("n == 1", Break())+" }"),
			IfElse("x", IfElse("x", Print(`"tt"`), Print(`"tf"`)), IfElse("x", Print(`"ft"`), Print(`"ff"`))),
		} {
			src := pre + Var("x", v) + "\n" + form + "\n" + Print(`"after"`) + "\n"
			if c.Mine() {
				c05Judge(c, &Case{Gen: "arm-selection", Src: src})
			}
			if c.Mine() {
				c05Judge(c, &Case{Gen: "arm-selection-cli", Mode: "cli", Src: src})
			}
		}
	}
	// 2b. else-if chains of 1..6 conditions, braced and unbraced arms, with and without a final else:
	// exactly the first arm whose condition is truthy runs (sel = index of that arm; sel == n: none),
	// conditions are traced probes, and arms inside a loop may break / continue
	for n := 1; n <= 6; n++ {
		for sel := 0; sel <= n; sel++ {
			for style := 0; style < 4; style++ {
				arm := func(i int, extra string) string {
					body := Print(fmt.Sprintf(`"arm%d"`, i)) + extra
					if style%2 == 0 {
						return body
					}
					return "{ " + body + " }"
				}
				mk := func(extras bool) string {
					var chain strings.Builder
					for i := 0; i < n; i++ {
						if i > 0 {
							chain.WriteString(" " + K["else"] + " ")
						}
						ex := ""
						if extras && i == n-1 {
							ex = " " + Continue()
						} else if extras && i == 1 {
							ex = " " + Break()
						}
						chain.WriteString(K["if"] + " (" + fmt.Sprintf(`c("cond%d", k == %d)`, i, i) + ") " + arm(i, ex))
						if style >= 2 {
							chain.WriteString("\n")
						}
					}
					if style >= 2 || n%2 == 0 {
						chain.WriteString(" " + K["else"] + " " + arm(99, ""))
					}
					return chain.String()
				}
				src := pre + Lines(Var("k", fmt.Sprint(sel)), mk(false), Print(`"after"`),
					For(Var("r", "0"), "r < 4", "r = r + 1", "{ k = k - 1; "+mk(style%2 == 1)+" "+Print(`"tail"`)+" }"), Print(`"end"`))
				if c.Mine() {
					c05Judge(c, &Case{Gen: "else-if-chains", Src: src})
				}
				if c.Mine() && style == 0 {
					c05Judge(c, &Case{Gen: "else-if-chains-cli", Mode: "cli", Src: src})
				}
			}
		}
	}
	// 2b'. an arm that is itself an unbraced loop (or a loop followed by the other arm): the else still
	// belongs to the if, exactly one arm runs, and a break / continue in the arm belongs to the enclosing loop
	for _, kv := range []string{"0", "1", "2"} {
		for _, loop := range []string{
			While(`c("w", n < 2)`, "{ n = n + 1; "+Print(`"in loop"`)+" }"),
			For(Var("j", "0"), `c("f", j < 2)`, "j = j + 1", "{ "+Print(`"in for"`)+" "+If("j == 1", Break())+" }"),
			For(";", "", "", "{ "+Print(`"once"`)+" "+Break()+" }"),
			While(`c("w2", n < 1)`, "n = n + 1;"),
			While(False(), Print(`"never"`)),
		} {
			src := pre + Lines(Var("k", kv), Var("n", "0"),
				K["if"]+" ("+`c("cond", k == 1)`+") "+loop+" "+K["else"]+" "+Print(`"else arm"`),
				Print(`"mid"`), "n = 0;",
				K["if"]+" (k == 0) "+Print(`"k0"`)+" "+K["else"]+" "+K["if"]+" (k == 1) "+loop+" "+K["else"]+" { "+Print(`"k2"`)+" }",
				Print(`"mid2"`), "n = 0;",
				For(Var("r", "0"), "r < 3", "r = r + 1", "{ "+K["if"]+" (r == k) "+loop+" "+K["else"]+" { "+Print(`"skip " + r`)+" "+Continue()+" } "+Print(`"tail " + r`)+" n = 0; }"),
				Print(`"end"`))
			if c.Mine() {
				c05Judge(c, &Case{Gen: "loop-as-arm", Src: src})
			}
		}
	}
	// 2b2. comments closed with any number of stars around and inside control flow are blanks
	for _, cm := range []string{"/** doc **/", "/**** banner ****/", "/***/", "/* plain */", "/** odd ***/", "/*//*/"} {
		src := pre + Lines(Var("i", "0"), cm, While("i < 6", "{ i = i + 1; "+cm+" "+If("i % 2 == 0", "{ "+Continue()+" }")+" "+cm+"\n"+Print("i")+" }"), cm+" "+For(Var("j", "0"), "j < 5", "j = j + 1", "{ "+cm+" "+If("j == 3", Break())+" "+Print("j")+" /* tail */ }"),
			IfElse("i == 6", cm+" "+Print(`"six"`), cm+" "+Print(`"other"`)), cm, Print(`"end"`), "/* last */")
		if c.Mine() {
			c05Judge(c, &Case{Gen: "comment-shapes", Src: src})
		}
	}
	// 2b3. loops whose rounds depend on a work list filled several items per call, and on bounds written with shifts
	for _, src := range []string{
		pre + Lines(Var("q", "[1]"), Var("rounds", "0"), While(BI("len", "q")+" > 0 && rounds < 50", "{ "+Var("n", "q[0]")+" q = "+BI("remove", "q", "0")+"; rounds = rounds + 1; "+If("n < 4", "{ q = "+BI("append", "q", "n * 2", "n * 2 + 1")+"; }")+" }"), Print("rounds"),
			Var("xs", "[]"), For(Var("b", "0"), "b < 2", "b = b + 1", "{ xs = "+BI("append", "xs", "b", "b + 10", "b + 20")+"; }"), For(Var("i", "0"), "i < "+BI("len", "xs"), "i = i + 1", "{ "+If("xs[i] == 20", "{ "+Print(`"found"`)+" "+Break()+" }")+" "+Print("xs[i]")+" }")),
		pre + Lines(Var("n", "3"), Var("cnt", "0"), For(Var("mask", "0"), "mask < 1 << n", "mask = mask + 1", "{ cnt = cnt + 1; }"), Print("cnt"), Var("size", "8"), Var("i", "0"), While("i < size >> 1", "{ i = i + 1; }"), Print("i"), IfElse("i >= size >> 2", Print(`"ge"`), Print(`"lt"`)), If("1 << 2 > 3 && 3 <= 1 << 2", Print(`"both"`))),
	} {
		if c.Mine() {
			c05Judge(c, &Case{Gen: "comment-shapes", Src: src})
		}
	}
	// 2c. conditions that are comparisons whose operands are traced probes yielding every kind of value:
	// each operand is evaluated once per test, whatever it yields
	for _, items := range []string{`["a", "b", nil]`, `[1, 2, "", 3]`, `[` + True() + `, ` + True() + `, ` + False() + `]`, `["x", "x", "y"]`, `[nil, nil, 0]`, `[[1], [2], nil]`} {
		for _, cond := range []string{`c("L", items[k]) != nil`, `nil != c("R", items[k])`, `c("L", items[k]) == c("R", items[0])`, `c("L", items[k]) != ""`, `c("L", items[k]) == ` + True(), `(cur = c("L", items[k])) != nil`, `c("L", items[k]) != c("R", items[k + 1])`, `!(c("L", items[k]) == nil)`, `c("L", items[k]) != nil && c("R", k) < 2`} {
			for _, form := range []string{
				Var("k", "0") + "\n" + While("%C", "{ "+Print(`"body"`)+" k = k + 1; "+If("k > 1", Break())+" }"),
				For(Var("k", "0"), "%C", "k = k + 1", "{ "+Print(`"body"`)+" "+If("k > 0", Break())+" }"),
				Var("k", "0") + "\n" + IfElse("%C", Print(`"then"`), Print(`"else"`)),
			} {
				src := pre + Var("items", items) + "\n" + Var("cur", "0") + "\n" + strings.ReplaceAll(form, "%C", cond) + "\n" + Print(`"after"`) + "\n" + Print("k") + "\n"
				if c.Mine() {
					c05Judge(c, &Case{Gen: "comparison-conditions", Src: src})
				}
			}
		}
	}
	// 3. stray signals reaching the top level
	for _, kw := range []string{Break(), Continue(), Ret(""), Ret("5")} {
		for _, shape := range []string{
			"%s",
			"{ %s }",
			"{ { %s } }",
			If(True(), "%s"),
			IfElse(False(), Print("1"), "%s"),
			For(Var("i", "0"), "i < 2", "i = i + 1", "{ "+Print("i")+" }") + "\n%s",
			While(False(), "{ }") + "\n%s",
			If(True(), "{ "+Print(`"in"`)+" %s "+Print(`"not reached"`)+" }"),
		} {
			for _, lead := range []int{0, 1, 4} {
				src := strings.Repeat(Print(`"lead"`)+"\n", lead) + fmt.Sprintf(shape, kw) + "\n" + Print(`"must not print"`) + "\n"
				if c.Mine() {
					c05Judge(c, &Case{Gen: "stray-signals", Src: src})
				}
				if c.Mine() {
					c05Judge(c, &Case{Gen: "stray-signals-cli", Mode: "cli", Src: src})
				}
			}
		}
	}
	// 4. hand-written: break leaves only the innermost loop, continue goes to increment, etc.
	for _, src := range []string{
		// a for header declaring two variables, as the unbraced body of another loop (re-entered from one scope)
		Lines(Var("r", "0"), While("r < 3", For(K["var"]+" i = r, n = r + 2;", "i < n", "i = i + 1", "{ "+Print("r * 10 + i")+" r = r + 1; }")), Print("r")),
		Lines(For(Var("o", "0"), "o < 2", "o = o + 1", For(K["var"]+" i = 0, n = 2;", "i < n", "i = i + 1", Print("o * 10 + i")))),
		Lines(Var("i", "7"), Var("n", "8"), For(K["var"]+" i = 0, n = 2;", "i < n", "i = i + 1", "{ "+If("i == 0", Continue())+" "+Print("i")+" }"), Print("i + n")),
		Lines(For(Var("i", "0"), "i < 3", "i = i + 1", "{ "+For(Var("j", "0"), "j < 3", "j = j + 1", "{ "+If("j == 1", Break())+" "+Print("i * 10 + j")+" }")+" "+Print(`"outer"`)+" }")),
		Lines(For(Var("i", "0"), "i < 4", "i = i + 1", "{ "+If("i % 2 == 0", Continue())+" "+Print("i")+" }")),
		Lines(Var("i", "0"), While("i < 5", "{ i = i + 1; "+If("i == 2", Continue())+" "+If("i == 4", Break())+" "+Print("i")+" }"), Print("i")),
		Lines(Var("n", "0"), For(";", "", "", "{ n = n + 1; "+If("n > 3", Break())+" }"), Print("n")),
		Lines(Var("n", "0"), While("n < 3", "n = n + 1;"), Print("n"), For(Var("k", "0"), "k < 2", "k = k + 1", Print("k"))),
		Lines(Var("i", "0"), While("i < 2", "{ i = i + 1; "+Var("j", "0")+" "+While("j < 2", "{ j = j + 1; "+If("j == 1", Continue())+" "+Print("i * 10 + j")+" }")+" }")),
	} {
		if c.Mine() {
			c05Judge(c, &Case{Gen: "handwritten", Src: src})
		}
		if c.Mine() {
			c05Judge(c, &Case{Gen: "handwritten-cli", Mode: "cli", Src: src})
		}
	}
	// 4b. loops whose body is empty: the condition (and increment) still run every round
	for _, src := range []string{
		pre + Lines(Var("i", "0"), While(`c("cond", (i = i + 1) < 4)`, "{}"), Print("i")),
		pre + Lines(Var("n", "0"), Fun("step", "", " n = n + 1; "+Print("n")+" "+Ret("n < 3")+" "), While("step()", "{}"), Print("n"), While("step()", "{ }"), Print("n")),
		pre + Lines(For(Var("i", `c("init", 0)`), `c("cond", i < 3)`, `i = c("inc", i + 1)`, "{}"), Var("k", "0"), For(";", `c("cond", (k = k + 1) < 3)`, "", "{}"), Print("k")),
		pre + Lines(Var("i", "0"), For(Var("o", "0"), "o < 2", "o = o + 1", "{ i = 0; "+While(`c("cond", (i = i + 1) < 3)`, "{}")+" }"), Print("i")),
		pre + Lines(Var("i", "0"), While(`c("cond", (i = i + 1) < 4)`, "{ { } }"), Print("i"), If(`c("ifcond", `+True()+`)`, "{}"), IfElse(`c("ifcond", `+False()+`)`, "{}", "{}"), Print(`"done"`)),
	} {
		if c.Mine() {
			c05Judge(c, &Case{Gen: "empty-bodies", Src: src})
		}
		if c.Mine() {
			c05Judge(c, &Case{Gen: "empty-bodies-cli", Mode: "cli", Src: src})
		}
	}
	// 3b. the same after the run has already been through loops and calls that ended in every way
	// (return out of a loop, out of nested loops, break, continue, a loop ended by a fault-free callee)
	histories := []string{
		Lines(Fun("f", "", " "+While(True(), "{ "+Ret("1")+" }")+" "), Print("f()")),
		Lines(Fun("f", "", " "+For(Var("i", "0"), "i < 5", "i = i + 1", "{ "+For(Var("j", "0"), "j < 5", "j = j + 1", "{ "+If("j == 2", Ret("i + j"))+" }")+" }")+" "), Print("f()"), Print("f()")),
		Lines(Var("i", "0"), While(True(), "{ i = i + 1; "+If("i > 2", Break())+" }"), For(Var("j", "0"), "j < 3", "j = j + 1", "{ "+Continue()+" }"), Print("i")),
		Lines(Fun("g", "n", " "+If("n == 0", Ret("0"))+" "+While("n > 0", "{ "+Ret("g(n - 1)")+" }")+" "), Print("g(3)")),
		Lines(Fun("h", "", " "+For(";", "", "", "{ "+If(True(), "{ { "+Ret("")+" } }")+" }")+" "), "h();", "h();", For(Var("q", "0"), "q < 2", "q = q + 1", "{ h(); }")),
	}
	for hi, hist := range histories {
		for _, kw := range []string{Break(), Continue(), Ret(""), Ret("5")} {
			for _, shape := range []string{"%s", "{ %s }", If(True(), "%s"), IfElse(False(), Print("1"), "{ "+Print(`"in"`)+" %s "+Print(`"not reached"`)+" }")} {
				src := hist + fmt.Sprintf(shape, kw) + "\n" + Print(`"must not print"`) + "\n"
				if c.Mine() {
					c05Judge(c, &Case{Gen: "stray-signals-after-history", Src: src, X: map[string]string{"history": fmt.Sprint(hi)}})
				}
				if c.Mine() && hi%2 == 0 {
					c05Judge(c, &Case{Gen: "stray-signals-after-history-cli", Mode: "cli", Src: src})
				}
			}
		}
	}
	// 3c. a for statement entered again while an earlier execution of it is still running (the loop body,
	// condition or increment calls the function the loop stands in): every execution has its own counter
	for _, src := range []string{
		pre + Lines(Fun("walk", "d", " "+For(Var("i", "0"), "i < 2", "i = i + 1", "{ "+Print(`"d" + d + " i" + i`)+" "+If("d < 2", "{ walk(d + 1); }")+" "+Print(`"back d" + d + " i" + i`)+" }")+" "), "walk(0);"),
		pre + Lines(Fun("dfs", "t", " "+Var("s", "0")+" "+For(Var("k", "0"), "k < "+BI("len", "t"), "k = k + 1", "{ "+If("t[k] == nil", Continue())+" "+If("t[k] == -1", Break())+" "+IfElse(BI("len", "[t[k]]")+" == 1 && t[k] == t[k] + 0", "{ s = s + t[k]; }", "{ s = s + 0; }")+" }")+" "+Ret("s")+" "), Print("dfs([1, 2, nil, 3, -1, 100])"), Print("dfs([5, 5])")),
		pre + Lines(Fun("sumTree", "t", " "+Var("s", "t[0]")+" "+For(Var("k", "1"), "k < "+BI("len", "t"), "k = k + 1", "{ s = s + sumTree(t[k]); }")+" "+Ret("s")+" "), Print("sumTree([1, [2, [4], [5]], [3, [6, [7]]]])"), Print("sumTree([10, [20], [30], [40]])")),
		pre + Lines(Var("log", `""`), Fun("r", "n", " "+For(Var("i", "0"), `c("cond n" + n, i < 2)`, "i = i + r2(n, i)", "{ log = log + n + i + \" \"; }")+" "+Ret("1")+" "), Fun("r2", "n, i", " "+If("n > 0 && i == 0", "{ r(n - 1); }")+" "+Ret("1")+" "), "r(2);", Print("log")),
		pre + Lines(Fun("comb", "pre, n", " "+If("n == 0", "{ "+Print("pre")+" "+Ret("")+" }")+" "+For(K["var"]+" i = 0, lim = 2;", "i < lim", "i = i + 1", "{ comb(pre + i, n - 1); }")+" "), `comb("", 3);`),
	} {
		if c.Mine() {
			c05Judge(c, &Case{Gen: "reentrant-loops", Src: src})
		}
		if c.Mine() {
			c05Judge(c, &Case{Gen: "reentrant-loops-cli", Mode: "cli", Src: src})
		}
	}
	// 3c'. ordinary compound conditions, bounds and updates: non-boolean operands of the logical operators
	// (count-down guards, defaults, nil guards) and % next to + - * / without parentheses (digit loops, pair-wise bounds)
	{
		conds := []string{"left " + K["and"] + " tries < 10", "left && tries < 10", "tries < 10 " + K["and"] + " left", "name " + K["or"] + " " + False(), "name || " + False(), "node " + K["and"] + " node.val > 3", "node && node.val > 3",
			"nothing " + K["and"] + " nothing.val > 3", `"" ` + K["or"] + ` left`, "0 || nil || left", "left " + K["and"] + " name " + K["and"] + " node", "10 - tries % 3 == 9", "tries + left % 2 * 2 == 2", "left - left % 2 > 1", "1 + tries % 2 * 2 < 3", "tries % 2 + 1"}
		for _, cnd := range conds {
			src := pre + Lines(Var("left", "3"), Var("tries", "0"), Var("name", `""`), Var("node", "{val: 5}"), Var("nothing", "nil"),
				IfElse(cnd, Print(`"then"`), Print(`"else"`)),
				While(cnd, "{ left = left - 1; tries = tries + 1; "+If("tries > 12", Break())+" }"), Print(`"w " + left + " " + tries`),
				"left = 3; tries = 0;", For(Var("i", "0"), cnd, "i = i + 1", "{ left = left - 1; tries = tries + 1; "+If("i > 12", Break())+" "+If("i % 2", Continue())+" "+Print("i")+" }"), Print(`"f " + left + " " + tries`))
			if c.Mine() {
				c05Judge(c, &Case{Gen: "compound-conditions", Src: src})
			}
		}
		for _, src := range []string{
			pre + Lines(Var("n", "9075"), Var("digits", "0"), Var("sum", "0"), While("n > 0", "{ sum = sum + n % 10; n = (n - n % 10) / 10; digits = digits + 1; }"), Print(`digits + " " + sum`)),
			pre + Lines(Var("m", "7"), Var("pairs", "0"), For(Var("i", "0"), "i < m - m % 2", "i = i + 2", "{ "+If("i % 4 == 2", Continue())+" pairs = pairs + 1; }"), Print("pairs"), For(Var("h", "22"), "h != 2", "h = h + 5 % 24", "{ "+Print("h")+" "+If("h > 60", Break())+" }")),
			// bounds that are not numbers one can order (the square root of a negative number): <= and >= are false, the loop runs no round
			pre + Lines(Fun("trial", "n", " "+Var("cnt", "0")+" "+For(Var("d", "2"), "d <= "+BI("sqrt", "n"), "d = d + 1", "{ cnt = cnt + 1; "+If("cnt > 20", "{ "+Break()+" }")+" }")+" "+Ret("cnt")+" "), Print("trial(30)"), Print("trial(0 - 7)"), Var("root", BI("sqrt", "0 - 4")), IfElse("root >= 0", Print(`"real"`), Print(`"none"`)), IfElse("root <= 0", Print(`"le"`), Print(`"not le"`)), IfElse("root < 0 || root > 0 || root == 0", Print(`"ordered"`), Print(`"unordered"`)),
				Var("i", "0"), While("i <= root", "{ i = i + 1; "+If("i > 5", "{ "+Break()+" }")+" }"), Print("i"), While("!(i >= root)", "{ i = i + 1; "+If("i > 3", "{ "+Break()+" }")+" }"), Print("i")),
			// a table written as a literal in a loop body / function body is a new table in every round / call
			pre + Lines(For(Var("pass", "0"), "pass < 2", "pass = pass + 1", "{ "+Var("seen", "["+False()+", "+False()+", "+False()+"]")+" "+For(Var("k", "0"), "k < 3", "k = k + 1", "{ "+If("seen[k]", "{ "+Print(`"skip " + k`)+" "+Continue()+" }")+" seen[k] = "+True()+"; "+Print(`"visit " + pass + ":" + k`)+" }")+" }"),
				Fun("countdown", "", " "+Var("left", "[3]")+" "+Var("rounds", "0")+" "+While("left[0] > 0", "{ left[0] = left[0] - 1; rounds = rounds + 1; }")+" "+Ret("rounds")+" "), Print("countdown()"), Print("countdown()"), Fun("cell", "", " "+Var("st", "{n: 0, on: "+False()+"}")+" "+IfElse("st.on", Print(`"was on"`), "{ st.on = "+True()+"; st.n = st.n + 1; }")+" "+Ret("st.n")+" "), Print("cell()"), Print("cell()")),
			// conditions that are calls ending in a value-less return ("no more rounds", "nothing found") after calls that returned values
			pre + Lines(Var("xs", "[4, 7, 9]"), Fun("more", "i", " "+If("i < "+BI("len", "xs"), "{ "+Ret("xs[i]")+" }")+" "+Ret("")+" "), Var("i", "0"), While("more(i)", "{ "+Print("more(i)")+" i = i + 1; "+If("i > 6", Break())+" }"), Print(`"rounds " + i`),
				Fun("find", "w", " "+For(Var("j", "0"), "j < 3", "j = j + 1", "{ "+If("xs[j] == w", "{ "+Ret("j + 1")+" }")+" }")+" "+Ret("")+" "), For(Var("w", "6"), "w < 10", "w = w + 1", "{ "+If("find(w) == nil", "{ "+Continue()+" }")+" "+Print(`"found " + w`)+" }"), IfElse("find(5)", Print(`"then"`), Print(`"else"`))),
			pre + Lines(Var("k", "0"), While("k < 6", "{ k = k + 1; "+IfElse("k * 2 % 3 == 0", "{ "+Continue()+" }", IfElse("k - 1 % 2 == k - 1", Print(`"odd-form " + k`), Print(`"other " + k`)))+" }")),
		} {
			if c.Mine() {
				c05Judge(c, &Case{Gen: "compound-conditions", Src: src})
			}
			if c.Mine() {
				c05Judge(c, &Case{Gen: "compound-conditions-cli", Mode: "cli", Src: src})
			}
		}
	}
	// 3c''. menu loops: the typed answer compared with text literals (words with letters that Unicode normalisation would
	// rewrite, typed precomposed and decomposed) decides which arm runs and where the loop is left
	for _, word := range []string{"\u09ac\u09bf\u09a6\u09be\u09df", "\u09ac\u09bf\u09a6\u09be\u09af\u09bc", "\u09ac\u09dc", "quit", "\u0995\u09c7\u09be", "\u00e9"} {
		src := pre + Lines(Var("n", "0"), While(True(), "{ "+Var("ans", BI("input"))+" n = n + 1; "+If(`ans == "`+word+`"`, "{ "+Print(`"bye"`)+" "+Break()+" }")+" "+If(`ans == "skip"`, "{ "+Continue()+" }")+" "+IfElse(`ans != "`+word+`x"`, Print(`"again " + ans`), Print(`"odd"`))+" "+If("n > 5", "{ "+Break()+" }")+" }"), Print("n"))
		for _, typed := range []string{word, "skip\n" + word, "no\nskip\n" + word + "x\n" + word} {
			if c.Mine() {
				c05Judge(c, &Case{Gen: "compound-conditions", Src: src, Stdin: typed + "\nextra\nextra\nextra\nextra\nextra\nextra\n"})
			}
		}
	}
	// 3d. interactive mode: after a line that ended in a stray signal (or any runtime error), later lines with
	// loops and branches run as in a fresh session
	for _, bad := range []string{Break(), Continue(), Ret("1"), Print("1 / 0"), If(True(), "{ "+Break()+" }")} {
		lines := []string{bad, For(Var("i", "0"), "i < 2", "i = i + 1", "{ "+Print("i")+" }"), Var("n", "0") + " " + While("n < 2", "{ n = n + 1; "+Print("n")+" }"), IfElse("1 < 2", Print(`"then"`), Print(`"else"`)), bad, IfElse("2 < 1", Print(`"then"`), "{ "+Print(`"else"`)+" }"), Print("3")}
		if c.Mine() {
			c05Judge(c, &Case{Gen: "repl-after-stray", Src: strings.Join(lines, "\n"), X: map[string]string{"final_newline": "1", "all_self": "1"}})
		}
		// the last line of a piped session without a line terminator runs like any other (loops, arms, stray signals)
		for _, last := range []string{For(Var("i", "0"), "i < 2", "i = i + 1", "{ "+Print("i")+" }"), IfElse("1 < 2", Print(`"then"`), Print(`"else"`)), bad, Var("n", "0") + " " + While("n < 2", "{ n = n + 1; "+Print("n")+" }")} {
			if c.Mine() {
				c05Judge(c, &Case{Gen: "repl-after-stray", Src: strings.Join([]string{bad, last}, "\n"), X: map[string]string{"final_newline": "0", "all_self": "1"}})
			}
			if c.Mine() {
				c05Judge(c, &Case{Gen: "repl-after-stray", Src: last, X: map[string]string{"final_newline": "0", "all_self": "1"}})
			}
		}
	}
	// 4c. long-running loops: more than a million rounds in one run, in one loop, in consecutive loops, nested
	for _, src := range []string{
		Lines(Var("i", "0"), While("i < 1200000", "{ i = i + 1; }"), Print("i")),
		Lines(Var("t", "0"), For(Var("a", "0"), "a < 400000", "a = a + 1", "{ t = t + 1; }"), For(Var("a", "0"), "a < 400000", "a = a + 1", "{ t = t + 1; }"), For(Var("a", "0"), "a < 400000", "a = a + 1", "{ t = t + 1; }"), Print("t")),
		Lines(Var("t", "0"), For(Var("a", "0"), "a < 1100", "a = a + 1", "{ "+For(Var("b", "0"), "b < 1000", "b = b + 1", "{ "+If("b == 999", Continue())+" t = t + 1; }")+" }"), Print("t")),
	} {
		if c.Mine() {
			c05Judge(c, &Case{Gen: "long-running-loops", Src: src, X: map[string]string{"model_steps": "60000000"}})
		}
	}
	// 5. random larger programs
	r := c.Rand("random")
	n := c.N(10000, 600000)
	for k := 0; k < n; k++ {
		g := NewPG(r, 10+r.Intn(40))
		src := g.Program(4)
		if !c.Mine() {
			continue
		}
		cs := &Case{Gen: "random-programs", Src: src}
		if k%10 == 0 {
			cs.Gen, cs.Mode = "random-programs-cli", "cli"
		}
		c05Judge(c, cs)
	}
}

func init() {
	register(&CheckDef{
		ID:   "C05",
		Rule: "programs: every loop skeleton = outer loop of 6 kinds (while, for, for without condition / increment / initializer, for declaring two header variables) whose body is every sequence of <=2 (quick) / <=3 (thorough) items from 13 control items (trace, break, continue, guarded break/continue, if/else arms, nested block) with at most one nested inner loop (4 kinds x all bodies of <=2 of 11 items); initializer, every condition test and every increment is a tracing probe call, so the whole order init->cond->body->incr is printed; arm selection in 6 condition contexts for 21 values of every kind; else-if chains of 1-6 traced conditions x every selected arm x 4 styles (braced / unbraced, with / without final else, break / continue in arms) at top level and in a loop; stray break/continue/return in 8 top-level shapes x 3 leading-line counts, and in 4 shapes after 5 histories of loops and calls ended by return / break / continue (in-process and through the binary); hand-written nests; seeded random programs. Compared with refborno on the complete trace, first diagnostic and exit status. Non-trivial = distinct program that executes at least one loop iteration or one if arm.",
		Assumptions: []string{"every generated loop is bounded by construction; programs the model cannot finish in 200000 steps are skipped"},
		Run:         c05Run,
		Judge:       c05Judge,
		MustCount:   func(c *Ctx) []string { return []string{"gen:loop-skeletons", "gen:empty-bodies", "gen:long-running-loops", "gen:arm-selection", "gen:stray-signals", "gen:stray-signals-after-history", "gen:else-if-chains", "gen:comparison-conditions", "gen:comment-shapes", "gen:loop-as-arm", "gen:reentrant-loops", "gen:compound-conditions", "gen:repl-after-stray", "breaks_taken", "continues_taken", "then_arms", "else_arms", "fault:StrayBreak", "fault:StrayContinue", "fault:StrayReturn", "cli_runs"} },
	})
}
