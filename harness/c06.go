package main

import (
	"fmt"
	"os"
	"path/filepath"
	"strings"
)

// C06 — a runtime error stops the program: true cause, right line, nothing after.

type c06Fault struct {
	name string
	expr string // expression that faults when evaluated ("" for statement faults)
	stmt string // statement that faults (used only in statement positions)
}

func c06Faults() []c06Fault {
	f := []c06Fault{
		{"undefined-read", "নেইনাম", ""},
		{"tm-nil-plus", "(nil + 1)", ""}, {"tm-bool-minus", "(" + True() + " - 1)", ""}, {"tm-str-star", `("a" * 2)`, ""},
		{"tm-arr-slash", "([1] / 2)", ""}, {"tm-obj-mod", "(({k: 1}) % 2)", ""}, {"tm-nil-pow", "(nil ** 2)", ""},
		{"tm-nil-less", "(nil < 1)", ""}, {"tm-str-ge", `("a" >= 1)`, ""}, {"tm-frac-and", "(1.5 & 1)", ""}, {"tm-nil-or", "(nil | 1)", ""},
		{"tm-frac-shift", "(1 << 0.5)", ""}, {"tm-neg-nil", "(-nil)", ""}, {"tm-not-frac", "(~1.5)", ""}, {"tm-not-str", `(~"a")`, ""},
		{"tm-str-plus-bool", `("a" + ` + True() + ")", ""}, {"tm-fn-plus", "(id + 1)", ""},
		{"zero-div", "(1 / 0)", ""}, {"zero-mod", "(1 % 0)", ""}, {"zero-div-negzero", "(1 / (-0))", ""},
		{"neg-shift", "(1 << -1)", ""}, {"neg-shift-right", "(8 >> -2)", ""},
		{"idx-high", "arr[3]", ""}, {"idx-neg", "arr[-1]", ""}, {"idx-frac", "arr[1.5]", ""}, {"idx-str", `arr["x"]`, ""}, {"idx-nil", "arr[nil]", ""},
		{"idx-nonarray-num", "(5)[0]", ""}, {"idx-nonarray-nil", "nil[0]", ""}, {"idx-nonarray-obj", "obj[0]", ""},
		{"prop-missing", "obj.zz", ""}, {"prop-on-num", "(5).k", ""}, {"prop-on-nil", "nil.k", ""}, {"prop-on-str", `"s".k`, ""}, {"prop-on-arr", "arr.k", ""},
		{"call-num", "5()", ""}, {"call-str", `"s"()`, ""}, {"call-nil", "nil()", ""}, {"call-obj", "obj()", ""}, {"call-arr", "arr(1)", ""},
		{"arity-few", "fn2(1)", ""}, {"arity-many", "fn2(1, 2, 3)", ""}, {"arity-zero-given-one", "fn0(1)", ""}, {"arity-builtin", BI("len", "arr", "arr"), ""},
		{"bi-len-num", BI("len", "5"), ""}, {"bi-len-none", BI("len"), ""}, {"bi-append-num", BI("append", "5", "1"), ""}, {"bi-append-one", BI("append", "arr"), ""},
		{"bi-remove-high", BI("remove", "arr", "9"), ""}, {"bi-remove-str", BI("remove", "arr", `"x"`), ""}, {"bi-remove-frac", BI("remove", "arr", "0.5"), ""},
		{"bi-delete-missing", BI("delete", "obj", `"zz"`), ""}, {"bi-delete-nonobj", BI("delete", "5", `"k"`), ""}, {"bi-delete-nonstr", BI("delete", "obj", "5"), ""},
		{"bi-keys-num", BI("keys", "5"), ""}, {"bi-values-nil", BI("values", "nil"), ""},
		{"bi-abs-nil", BI("abs", "nil"), ""}, {"bi-sqrt-str", BI("sqrt", `"x"`), ""}, {"bi-pow-one", BI("pow", "1"), ""}, {"bi-pow-nil", BI("pow", "nil", "2"), ""},
		{"bi-sin-arr", BI("sin", "[]"), ""}, {"bi-cos-bool", BI("cos", True()), ""}, {"bi-tan-obj", BI("tan", "obj"), ""},
		{"bi-min-none", BI("min"), ""}, {"bi-max-empty", BI("max", "[]"), ""}, {"bi-min-str", BI("min", "1", `"x"`), ""}, {"bi-round-nil", BI("round", "nil"), ""},
		{"bi-input-two", BI("input", `"a"`, `"b"`), ""}, {"bi-input-num", BI("input", "5"), ""}, {"bi-clock-arg", BI("clock", "1"), ""},
		// boundaries: index equal to the length, the empty array
		{"idx-at-length", "arr[3]", ""}, {"idx-at-length-computed", "arr[" + BI("len", "arr") + "]", ""}, {"idx-empty-array", "[][0]", ""}, {"bi-remove-at-length", BI("remove", "arr", "3"), ""}, {"bi-remove-empty", BI("remove", "[]", "0"), ""},
		{"bi-remove-at-length-computed", BI("remove", "arr", BI("len", "arr")), ""},
		// faults whose diagnostic quotes program text or values containing a per-cent sign
		{"prop-missing-mod-index", "objs[7 % 3].zz", ""}, {"prop-missing-mod-literal", "({k: 5 % 3}).zz", ""}, {"prop-missing-pct-text", `({k: "100%d %s"}).zz`, ""},
		{"bi-delete-missing-pct", BI("delete", "obj", `"k%d%s%v"`), ""}, {"tm-neg-pct-str", `(-"50%")`, ""}, {"tm-not-pct-str", `(~"5%d")`, ""}, {"tm-pct-str-star", `("%s%n" * 2)`, ""},
		{"bi-sqrt-pct-str", BI("sqrt", `"9%"`), ""}, {"bi-len-pct-str-mod", BI("len", "7 % 4"), ""}, {"idx-pct-str", `arr["%d"]`, ""},
		// statement faults
		{"redeclare", "", Var("dup", "2")}, {"redeclare-in-list", "", K["var"] + " fresh1 = 1, dup = 2;"}, {"redeclare-list-twice", "", K["var"] + " m1 = 1, m2 = 2; " + K["var"] + " m3 = 3, m1 = 4;"}, {"undefined-assign", "", "নেই = 1;"},
		{"redeclare-multiline-array", "", Var("dup", "[\n 1,\n 2\n]")}, {"redeclare-multiline-object", "", Var("dup", "{\n k: 1,\n j: [\n 2\n ]\n}")}, {"redeclare-in-list-multiline", "", K["var"] + " fresh2 = [\n 1\n], dup = {\n k: 2\n};"},
		{"idxw-high", "", "arr[5] = 1;"}, {"idxw-at-length", "", "arr[3] = 1;"}, {"idxw-at-length-computed", "", "arr[" + BI("len", "arr") + "] = 4;"}, {"idxw-empty-array", "", Var("emp", "[]") + " emp[0] = 1;"}, {"idxw-str", "", `arr["x"] = 1;`}, {"idxw-neg", "", "arr[-1] = 1;"}, {"idxw-nonarray", "", "(5)[0] = 1;"},
		{"propw-num", "", "(5).k = 1;"}, {"propw-nil", "", "nil.k = 1;"}, {"propw-nested-missing", "", "obj.zz.k = 1;"},
	}
	return f
}

func c06Prelude() []string {
	return []string{
		Var("arr", "[10, 20, 30]"),
		Var("obj", "{k: 1, j: 2}"),
		Var("objs", "[{k: 1}, {k: 2}, {k: 3}]"),
		Var("dup", "1"),
		Var("x", "0"),
		Fun("fn0", "", " "+Ret("0")+" "),
		Fun("fn2", "a, b", " "+Ret("a + b")+" "),
		Fun("id", "v", " "+Ret("v")+" "),
		Fun("id2", "v, w", " "+Ret("w")+" "),
	}
}

type c06Pos struct {
	name string
	tmpl string // %F = fault expression (expression positions) or %S = fault statement (statement positions)
}

func c06Positions() []c06Pos {
	after := Print(`"AFTER-inner"`)
	inp := BI("input", `"PROMPT-inner"`) + ";"
	tail := " " + after + " " + inp + " "
	p := []c06Pos{
		{"toplevel-print", Print("%F")},
		{"toplevel-exprstmt", "%F;"},
		{"nested-block", "{ { " + Print("%F") + tail + "} " + after + " }"},
		{"if-cond", IfElse("%F", "{ "+Print(`"AFTER-then"`)+" }", "{ "+Print(`"AFTER-else"`)+" "+inp+" }")},
		{"if-then", IfElse(True(), "{ "+Print("%F")+tail+"}", "{ "+Print(`"AFTER-else"`)+" }")},
		{"if-else", IfElse(False(), "{ "+Print(`"then"`)+" }", "{ "+Print("%F")+tail+"}")},
		{"while-cond", While("%F", "{ "+Print(`"AFTER-body"`)+" "+Break()+" }")},
		{"while-true-body", While(True(), "{ "+Print("%F")+tail+Break()+" }")},
		{"while-counted-body", Var("w", "0") + " " + While("w < 3", "{ w = w + 1; "+Print("%F")+tail+"}")},
		{"for-init", For(Var("fi", "%F"), "fi < 1", "fi = fi + 1", "{ "+Print(`"AFTER-body"`)+" }")},
		{"for-cond", For(Var("fi", "0"), "%F", "fi = fi + 1", "{ "+Print(`"AFTER-body"`)+" "+Break()+" }")},
		{"for-incr", For(Var("fi", "0"), "fi < 3", "fi = %F", "{ "+Print(`"body-once"`)+" }")},
		{"for-body", For(Var("fi", "0"), "fi < 3", "fi = fi + 1", "{ "+Print("%F")+tail+"}")},
		{"for-ever-body", For(";", "", "", "{ "+Print("%F")+tail+Break()+" }")},
		{"function-body", Fun("g", "", " "+Print(`"in-g"`)+" "+Print("%F")+tail+Ret("1")+" ") + " " + Print("g()")},
		{"nested-function-body", Fun("g", "", " "+Fun("h", "", " "+Print("%F")+tail+Ret("1")+" ")+" "+Var("r", "h()")+" "+after+" "+Ret("r")+" ") + " " + Print("g()")},
		{"function-called-from-loop", Fun("g", "n", " "+If("n == 1", "{ "+Print("%F")+tail+"}")+" "+Ret("n")+" ") + " " + For(Var("fi", "0"), "fi < 3", "fi = fi + 1", "{ "+Print("g(fi)")+" }")},
		{"call-arg-first", Print("id2(%F, " + BI("input", `"PROMPT-arg"`) + ")")},
		{"call-arg-last", Print("id2(1, %F)")},
		{"callee-position", Print("id(%F)(1)")},
		{"array-literal-element", Print("[1, %F, " + BI("input", `"PROMPT-el"`) + "]")},
		{"object-literal-value", Var("ov", "{a: 1, b: %F, c: "+BI("input", `"PROMPT-prop"`)+"}")},
		{"index-expression", Print("arr[%F]")},
		{"var-initializer", Var("vi", "%F")},
		{"return-operand", Fun("g", "", " "+Ret("%F")+" ") + " " + Print("g()")},
		{"logical-or-left", Print("%F || " + BI("input", `"PROMPT-or"`))},
		{"logical-or-right", Print("0 || %F")},
		{"logical-and-left", Print("%F && " + BI("input", `"PROMPT-and"`))},
		{"logical-and-right", Print("1 && %F")},
		{"assign-var", "x = %F;"},
		{"assign-index", "arr[0] = %F;"},
		{"assign-prop", "obj.k = %F;"},
		{"binary-left", Print("%F + " + BI("input", `"PROMPT-bin"`))},
		{"binary-right", Print("1 + %F")},
		{"unary-operand", Print("!(%F)")},
		{"grouping", Print("((%F))")},
		{"print-concat", Print(`"v=" + %F`)},
		{"builtin-argument", Print(BI("abs", "%F"))},
		{"user-call-argument-nested", Print("id(id(id(%F)))")},
		// statement positions
		{"stmt-toplevel", "%S"},
		{"stmt-block", "{ %S" + tail + "}"},
		{"stmt-if-then", If(True(), "{ %S"+tail+"}")},
		{"stmt-while-true", While(True(), "{ %S"+tail+Break()+" }")},
		{"stmt-for-body", For(Var("fi", "0"), "fi < 2", "fi = fi + 1", "{ %S"+tail+"}")},
		{"stmt-function-body", Fun("g", "", " "+Var("dup", "1")+" %S"+tail+Ret("1")+" ") + " " + Print("g()")},
	}
	return p
}

func c06Program(f c06Fault, p c06Pos, layout int) (string, bool) {
	isStmtPos := strings.Contains(p.tmpl, "%S")
	if isStmtPos != (f.stmt != "") {
		return "", false
	}
	body := strings.ReplaceAll(strings.ReplaceAll(p.tmpl, "%F", f.expr), "%S", f.stmt)
	var lines []string
	if layout == 1 {
		for i := 0; i < 7; i++ {
			lines = append(lines, Print(fmt.Sprintf(`"lead-%d"`, i)))
		}
		// line tracking must survive multi-line strings and comments before the fault
		lines = append(lines, Print("\"lead-a\nlead-b\nlead-c\""), "/* lead comment\n spanning\n lines */", "// line comment", Print("\"\nlead-d\""))
	}
	lines = append(lines, c06Prelude()...)
	lines = append(lines, Print(`"before-1"`), Print(`"before-2"`))
	lines = append(lines, body)
	if layout != 2 {
		lines = append(lines, Print(`"AFTER-1"`), BI("input", `"PROMPT-after"`)+";", Print(`"AFTER-2"`))
	}
	return strings.Join(lines, "\n") + "\n", true
}

func c06Judge(c *Ctx, cs *Case) {
	c.Begin(cs)
	if cs.Gen == "string-valued-faults" {
		x := RunLib(cs.Src, RunOpts{MaxSteps: 200000, Stdin: cs.Stdin, Events: "io"})
		y := RunLib(cs.Alt[0], RunOpts{MaxSteps: 200000, Stdin: cs.Stdin, Events: "io"})
		if CheckAbnormal(c, x) || CheckAbnormal(c, y) {
			return
		}
		dx, dy := ParseDiags(x.Stderr), ParseDiags(y.Stderr)
		if x.Exit == 70 && y.Exit == 0 {
			c.Count("string_fault_operator_rejects_string", 1)
			return
		}
		same := x.Stdout == y.Stdout && x.Exit == y.Exit && len(dx) == len(dy)
		if same && len(dx) > 0 {
			same = NormDiag(dx[0], true) == NormDiag(dy[0], true) && dx[0].Line == dy[0].Line
		}
		if !same {
			c.Violate(Violation{Why: "a fault that depends on a run-time string behaves differently from the same fault on the number the string coerces to (" + cs.X["fault"] + " at " + cs.X["pos"] + ")", Expected: "with the number: " + describeObs(y), Observed: "with the string: " + describeObs(x), Signature: "string-valued-fault"})
			return
		}
		if bad := afterFaultMonitor(x); bad != "" {
			c.Violate(Violation{Why: bad, Observed: describeObs(x), Signature: "event-after-fault"})
			return
		}
		c.Count("string_valued_faults_consistent", 1)
		c.Nontrivial(cs.Src)
		return
	}
	if cs.Mode == "cli" {
		m := RunModel(cs.Src, cs.Stdin, false, 0)
		if cliJudge(c, cs, m) != "" {
			return
		}
		// ordering on one pipe: nothing of the program after the diagnostic
		o := RunCLI(CLIOpts{Bin: c.Bin, Src: cs.Src, Stdin: cs.Stdin, Dir: c.Scratch, Merge: true})
		c.Count("cli_runs", 1)
		if i := strings.Index(o.Merged, "[line "); i >= 0 {
			rest := o.Merged[i:]
			if strings.Contains(rest, "AFTER") || strings.Contains(rest, "PROMPT") || strings.Contains(rest, "lead-") || strings.Contains(rest, "before-") {
				c.Violate(Violation{Why: "program output appears after the first diagnostic on the merged stdout+stderr pipe", Observed: trunc(o.Merged, 600), Signature: "cli-output-after-diagnostic"})
				return
			}
		}
		// P-cliv: the hook-enabled binary must behave identically (hook transparency)
		// and its streamed event log must satisfy the same nothing-after-the-error order
		if c.BinVerif != "" && hash64(cs.Src)%6 == 0 {
			logPath := filepath.Join(c.Scratch, fmt.Sprintf("vhook_%d_%d.log", os.Getpid(), c.Idx()))
			plain := RunCLI(CLIOpts{Bin: c.Bin, Src: cs.Src, Stdin: cs.Stdin, Dir: c.Scratch})
			hooked := RunCLI(CLIOpts{Bin: c.BinVerif, Src: cs.Src, Stdin: cs.Stdin, Dir: c.Scratch, Env: []string{"BORNO_VHOOK_LOG=" + logPath, "BORNO_VHOOK_MAXSTEPS=5000000"}})
			c.Count("cli_runs", 2)
			logb, _ := os.ReadFile(logPath)
			os.Remove(logPath)
			if plain.Stdout != hooked.Stdout || plain.Stderr != hooked.Stderr || plain.Exit != hooked.Exit {
				c.Inconclusive("hook-enabled binary differs from the plain binary (hooks not transparent): " + trunc(cs.Src, 120))
				return
			}
			seen := false
			for _, ln := range strings.Split(string(logb), "\n") {
				f := strings.Split(ln, "\t")
				if len(f) < 2 {
					continue
				}
				switch {
				case f[0] == "diag" && f[1] == "runtime":
					seen = true
				case seen && (f[0] == "stdout" || f[0] == "input" || (f[0] == "call" && strings.Contains(f[1], "Native"))):
					c.Violate(Violation{Why: "hook log of the CLI run shows a " + f[0] + " event after the first runtime diagnostic", Observed: trunc(string(logb), 600), Signature: "cliv-event-after-fault"})
					return
				}
			}
			c.Count("hook_transparency_checked", 1)
		}
		c.Nontrivial("cli|" + cs.Src)
		return
	}
	var v string
	var m *ModelOut
	if cs.Gen == "long-runs" {
		m = RunModel(cs.Src, cs.Stdin, false, 200000000)
		if m.Res == nil || m.Res.OOD != "" {
			c.Count("skipped_out_of_domain", 1)
			return
		}
		v = CompareModel(c, m, RunLib(cs.Src, RunOpts{MaxSteps: int64(3*m.Res.Steps + 10000), Stdin: cs.Stdin}), JudgeOpts{})
	} else {
		v, m, _ = stdJudge(c, cs, RunOpts{Events: "io"}, JudgeOpts{Events: true})
	}
	if v == "" && m.Res != nil {
		if m.Res.Fault != nil {
			c.Nontrivial(cs.Src)
			if cs.X != nil {
				c.Count("cell:"+cs.X["fault"]+"@"+cs.X["pos"], 1)
				c.Count("pos:"+cs.X["pos"], 1)
			}
		} else {
			c.Count("fault_free_programs", 1)
		}
	}
	if cs.X != nil && cs.X["layout"] == "0" && strings.HasSuffix(cs.X["fault"], "-high") {
		c.Sample(cs.Gen, cs.Src)
	}
}

func c06Run(c *Ctx) {
	faults := c06Faults()
	poss := c06Positions()
	stdin := "line-one\nline-two\nline-three\nline-four\n"
	for _, f := range faults {
		for _, p := range poss {
			for layout := 0; layout < 3; layout++ {
				src, ok := c06Program(f, p, layout)
				if !ok {
					continue
				}
				x := map[string]string{"fault": f.name, "pos": p.name, "layout": fmt.Sprint(layout)}
				if c.Mine() {
					c06Judge(c, &Case{Gen: "planted-faults", Src: src, Stdin: stdin, X: x})
				}
				if (layout == 0 || !c.Quick()) && c.Mine() {
					c06Judge(c, &Case{Gen: "planted-faults-cli", Mode: "cli", Src: src, Stdin: stdin, X: x})
				}
				// the same file beginning with blank lines (line numbers count from the first byte of the file)
				if layout == 0 && (hash64(f.name+p.name)%4 == 0 || !c.Quick()) && c.Mine() {
					c06Judge(c, &Case{Gen: "planted-faults-cli", Mode: "cli", Src: []string{"\n\n", "\r\n \r\n\t\r\n", "\n"}[hash64(p.name)%3] + src + "\n\n", Stdin: stdin, X: x})
				}
			}
		}
	}
	// stray signals (top level): line and category
	for _, kw := range []string{Break(), Continue(), Ret(""), Ret("1 + 1")} {
		for _, shape := range []string{"%s", "{ %s }", If(True(), "%s"), "{ " + If(True(), "{ %s }") + " }"} {
			src := Lines(Print(`"before-1"`), Print(`"before-2"`), fmt.Sprintf(shape, kw), Print(`"AFTER-1"`), BI("input", `"PROMPT-after"`)+";")
			if c.Mine() {
				c06Judge(c, &Case{Gen: "stray-signals", Src: src, Stdin: stdin})
			}
			if c.Mine() {
				c06Judge(c, &Case{Gen: "stray-signals-cli", Mode: "cli", Src: src, Stdin: stdin})
			}
		}
	}
	// fault-free controls: the same skeletons with a harmless expression must exit 0 silently
	for _, p := range poss {
		if strings.Contains(p.tmpl, "%S") {
			continue
		}
		src, _ := c06Program(c06Fault{"none", "(1 + 1)", ""}, p, 0)
		if c.Mine() {
			c06Judge(c, &Case{Gen: "fault-free-controls", Src: src, Stdin: stdin})
		}
		if c.Mine() {
			c06Judge(c, &Case{Gen: "fault-free-controls-cli", Mode: "cli", Src: src, Stdin: stdin})
		}
	}
	// long runs: 260 000 value-returning calls / built-in calls / loop rounds, then either nothing or one late fault
	for _, warm := range []string{
		Fun("isOdd", "n", " "+Ret("n % 2 == 1")+" ") + "\n" + Var("odd", "0") + "\n" + For(Var("i", "0"), "i < 260000", "i = i + 1", "{ "+If("isOdd(i)", "{ odd = odd + 1; }")+" }") + "\n" + Print("odd"),
		Var("acc", "0") + "\n" + For(Var("i", "0"), "i < 260000", "i = i + 1", "{ acc = acc + "+BI("abs", "-1")+"; }") + "\n" + Print("acc"),
		Fun("proc", "n", " "+Var("t", "n")+" ") + "\n" + For(Var("i", "0"), "i < 260000", "i = i + 1", "{ proc(i); }") + "\n" + Print(`"warm"`),
	} {
		for _, tail := range []string{Print(`"done"`), Fun("late", "", " "+Ret("1 / 0")+" ") + "\n" + Print(`"before-late"`) + "\n" + Print("late()") + "\n" + Print(`"AFTER-1"`), Fun("ok", "v", " "+Ret("v + 1")+" ") + "\n" + Print("ok(1)") + "\n" + Print("arr2[0]") + "\n" + Print(`"AFTER-1"`)} {
			if c.Mine() {
				c06Judge(c, &Case{Gen: "long-runs", Src: warm + "\n" + tail + "\n", Stdin: stdin, X: map[string]string{"model_steps": "1"}})
			}
		}
	}
	// fault-free guards: the right operand of এবং / && is not evaluated when the left one is nil, 0 or "" (and of বা / || when it is truthy)
	for _, src := range []string{
		Lines(Var("jon", "nil"), If("jon "+K["and"]+" jon.num >= 50", Print(`"pass"`)), Var("left", "0"), Var("row", "[1]"), If("left && row[left - 1] > 0", Print(`"has"`)), Var("nm", `""`), Print("nm && nm.len"), Print(`jon || "none"`), Print("left "+K["or"]+" 7"), Var("cfg", "{}"), Print(`1 || cfg.missing`), Print(`"x" `+K["or"]+` cfg.missing.deep`), Print(`"end"`)),
		Lines(Fun("safe", "o", " "+Ret("o && o.v")+" "), Print("safe(nil)"), Print("safe(0)"), Print(`safe("")`), Print("safe("+False()+")"), Print("safe({v: 3})"), Var("i", "0"), Var("xs", "[]"), While("i < "+BI("len", "xs")+" && xs[i] != 9", "{ i = i + 1; }"), Print("i")),
	} {
		if c.Mine() {
			c06Judge(c, &Case{Gen: "fault-free-controls", Src: src, Stdin: stdin})
		}
		if c.Mine() {
			c06Judge(c, &Case{Gen: "fault-free-controls-cli", Mode: "cli", Src: src, Stdin: stdin})
		}
	}
	// wider fault-free programs, alone and followed by one real fault on a known line: several elements appended
	// at once, assignments used as values whose target lives in an enclosing scope, value-less returns, nil reads
	{
		bodies := []string{
			Lines(Var("row", "[]"), "row = "+BI("append", "row", "1", "2")+";", "row = "+BI("append", "row", "3", "4", "5")+";", Print(BI("len", "row")), Print(BI("append", "[0]", "row", "[9]", "nil"))),
			Lines(K["var"]+" ev = 0, od = 0;", For(Var("rd", "1"), "rd <= 2", "rd = rd + 1", "{ ev = od = 0; "+For(Var("i", "1"), "i <= 4", "i = i + 1", "{ "+IfElse("i % 2 == 0", "{ ev = ev + i * rd; }", "{ od = od + i * rd; }")+" }")+" "+Print("ev - od")+" }")),
			Lines(Var("cnt", "0"), Fun("nxt", "", " "+Ret("cnt = cnt + 1")+" "), Print("nxt() * 10"), Print("nxt() * 10"), Fun("twice", "", " "+Var("loc", "0")+" { { loc = cnt = cnt + 5; } } "+Ret("loc + cnt")+" "), Print("twice()")),
			Lines(Var("o", "{a: nil}"), Print("o.a"), "o.b = o.a;", Print("o.b == nil"), Fun("nothing", "", " "+Ret("")+" "), "o.c = nothing();", Print("o.c"), Print("[nil][0]"), Var("un", "nil"), "un = nothing();", Print("un")),
			Lines(Var("p", "{\u09ac\u09df\u09b8: 30, \u09ac\u09cd\u09af\u09df: 5, nm: 1}"), Print("p.\u09ac\u09df\u09b8"), BI("delete", "p", "\"\u09ac\u09df\u09b8\"")+";", Print(BI("keys", "p")), "p.\u09a2\u09bc\u09be\u0995\u09be = 2;", BI("delete", "p", "\"\u09a2\u09bc\u09be\u0995\u09be\"")+";", Print("p")),
			Lines(Var("par", "{nm: \"p\", kids: []}"), Var("kid", "{nm: \"k\", up: par}"), "par.kids = [kid];", Print("[par]"), Print("{tree: par}"), Var("ra", "{v: 1}"), Var("rb", "{v: 2, nx: ra}"), "ra.nx = rb;", Print("[ra, rb]"), Print(BI("append", "[0]", "ra")), Print("[nil, [nil], {k: nil}]"), Var("o", "{self: nil, p: \"[\"}"), "o.self = o;", Print("o"), Print("[\"\", \"a[\", \"b\"]")),
			Lines(Var("m", "7"), Print("m % 0.5"), Print("1 % 0.1"), Print("m / 0.0000000001"), Print("(10 ** 309) % 5"), Print("5 ^ (0 - 1)"), Print("m ^ ~0"), Print("m % (10 ** 309)")),
		}
		for _, b := range bodies {
			nl := strings.Count(b, "\n")
			for _, tail := range []string{"", Print(`"pre-fault"`) + "\n" + Print("ghost") + "\n" + Print(`"AFTER-1"`) + "\n"} {
				src := Print(`"start"`) + "\n" + b + tail
				x := map[string]string{}
				gen := "fault-free-controls"
				if tail != "" {
					gen = "late-faults"
					x = map[string]string{"line": fmt.Sprint(nl + 3)}
				}
				if c.Mine() {
					c06Judge(c, &Case{Gen: gen, Src: src, Stdin: stdin, X: x})
				}
				if c.Mine() {
					c06Judge(c, &Case{Gen: gen + "-cli", Mode: "cli", Src: src, Stdin: stdin, X: x})
				}
			}
		}
	}
	// programs that perform no operation at all are fault-free too
	for _, src := range []string{"", "\n", "// only a comment\n", "/* block\n comment */\n", "   \n\t\n", "// a\n// b", "/**/"} {
		if c.Mine() {
			c06Judge(c, &Case{Gen: "fault-free-controls", Src: src, Stdin: stdin})
		}
		if c.Mine() {
			c06Judge(c, &Case{Gen: "fault-free-controls-cli", Mode: "cli", Src: src, Stdin: stdin})
		}
	}
	// a fault that depends on a run-time string (zero divisor, negative shift count, bad index given
	// as text, e.g. read with ইনপুট): where the operation accepts the string at all, the program must
	// behave exactly as with the number the string coerces to — in particular it must stop
	for _, p := range poss {
		if strings.Contains(p.tmpl, "%S") {
			continue
		}
		for _, pair := range [][2]string{{"(7 / zs)", "(7 / (zs * 1))"}, {"(7 % zs)", "(7 % (zs * 1))"}, {"(1 << ns)", "(1 << (ns * 1))"}, {"arr[ns]", "arr[ns * 1]"}, {"(7 / " + BI("input") + ")", "(7 / (" + BI("input") + " * 1))"}} {
			a, _ := c06Program(c06Fault{"string-fault", pair[0], ""}, p, 0)
			b, _ := c06Program(c06Fault{"string-fault", pair[1], ""}, p, 0)
			pre := Var("zs", `"0"`) + "\n" + Var("ns", `"-1"`) + "\n"
			if c.Mine() {
				c06Judge(c, &Case{Gen: "string-valued-faults", Src: pre + a, Alt: []string{pre + b}, Stdin: "0\nline-two\nline-three\nline-four\n", X: map[string]string{"pos": p.name, "fault": pair[0]}})
			}
		}
	}
	// blocks, loop bodies and function bodies whose only declarations are multi-variable ones (no fault)
	for _, src := range []string{
		Lines(Var("n", "0"), While("n < 3", "{ n = n + 1; "+K["var"]+" a = n, b = 2; "+Print("a * b")+" }"), Print(`"end"`)),
		Lines(For(Var("i", "0"), "i < 3", "i = i + 1", "{ "+K["var"]+" a = i, b; "+Print("a")+" }"), "{ "+K["var"]+" a = 1, b = 2; }", "{ "+K["var"]+" a = 3, b = 4; "+Print("a + b")+" }"),
		Lines(Fun("f", "", " "+K["var"]+" a = 1, b = 2; "+Ret("a + b")+" "), Print("f()"), Print("f()")),
		Lines("{ "+K["var"]+" p = 1, q = 2; }", Print(`"before"`), Print("p"), Print(`"AFTER"`)),
	} {
		if c.Mine() {
			c06Judge(c, &Case{Gen: "multi-declarations", Src: src, Stdin: stdin})
		}
		if c.Mine() {
			c06Judge(c, &Case{Gen: "multi-declarations-cli", Mode: "cli", Src: src, Stdin: stdin})
		}
	}
	// random programs with planted faults
	r := c.Rand("random")
	n := c.N(8000, 600000)
	for k := 0; k < n; k++ {
		g := NewPG(r, 10+r.Intn(40))
		g.Faults = true
		src := g.Program(3)
		if !c.Mine() {
			continue
		}
		cs := &Case{Gen: "random-faulty-programs", Src: src, Stdin: stdin}
		if k%10 == 0 {
			cs.Gen, cs.Mode = "random-faulty-programs-cli", "cli"
		}
		c06Judge(c, cs)
	}
}

func init() {
	register(&CheckDef{
		ID:   "C06",
		Rule: "programs: 86 expression faults and 15 statement faults (incl. ones whose diagnostic quotes text containing a per-cent sign; undefined name, redeclaration, type mismatch for every operator family, zero divisor, negative shift, bad index read/write, missing property, property of non-object, non-callable, arity, every built-in with a bad argument) planted at 45 syntactic positions (top level, nested block, if condition/then/else, while condition/body, infinite while/for body, for initializer/condition/increment/body, function body, nested function, function called from a loop, call argument first/last, callee, array/object literal element, index, initializer, return operand, either side of ||, &&, binary, unary, three assignment forms, ...) x 3 layouts; after the fault each program has tagged prints, ইনপুট(prompt) calls with stdin available, and enclosing loops that end only through a থামো placed after the fault. In-process runs record the hook event order (stdout / diagnostic / built-in call / stdin read) and an X-never-after-Y monitor checks nothing follows the first runtime diagnostic; a step budget derived from the model decides termination; the binary is run with separate pipes (model comparison) and with one merged pipe (ordering). Plus stray signals, fault-free controls, seeded random faulty programs. Non-trivial = distinct program whose planted fault was reached and decided.",
		Assumptions: []string{"the faulting expression sits on one source line; siblings of the faulting operand are pure wherever the detection order is not fixed by the properties"},
		Run:         c06Run,
		Judge:       c06Judge,
		MustCount: func(c *Ctx) []string {
			out := []string{"gen:planted-faults", "gen:planted-faults-cli", "gen:fault-free-controls", "gen:late-faults", "fault_free_programs", "cli_runs", "hook_transparency_checked", "string_valued_faults_consistent"}
			for _, p := range c06Positions() {
				out = append(out, "pos:"+p.name)
			}
			for _, k := range []string{"UndefinedName", "Redeclare", "TypeMismatch", "ZeroDivisor", "BadIndex", "MissingProperty", "NotAnObject", "NotCallable", "Arity", "BuiltinFailure", "StrayBreak", "StrayContinue", "StrayReturn", "NotAnArray", "NegativeShift"} {
				out = append(out, "fault:"+k)
			}
			return out
		},
	})
}
