package main

import (
	"fmt"
	"strings"
	"time"

	"verifharness/ref"
)

// C07 — no program makes the interpreter die abnormally.

func c07Judge(c *Ctx, cs *Case) {
	c.Begin(cs)
	if cs.Mode == "repl" {
		o := RunCLI(CLIOpts{Bin: c.Bin, Args: []string{}, Stdin: cs.Src, Dir: c.Scratch, Timeout: 20 * time.Second, Merge: true})
		c.Count("cli_runs", 1)
		if o.TimedOut {
			c.Count("cli_watchdog_skips", 1)
			return
		}
		if o.Exit != 0 || strings.Contains(o.Merged, "panic:") || strings.Contains(o.Merged, "fatal error:") || strings.Contains(o.Merged, "goroutine 1 [") {
			c.Violate(Violation{Why: fmt.Sprintf("interactive session ended abnormally (status %d)", o.Exit), Observed: trunc(o.Merged, 600), Signature: "cli-abnormal: " + firstPanicLine(o.Merged)})
			return
		}
		c.Nontrivial("repl|" + cs.Src)
		return
	}
	// domain: syntactically valid programs
	toks, lerr := ref.Lex([]rune(cs.Src))
	if len(lerr) > 0 {
		c.Count("skipped_not_valid_syntax", 1)
		return
	}
	if cs.X == nil || cs.X["deep"] == "" {
		if _, serr := ref.NewParser(toks).ParseProgram(); serr != nil {
			c.Count("skipped_not_valid_syntax", 1)
			return
		}
	}
	if cs.Mode == "cli" {
		o := RunCLI(CLIOpts{Bin: c.Bin, Src: cs.Src, Stdin: cs.Stdin, Dir: c.Scratch, Timeout: 20 * time.Second})
		c.Count("cli_runs", 1)
		if o.TimedOut {
			c.Count("cli_watchdog_skips", 1)
			return
		}
		if o.Exit != 0 && o.Exit != 70 && o.Exit != 65 || strings.Contains(o.Stderr, "panic:") || strings.Contains(o.Stderr, "fatal error:") || strings.Contains(o.Stderr, "goroutine 1 [") {
			c.Violate(Violation{Why: fmt.Sprintf("CLI ended abnormally (status %d)", o.Exit), Observed: describeObs(o), Signature: "cli-abnormal: " + firstPanicLine(o.Stderr)})
			return
		}
		if o.Exit == 70 && len(ParseDiags(o.Stderr)) == 0 {
			c.Violate(Violation{Why: "exit status 70 without a diagnostic", Observed: describeObs(o), Signature: "exit70-no-diag"})
			return
		}
		c.Count(fmt.Sprintf("cli_exit:%d", o.Exit), 1)
		c.Nontrivial("cli|" + cs.Src)
		return
	}
	budget := int64(200000)
	if strings.HasPrefix(cs.Gen, "stress-") {
		budget = 60000000
	}
	o := RunLib(cs.Src, RunOpts{MaxSteps: budget, Stdin: cs.Stdin})
	if o.Panic != "" {
		CheckAbnormal(c, o)
		return
	}
	if o.Budget != "" {
		c.Count("step_budget_skips", 1)
		return
	}
	if o.Exit == 70 && len(ParseDiags(o.Stderr)) == 0 {
		c.Violate(Violation{Why: "runtime error flag set without a diagnostic on stderr", Observed: describeObs(o), Signature: "exit70-no-diag"})
		return
	}
	if o.Exit == 65 {
		c.Violate(Violation{Why: "syntactically valid program rejected by the front end", Observed: describeObs(o), Signature: "valid-rejected"})
		return
	}
	c.Count(fmt.Sprintf("exit:%d", o.Exit), 1)
	c.Nontrivial(cs.Src)
	if !strings.HasPrefix(cs.Gen, "stress") {
		c.Sample(cs.Gen, trunc(cs.Src, 240))
	}
}

func c07Run(c *Ctx) {
	emit := func(gen, src string, cli bool) {
		if c.Mine() {
			c07Judge(c, &Case{Gen: gen, Src: src, Stdin: "in1\nin2\n"})
		}
		if cli && c.Mine() {
			c07Judge(c, &Case{Gen: gen + "-cli", Mode: "cli", Src: src, Stdin: "in1\nin2\n"})
		}
	}
	r := c.Rand("cli-sample")
	// 1. the complete operator x value-kind x magnitude matrix
	pool := c02Pool()
	for _, op := range c02BinOps {
		for _, a := range pool {
			for _, b := range pool {
				emit("operator-matrix", a.Pre+onlyOnce(a.Pre, b.Pre)+Var("a", a.Expr)+"\n"+Var("b", b.Expr)+"\n"+Print("a "+op+" b")+"\n", r.Intn(40) == 0)
			}
		}
	}
	for _, a := range pool {
		for _, op := range c02UnOps {
			emit("operator-matrix", a.Pre+Var("a", a.Expr)+"\n"+Print(op+"a")+"\n", true)
		}
	}
	// 2. every built-in x 0..3 arguments x value kinds (boundary magnitudes included)
	vals := []string{"nil", True(), "0", "(-1)", "1.5", "9223372036854775808", "(-9223372036854775808)", "(10 ** 400)", "((10 ** 400) - (10 ** 400))", "1" + strings.Repeat("0", 308), `""`, `"s"`, `"5"`, "[]", "[1, 2]", "[[]]", "{}", "({k: 1})", "fq", B["len"]}
	pre := Fun("fq", "", "") + "\n"
	for nick := range ref.BI {
		fn := B[nick]
		emit("builtin-matrix", pre+Print(fn+"()")+"\n", true)
		for _, a := range vals {
			emit("builtin-matrix", pre+Print(Call(fn, a))+"\n", r.Intn(6) == 0)
			for _, b := range vals {
				emit("builtin-matrix", pre+Print(Call(fn, a, b))+"\n", r.Intn(60) == 0)
			}
		}
		for k := 0; k < c.N(40, 400); k++ {
			emit("builtin-matrix", pre+Print(Call(fn, vals[r.Intn(len(vals))], vals[r.Intn(len(vals))], vals[r.Intn(len(vals))]))+"\n", false)
		}
	}
	// 3. indexing / property / call / assignment-target forms on every value kind with every index kind
	idx := []string{"0", "(-1)", "1", "2", "1.5", "9223372036854775808", "(-9223372036854775808)", "1" + strings.Repeat("0", 308), "(10 ** 400)", "(-(10 ** 400))", "((10 ** 400) - (10 ** 400))", "nil", True(), `"0"`, `"x"`, `""`, "[]", "{}", "fq", "4294967296", "2147483648", "(-0)", "0.0000001"}
	for _, v := range vals {
		for _, form := range []string{"v.k", "v.k = 1;", "v()", "v(1, 2)", "v.k.j", "v.k()", "v[0][0]", "v[0].k", "v()()", "v.k[0] = 1;", "v[0]()", BI("len", "v") + "[0]"} {
			src := pre + Var("v", v) + "\n"
			if strings.HasSuffix(form, ";") {
				src += form + "\n"
			} else {
				src += Print(form) + "\n"
			}
			emit("access-forms", src, r.Intn(4) == 0)
		}
		for _, i := range idx {
			emit("index-forms", pre+Var("v", v)+"\n"+Var("i", i)+"\n"+Print("v[i]")+"\n", r.Intn(10) == 0)
			emit("index-forms", pre+Var("v", v)+"\n"+Var("i", i)+"\n"+"v[i] = 7;\n"+Print("v")+"\n", r.Intn(10) == 0)
			emit("index-forms", pre+Var("v", v)+"\n"+Var("i", i)+"\n"+Print(BI("remove", "v", "i"))+"\n", false)
			emit("index-forms", pre+Var("v", v)+"\n"+Var("i", i)+"\n"+Print("v << i")+"\n"+Print("i >> v")+"\n", false)
		}
	}
	// 4. grammar-based untyped random programs (valid syntax, no type discipline: faults are dense)
	rt := c.Rand("untyped")
	n := c.N(40000, 1500000)
	for k := 0; k < n; k++ {
		var T []*ref.Node
		for i := 1 + rt.Intn(4); i > 0; i-- {
			T = append(T, randTreeStmt(rt, 1+rt.Intn(3), true))
		}
		if !c.Mine() {
			continue
		}
		cs := &Case{Gen: "untyped-random-programs", Src: ref.PrintOpts{}.Program(T), Stdin: "in\n"}
		if k%50 == 0 {
			cs.Gen, cs.Mode = "untyped-random-programs-cli", "cli"
		}
		c07Judge(c, cs)
	}
	// 5. token-level mutation of the corpus and of generated programs, filtered to valid syntax
	rm := c.Rand("mutation")
	corpus := validCorpus(c)
	for i := 0; i < 40; i++ {
		g := NewPG(rm, 20)
		g.Faults = true
		corpus = append(corpus, g.Program(3))
	}
	alpha := fullAlphabet()
	n = c.N(30000, 600000)
	for k := 0; k < n; k++ {
		prog := corpus[rm.Intn(len(corpus))]
		toks, _ := ref.Lex([]rune(prog))
		var parts []string
		for _, t := range toks[:len(toks)-1] {
			parts = append(parts, t.Lexeme)
		}
		for m := 1 + rm.Intn(3); m > 0 && len(parts) > 1; m-- {
			i := rm.Intn(len(parts))
			switch rm.Intn(4) {
			case 0:
				parts = append(parts[:i], parts[i+1:]...)
			case 1:
				parts[i] = alpha[rm.Intn(len(alpha))].lex
			case 2:
				parts[i] = vals[rm.Intn(len(vals))]
			default:
				j := rm.Intn(len(parts))
				parts[i], parts[j] = parts[j], parts[i]
			}
		}
		if !c.Mine() {
			continue
		}
		c07Judge(c, &Case{Gen: "mutated-programs", Src: strings.Join(parts, " ") + "\n", Stdin: "in\n"})
	}
	// 5b. ways a valid program text can end (no final newline, trailing comments, blanks, CR)
	endings := []string{"", "// c", "//", "// " + K["print"] + " 1;", "/* c */", "/**/", " ", "\t", "\r", "\r\n", "\n\n", "\n// c", "\n//", ";"}
	bodies := []string{"", Print("1"), Print(`"s"`) + "\n" + Var("x", "1"), "{ " + Print("1") + " }", Fun("f", "", " "+Ret("1")+" "), Print("1") + " // tail", "// only", "/* only */"}
	for _, b := range bodies {
		for _, e := range endings {
			if e == ";" && b == "" {
				continue
			}
			emit("program-endings", b+e, true)
		}
	}
	// 5c. diagnostics that quote source text: identifiers and expressions of every length, Latin and Bangla
	for _, unit := range []string{"a", "\u0995", "\u09a8\u09be\u09ae", "x\u09df", "\u0995\u09cd\u09b7"} {
		for n := 1; n <= 130; n += 1 + n/12 {
			id := strings.Repeat(unit, n)
			if len([]rune(id)) > 200 {
				continue
			}
			for _, body := range []string{
				Print(id), id + " = 1;", Var(id, "{k: 1}") + "\n" + Print(id+".zz"), Var(id, "{k: {j: 1}}") + "\n" + Print(id+".k."+id), Var(id, "1") + "\n" + Var(id, "2"),
				Var(id, "{}") + "\n" + Print(id+"."+id+"."+id), Fun(id, "p", "") + "\n" + id + "();", Var(id, "5") + "\n" + id + "();", Var(id, "{m: 1}") + "\n" + BI("delete", id, `"`+id+`"`) + ";",
				Var("o", "{}") + "\n" + Print(`o.k` + ` + "` + id + `"`), Print("({" + id + ": 1, k: \"" + id + "\"})." + id + id),
			} {
				emit("quoted-text-lengths", body+"\n", n%9 == 0)
			}
		}
	}
	// 5d. text read with ইনপুট that is not well-formed UTF-8 (or otherwise odd), then used in every way
	for _, raw := range []string{"\xe0", "12\xe0", "\xe0\xa7", "5\xe0\xa7", "\xe0\xa7\xa9", "\xff", "\xc3\x28", "\x80", "\xed\xa0\x80", "\xf4\x90\x80\x80", "\x00", "7\x00", "\xef\xbb\xbf9", "1\xc2", "\xe0\xa6", "\xc0\xaf", "3 \xe0"} {
		for _, use := range []string{"v * 1", "v - 1", "1 / v", "v % 2", "2 ** v", "v < 1", "v & 1", "1 << v", "-v", "~v", "arr[v]", BI("abs", "v"), BI("sqrt", "v"), BI("round", "v"), BI("remove", "arr", "v"), BI("max", "v", "1"), BI("pow", "v", "2"), `v + 1`, `v == "x"`, `[v]`, `{k: v}`, BI("delete", "ob", "v"), BI("input", "v"), "!v", BI("len", "v")} {
			src := Var("arr", "[1, 2, 3]") + "\n" + Var("ob", "{k: 1}") + "\n" + Var("v", BI("input")) + "\n" + Print(use) + "\n"
			if c.Mine() {
				c07Judge(c, &Case{Gen: "odd-input-bytes", Src: src, Stdin: raw + "\nnext\n"})
			}
			if c.Mine() && hash64(raw+use)%5 == 0 {
				c07Judge(c, &Case{Gen: "odd-input-bytes-cli", Mode: "cli", Src: src, Stdin: raw + "\nnext\n"})
			}
		}
	}
	// 5e. lines of every shape and length read with ইনপুট (empty, blank, CR-terminated, beyond buffer sizes,
	// without a final newline, no input at all), then used
	long := func(n int, unit string) string { return strings.Repeat(unit, n) }
	for _, sin := range []string{"\n\n\n", "\nx\n\n", " \n\t\n  \n", "\r\n\r\nlast\r\n", "\r\n", "\r", "a\rb\n\n", "", "x", "x\n", "\n", long(4094, "a") + "\n\nz\n", long(4095, "a") + "\nq\n\n", long(4096, "a") + "\n\n\n",
		long(4097, "b") + "\nshort\n", long(50000, "c") + "\n\n", long(1365, "\u0995") + "\n\n", long(1366, "\u0995") + "\nk\n", long(8192, "d"), "1\n\n2", "\x00\n\n"} {
		src := Lines(Var("a", BI("input")), Print(`"[" + a + "]"`), Var("b", BI("input", `"p> "`)), Print(`"[" + b + "]"`), Print(`a == b`), Print(`a + b == b + a`), If("a", Print(`"a truthy"`)), Var("cc", BI("input")), Print(`"[" + cc + "]"`))
		if c.Mine() {
			c07Judge(c, &Case{Gen: "input-line-shapes", Src: src, Stdin: sin})
		}
		if c.Mine() {
			c07Judge(c, &Case{Gen: "input-line-shapes-cli", Mode: "cli", Src: src, Stdin: sin})
		}
	}
	// 5f. the hand-written scoping / closure / call programs (environment handling under every mechanism)
	hw := append(c03Handwritten(), c04Handwritten()...)
	hw = append(hw, c11Freshness()...)
	hw = append(hw,
		// listings are ordinary arrays: whatever is stored into one, the object lists its properties again (and again) afterwards
		Lines(Var("o", "{a: 1, b: 2, c: 3}"), Var("ks", BI("keys", "o")), "ks[0] = 5; ks[1] = nil; ks[2] = "+True()+";", Print(BI("keys", "o")), Print(BI("values", "o")), Var("vs", BI("values", "o")), `vs[0] = "x"; vs[1] = [ks];`, Print(BI("values", "o")), Print(BI("keys", "o")), "o.d = ks;", Print(BI("keys", "o")), BI("delete", "o", `"a"`)+";", Print(BI("values", "o")), Print(BI("len", BI("keys", "o"))+" + "+BI("len", "ks"))),
		// every statement kind as the unbraced body of every loop and branch
		Lines(Var("t", "0"), For(Var("i", "0"), "i < 3", "i = i + 1", "t = t + i;"), For(Var("i", "0"), "i < 2", "i = i + 1", Print("i")), For(Var("i", "0"), "i < 5", "i = i + 1", If("i > 1", Break())), For(Var("i", "0"), "i < 2", "i = i + 1", Continue()), For(Var("i", "0"), "i < 2", "i = i + 1", For(Var("j", "0"), "j < 2", "j = j + 1", "t = t + 1;")),
			For(Var("i", "0"), "i < 2", "i = i + 1", While("t < 0", "t = 0;")), For(Var("i", "0"), "i < 1", "i = i + 1", ";"), Var("w", "0"), While("w < 3", "w = w + 1;"), While("w < 5", IfElse("w == 3", "w = 5;", Break())), Fun("f", "", " "+For(Var("i", "0"), "i < 3", "i = i + 1", Ret("i"))+" "), Print("f()"), Print("t + w")))
	for _, src := range hw {
		if c.Mine() {
			c07Judge(c, &Case{Gen: "handwritten-programs", Src: src, Stdin: "in\n"})
		}
		if c.Mine() {
			c07Judge(c, &Case{Gen: "handwritten-programs-cli", Mode: "cli", Src: src, Stdin: "in\n"})
		}
	}
	// 5g. interactive sessions through the binary: whatever the lines are, the session ends normally
	{
		pool := c20Pool()
		r := c.Rand("repl")
		for k := 0; k < c.N(150, 5000); k++ {
			var ls []string
			for j := 0; j < 3+r.Intn(15); j++ {
				if p := pool[r.Intn(len(pool))]; p.kind != "long" && p.kind != "lexical" && p.kind != "syntax" { // every line a valid program
					ls = append(ls, p.text)
				}
			}
			if c.Mine() {
				c07Judge(c, &Case{Gen: "repl-sessions", Mode: "repl", Src: strings.Join(ls, "\n") + "\n"})
			}
		}
	}
	// 5h. values that contain themselves as operands of every operator, index / property / call form and built-in
	{
		cpre := Lines(Var("cyc", "[0, 1]"), "cyc[1] = cyc;", Var("nd", "{v: 1}"), Var("kid", "{parent: nd}"), "nd.kid = kid;", Var("ring", "{}"), "ring.next = ring;", Var("arr", "[1, 2, 3]"), Var("ob", "{k: 1}"))
		cv := []string{"cyc", "nd", "ring", "[cyc]", "{k: nd}", "kid"}
		partners := []string{"1", `"s"`, "nil", "[]", "cyc", "nd", True()}
		var forms []string
		for _, op := range []string{"+", "-", "*", "/", "%", "**", "<", "<=", ">", ">=", "==", "!=", "&", "|", "^", "<<", ">>", "&&", "||"} {
			forms = append(forms, "%a "+op+" %b", "%b "+op+" %a")
		}
		forms = append(forms, "-%a", "!%a", "~%a", "arr[%a]", "arr[%a] = 1", "%a[0]", "%a[%b]", "%a.k", "%a.k = %b", "%a()", "%a(%b)", "ob.k = %a", `"label = " + %a`, `%a + ""`, "[%a, %b]", "{k: %a}.k")
		for _, n := range []string{"len", "append", "remove", "delete", "keys", "values", "abs", "sqrt", "pow", "sin", "cos", "tan", "min", "max", "round", "input"} {
			forms = append(forms, BI(n, "%a"), BI(n, "%a", "%b"), BI(n, "%b", "%a"))
		}
		for _, f := range forms {
			for _, a := range cv {
				for _, b := range partners {
					if !strings.Contains(f, "%b") && b != "1" {
						continue
					}
					e := strings.ReplaceAll(strings.ReplaceAll(f, "%a", a), "%b", b)
					src := cpre + Print(`"start"`) + "\n" + Print(e) + "\n"
					if strings.Contains(f, " = ") {
						src = cpre + Print(`"start"`) + "\n" + e + ";\n"
					}
					if c.Mine() {
						c07Judge(c, &Case{Gen: "cyclic-operands", Src: src, Stdin: "in\n"})
					}
				}
			}
		}
	}
	// 6. nesting / size stress
	depth := c.N(3000, 10000)
	stress := []struct{ name, src string }{
		{"paren-nest", Print(strings.Repeat("(", depth) + "1" + strings.Repeat(")", depth))},
		{"unary-nest", Print(strings.Repeat("-", depth) + "1")},
		{"not-nest", Print(strings.Repeat("!", depth) + "1")},
		{"array-nest", Print(strings.Repeat("[", depth) + "1" + strings.Repeat("]", depth))},
		{"block-nest", strings.Repeat("{", depth) + Print("1") + strings.Repeat("}", depth)},
		{"binary-chain", Print("1" + strings.Repeat(" + 1", depth))},
		{"call-chain", Fun("f", "", " "+Ret("f")+" ") + "\n" + Print("f"+strings.Repeat("()", depth))},
		{"index-chain", Var("a", "[0]") + "\na[0] = a;\n" + Print("a"+strings.Repeat("[0]", depth)+" == a")},
		{"if-nest", strings.Repeat(K["if"]+" ("+True()+") ", depth) + Print("1")},
		{"recursion-40000", Fun("d", "n", " "+If("n == 0", Ret("0"))+" "+Ret("1 + d(n - 1)")+" ") + "\n" + Print("d(40000)")},
		{"recursion-40000-fault-at-bottom", Fun("d", "n", " "+If("n == 0", Ret("nil.k"))+" "+Ret("1 + d(n - 1)")+" ") + "\n" + Print("d(40000)")},
		{"while-600000-continues", Var("i", "0") + "\n" + Var("hits", "0") + "\n" + While("i < 1400000", "{ i = i + 1; "+If("i % 7 != 0", Continue())+" hits = hits + 1; }") + "\n" + Print("hits")},
		{"recursion-170000", Fun("d", "n", " "+If("n == 0", Ret("0"))+" "+Ret("1 + d(n - 1)")+" ") + "\n" + Print("d(170000)")},
		{"mutual-recursion-160000", Fun("ev", "n", " "+If("n == 0", Ret(True()))+" "+Ret("od(n - 1)")+" ") + "\n" + Fun("od", "n", " "+If("n == 0", Ret(False()))+" "+Ret("ev(n - 1)")+" ") + "\n" + Print("ev(160000)")},
		{"recursion-2000", Fun("d", "n", " "+If("n == 0", Ret("0"))+" "+Ret("1 + d(n - 1)")+" ") + "\n" + Print("d(2000)")},
		{"array-grow", Var("a", "[]") + "\n" + For(Var("i", "0"), "i < "+fmt.Sprint(c.N(20000, 100000)), "i = i + 1", "{ a = "+BI("append", "a", "i")+"; }") + "\n" + Print(BI("len", "a"))},
		{"string-grow", Var("s", `"x"`) + "\n" + For(Var("i", "0"), "i < 18", "i = i + 1", "{ s = s + s; }") + "\n" + Print(`(s + "y") == s`)},
		{"object-many-keys", Var("o", "{}") + "\n" + strings.Repeat("o.k = 1; o.j = o; ", 200) + "\n" + Print("o")},
		{"self-array-print", Var("a", "[1]") + "\na[0] = a;\n" + Print("a") + "\n" + Print("[a, a]")},
		{"self-object-print", Var("o", "{}") + "\no.me = o;\no.arr = [o];\n" + Print("o") + "\n" + Print(BI("values", "o"))},
		{"deep-structure-print", Var("a", "[]") + "\n" + For(Var("i", "0"), "i < 5000", "i = i + 1", "{ a = [a]; }") + "\n" + Print(BI("len", "a"))},
		{"equality-self", Var("a", "[1]") + "\na[0] = a;\n" + Print("a == a") + "\n" + Print("a == [a]")},
	}
	for _, s := range stress {
		if strings.Contains(s.name, "recursion-1") && c.Mine() { // the very deep ones: as a separate process only
			c07Judge(c, &Case{Gen: "stress-" + s.name + "-cli", Mode: "cli", Src: s.src + "\n", X: map[string]string{"deep": "1"}})
			continue
		} else if strings.Contains(s.name, "recursion-1") {
			continue
		}
		if c.Mine() {
			c07Judge(c, &Case{Gen: "stress-" + s.name, Src: s.src + "\n", X: map[string]string{"deep": "1"}})
		}
		if c.Mine() {
			c07Judge(c, &Case{Gen: "stress-" + s.name + "-cli", Mode: "cli", Src: s.src + "\n", X: map[string]string{"deep": "1"}})
		}
	}
}

func init() {
	register(&CheckDef{
		ID:   "C07",
		Rule: "valid programs: the complete 17-operator x 45x45 operand matrix (all value kinds, boundary magnitudes) and unary forms; every built-in x 0-2 arguments over 20 argument values (nil, booleans, 0, -1, 1.5, +-2^63, +Inf, NaN, 1e308, strings, arrays, objects, functions) plus sampled 3-argument calls; 12 access forms (property, call, index, stores, chains) on every value kind and v[i], v[i]=, রিমুভ(v,i), shifts for 23 index values; seeded untyped random programs printed from random syntax trees (no type discipline, so faults are dense); token-level mutations of the corpus filtered to valid syntax; nesting/size stress (3000/10000-deep parentheses, unary stacks, arrays, blocks, call and index chains, recursion depth 2000, arrays grown to 20000/100000 elements, self-containing arrays and objects printed and compared). Monitor: recovered Go panics, worker death (fatal error / stack exhaustion), CLI exit status other than 0/65/70 or a panic banner, exit 70 without a diagnostic. Programs that exhaust a 200000-step evaluation budget are skipped (termination is C06's subject). Non-trivial = distinct valid program that ran to completion.",
		Assumptions: []string{"unbounded recursion is outside the property (stated there); generated recursion is bounded"},
		Run:         c07Run,
		Judge:       c07Judge,
		MustCount:   func(c *Ctx) []string { return []string{"gen:operator-matrix", "gen:builtin-matrix", "gen:access-forms", "gen:index-forms", "gen:untyped-random-programs", "gen:mutated-programs", "gen:program-endings", "gen:quoted-text-lengths", "gen:odd-input-bytes", "gen:stress-self-array-print", "exit:0", "exit:70", "cli_runs"} },
	})
}
