package main

import (
	"fmt"
	"os"
	"path/filepath"
	"strings"

	"verifharness/ref"
)

// C08 — front end is total, accepts exactly the documented language, runs
// nothing on rejection.

type tokAlpha struct{ lex, kind string }

func fullAlphabet() []tokAlpha {
	a := []tokAlpha{
		{"a", "IDENT"}, {B["len"], "IDENT"}, {"1", "NUMBER"}, {`"s"`, "STRING"}, {K["true"], "true"}, {"nil", "nil"},
		{"(", "("}, {")", ")"}, {"{", "{"}, {"}", "}"}, {"[", "["}, {"]", "]"}, {",", ","}, {".", "."}, {";", ";"}, {":", ":"}, {"=", "="},
		{"-", "-"}, {"!", "!"},
		{"||", "||"}, {K["and"], "&&"}, {"|", "|"}, {"^", "^"}, {"&", "&"}, {"==", "=="}, {"<", "<"}, {"<<", "<<"}, {"+", "+"}, {"*", "*"}, {"**", "**"},
		{K["var"], "var"}, {K["fun"], "fun"}, {K["if"], "if"}, {K["else"], "else"}, {K["while"], "while"}, {K["for"], "for"},
		{K["print"], "print"}, {K["return"], "return"}, {K["break"], "break"}, {K["continue"], "continue"},
	}
	return a
}

func coreAlphabet() []tokAlpha {
	return []tokAlpha{{"a", "IDENT"}, {"1", "NUMBER"}, {"(", "("}, {")", ")"}, {"{", "{"}, {"}", "}"}, {";", ";"}, {"=", "="}, {"+", "+"}, {".", "."}, {",", ","}, {"[", "["}, {"]", "]"}, {":", ":"}}
}

// enumTokenSeqs enumerates every token sequence of length 1..maxLen.
func enumTokenSeqs(c *Ctx, alpha []tokAlpha, maxLen int, gen string, judge func(*Case)) {
	lex := make([]string, 0, maxLen)
	kinds := make([]string, 0, maxLen)
	var rec func(depth int)
	rec = func(depth int) {
		if depth > 0 && c.Mine() {
			judge(&Case{Gen: fmt.Sprintf("%s-len%d", gen, depth), Src: renderTokens(lex, kinds)})
		}
		if depth == maxLen {
			return
		}
		for _, t := range alpha {
			lex = append(lex, t.lex)
			kinds = append(kinds, t.kind)
			rec(depth + 1)
			lex = lex[:len(lex)-1]
			kinds = kinds[:len(kinds)-1]
		}
	}
	rec(0)
}

// validCorpus: the shipped examples plus hand-written programs covering every
// statement and expression form.
func validCorpus(c *Ctx) []string {
	var out []string
	files, _ := filepath.Glob(filepath.Join(c.Repo, "example", "*.bn"))
	for _, f := range files {
		if b, err := os.ReadFile(f); err == nil {
			out = append(out, string(b))
		}
	}
	out = append(out,
		Lines(Var("x", "1"), Print("x + 2 * 3"), If("x > 0", "{ "+Print(`"p"`)+" }")+" "+K["else"]+" { "+Print(`"n"`)+" }"),
		Lines(Fun("f", "a, b", " "+Ret("a + b")+" "), Print(Call("f", "1", "2")), Var("o", "{k: 1, j: [1, 2]}"), "o.k = o.j[0];", Print("o")),
		Lines(For(Var("i", "0"), "i < 3", "i = i + 1", "{ "+If("i == 1", Continue())+" "+Print("i")+" }"), While(True(), "{ "+Break()+" }")),
		Lines(K["var"]+" a = 1, b, c = [1, [2]];", "c[1][0] = a;", Print("-a ** 2"), Print("!a || b && nil"), Print("~5 & 3 | 1 ^ 2 << 1 >> 1")),
		Lines(Fun("g", "", " "+Fun("h", "", " "+Ret("")+" ")+" "+Ret("h")+" "), "g()();", Print(BI("len", "[1,2]")), "{ "+Var("z", `"s"`)+" "+Print("z")+" }"),
		Lines(For(";", "", "", Break()), For("x = 1;", "x < 2", "", "x = x + 1;"), Print("({k: 1}).k"), Print("[1,2][0]"), Print(`"a" + 1 == "a1"`)),
	)
	return out
}

func c08Run(c *Ctx) {
	judge := func(cs *Case) { c08Judge(c, cs) }
	// 1. every token sequence up to a length bound
	enumTokenSeqs(c, fullAlphabet(), c.N(3, 4), "tokseq", judge)
	if !c.Quick() {
		enumTokenSeqs(c, coreAlphabet(), 6, "coreseq", judge)
	} else {
		enumTokenSeqs(c, coreAlphabet(), 5, "coreseq", judge)
	}
	// 2. every string of <= n lexical fragments
	frags := []string{K["var"], K["print"], K["if"], K["fun"], "a", "ক", B["len"], "1", "২", `"s"`, "+", "-", "*", "/", "=", "==", "!", "<", "(", ")", "{", "}", "[", "]", ",", ".", ";", ":", "\"", "//", "/*", "*/", "@", "#", "\x00", "\n", " ", K["true"], "nil", K["else"], K["return"]}
	maxF := c.N(3, 4)
	var rec func(prefix string, depth int)
	rec = func(prefix string, depth int) {
		if depth > 0 && c.Mine() {
			judge(&Case{Gen: fmt.Sprintf("fragments-len%d", depth), Src: prefix})
		}
		if depth == maxF {
			return
		}
		for _, f := range frags {
			sep := ""
			if depth > 0 && f != "\n" && f != " " {
				sep = " "
			}
			rec(prefix+sep+f, depth+1)
		}
	}
	rec("", 0)
	// 3. every prefix of every corpus program extended by every token
	alpha := fullAlphabet()
	for _, prog := range validCorpus(c) {
		runes := []rune(prog)
		toks, _ := ref.Lex(runes)
		step := 1
		if c.Quick() && len(toks) > 120 {
			step = 3
		}
		for i := 0; i < len(toks)-1; i += step {
			prefix := string(runes[:toks[i].End])
			for _, t := range alpha {
				if !c.Mine() {
					continue
				}
				judge(&Case{Gen: "prefix-extension", Src: prefix + " " + t.lex})
			}
			if c.Mine() {
				judge(&Case{Gen: "prefix-truncation", Src: prefix})
			}
		}
	}
	// 3b. assignment targets: every left-side form, plain and parenthesised, in statement,
	// nested and argument position (a target must be a name or end in [ ] / .name)
	lhs := []string{"a", "(a)", "((a))", "a[0]", "(a[0])", "a.k", "(a.k)", "a[0].k", "a.k[0]", "f()", "f().k", "f()[0]", "(f()).k", "1", "(1)", `"s"`, "nil", K["true"], "a + b", "(a + b)", "- a", "! a", "[a]", "[a][0]", "({k: 1})", "({k: 1}).k", "a = b", "(a = b)", "a.k = b", B["len"], "(" + B["len"] + ")", B["len"] + "()", "a || b", "a == b"}
	for _, l := range lhs {
		for _, form := range []string{"%s = 1;", "%s = b = 2;", "b = %s = 3;", "f(b = %s = 4);", K["print"] + " %s = 5;", K["var"] + " v = %s = 6;", "[%s = 7];", K["if"] + " (%s = 8) b;", "%s\n=\n9;", "%s = ;", "%s = 1"} {
			if c.Mine() {
				judge(&Case{Gen: "assignment-targets", Src: fmt.Sprintf(form, l)})
			}
		}
	}
	// 3c. literal forms: what a valid numeric / string literal may look like is part of the language
	for _, lit := range []string{"0", "00", "007", "9223372036854775807", "9223372036854775808", "18446744073709551615", "18446744073709551616", "99999999999999999999", "123456789012345678901234567890",
		"1" + strings.Repeat("0", 308), "1" + strings.Repeat("0", 309), "0." + strings.Repeat("0", 400) + "1", "18446744073709551616.5", "\u09e7\u09ee\u09ea\u09ea\u09ec\u09ed\u09ea\u09ea\u09e6\u09ed\u09e9\u09ed\u09e6\u09ef\u09eb\u09eb\u09e7\u09ec\u09e7\u09ec",
		"1.5", "1.", ".5", "1..2", "1.2.3", `""`, `"\n"`, `"a\nb"`, `"\\"`, `"'"`, `"//"`, `"/*"`} {
		for _, form := range []string{K["print"] + " %s;", K["print"] + " %s > 1;", K["var"] + " v = %s;", "[%s, %s];", "f(%s);"} {
			if c.Mine() {
				judge(&Case{Gen: "literal-forms", Src: strings.ReplaceAll(form, "%s", lit)})
			}
		}
	}
	// 3d. which characters may appear where: the whole Bengali block, and representatives of every other
	// kind of code point, alone, inside an identifier and as a name being declared
	var cps []rune
	for r := rune(0x0980); r <= 0x09FF; r++ {
		cps = append(cps, r)
	}
	for _, r := range []rune{0x00, 0x07, 0x1b, 0x7f, 0x80, 0xa0, 0xa9, 0xaa, 0xb2, 0xb5, 0xbc, 0xd7, 0xe9, 0x2bc, 0x300, 0x37e, 0x3a9, 0x660, 0x966, 0x96f, 0x9e5, 0xa66, 0xe50, 0x2000, 0x200b, 0x200c, 0x200d, 0x2028, 0x2044, 0x20a8, 0x20b9, 0x2160, 0x2460, 0x3000, 0x3007, 0x4e00, 0xac00, 0xd7ff, 0xe000, 0xfe0f, 0xfeff, 0xff10, 0xff21, 0xfffd, 0x10000, 0x1d7ce, 0x1f600, 0xe0001, 0x10ffff} {
		cps = append(cps, r)
	}
	for _, r := range cps {
		ch := string(r)
		for _, form := range []string{K["var"] + " %s = 5; " + K["print"] + " %s;", K["print"] + " a%s;", "a%sb = 1;", K["print"] + " {%s: 1};", K["print"] + " 1 %s 2;", "%s"} {
			if c.Mine() {
				judge(&Case{Gen: "code-point-classes", Src: strings.ReplaceAll(form, "%s", ch)})
			}
		}
	}
	// 3e. what may stand where a single statement is expected: every declaration / statement form
	// in the then- and else-arm of an if, in every arm of an else-if chain, as a loop body, and the
	// same inside a function (the grammar's `statement` has no variable or function declaration)
	inner := []string{Var("v", "1"), VarNil("v"), K["var"] + " v = 1, w;", Fun("g", "", ""), Fun("g", "p", " "+Ret("p")+" "), Print("1"), "a;", "a = 1;", ";", "{ }", "{ " + Var("v", "1") + " }",
		If("a", Print("2")), While("a", Break()), For(";", "", "", Break()), Ret(""), Ret("1"), Break(), Continue()}
	for _, in := range inner {
		slots := []string{
			K["if"] + " (a) %s", K["if"] + " (a) " + Print("0") + " " + K["else"] + " %s", K["if"] + " (a) %s " + K["else"] + " " + Print("0"),
			K["if"] + " (a) " + Print("0") + " " + K["else"] + " " + K["if"] + " (b) " + Print("1") + " " + K["else"] + " %s",
			K["if"] + " (a) " + Print("0") + " " + K["else"] + " " + K["if"] + " (b) %s " + K["else"] + " " + Print("1"),
			K["if"] + " (a) { } " + K["else"] + "\n%s", K["while"] + " (a) %s", K["for"] + " (;;) %s", K["for"] + " (" + Var("i", "0") + " i < 1; i = i + 1) %s",
			K["if"] + " (a) " + K["while"] + " (b) " + K["if"] + " (c) " + Print("0") + " " + K["else"] + " %s",
		}
		for _, sl := range slots {
			for _, wrap := range []string{"%s", K["fun"] + " f() { %s }", "{ %s }", K["while"] + " (a) { %s " + Print("9") + " }"} {
				if c.Mine() {
					judge(&Case{Gen: "statement-positions", Src: Print(`"first"`) + "\n" + fmt.Sprintf(wrap, fmt.Sprintf(sl, in)) + "\n" + Print(`"last"`)})
				}
			}
		}
	}
	// 3f. separators: every list-like construct with one separator omitted, doubled, replaced or misplaced
	for _, text := range []string{
		"o = {a: 1 b: 2};", "o = {a: 1\n b: 2\n};", "o = {a: 1, b: 2 c: 3};", "o = {a: 1,, b: 2};", "o = {, a: 1};", "o = {a: 1; b: 2};", "o = {a 1};", "o = {a: 1 2};", "o = {a: , b: 2};", "o = {a: 1, b: 2};", "o = {a: {b: 1 c: 2}};", "f({a: 1 b: 2});", K["print"] + " {a: 1 b: 2}.a;",
		"x = [1 2];", "x = [1,, 2];", "x = [, 1];", "x = [1; 2];", "x = [1, 2];", "x = [[1 2], 3];", "f(1 2);", "f(1,, 2);", "f(, 1);", "f(1; 2);", "f(1, 2);", "f(g(1 2));",
		K["fun"] + " f(a b) { }", K["fun"] + " f(a,, b) { }", K["fun"] + " f(, a) { }", K["fun"] + " f(a; b) { }", K["fun"] + " f(a, b) { }",
		K["var"] + " a = 1 b = 2;", K["var"] + " a = 1,, b = 2;", K["var"] + " a = 1, b = 2;", K["var"] + " a b;", K["var"] + " a, ;",
		K["for"] + " (" + K["var"] + " i = 0 i < 1; ) { }", K["for"] + " (;; ;) { }", K["for"] + " (; ) { }", K["for"] + " (;;) { }", K["for"] + " (i = 0, j = 0;;) { }",
		"a.b.c;", "a..b;", "a.;", "a[1][2];", "a[1 2];", "a[];", "a[1,2];", K["print"] + " 1, 2;", K["print"] + " 1 2;", K["return"] + " 1 2;", "x = 1 2;", "x = 1 = 2;", "x y;",
	} {
		for _, wrap := range []string{"%s", Print(`"first"`) + "\n%s\n" + Print(`"last"`), K["fun"] + " w() { %s }", K["if"] + " (c) { %s }"} {
			if c.Mine() {
				judge(&Case{Gen: "separators", Src: fmt.Sprintf(wrap, text)})
			}
		}
	}
	// 3g. a declaration whose array / object literal initialiser is written over several lines
	for _, text := range []string{K["var"] + " m = [\n [1, 2],\n [3, 4]\n];", K["var"] + " o = {\n a: 1,\n b: [\n 2\n ]\n};", K["var"] + " t = [\n {id: 1},\n {id: 2}\n];\n" + K["print"] + " t;", K["var"] + " e = [\n];", K["var"] + " w = [1,\n 2, 3];", K["var"] + " bad = [\n 1,\n 2 3\n];", K["var"] + " bad2 = {\n a: 1\n b: 2\n};"} {
		for _, wrap := range []string{"%s", Print(`"first"`) + "\n%s\n" + Print(`"last"`), K["fun"] + " w() {\n%s\n}", K["for"] + " (;;) {\n%s\n" + K["break"] + ";\n}"} {
			if c.Mine() {
				judge(&Case{Gen: "multiline-literal-declarations", Src: fmt.Sprintf(wrap, text)})
			}
			if c.Mine() {
				judge(&Case{Gen: "multiline-literal-declarations-cli", Mode: "cli", Src: fmt.Sprintf(wrap, text)})
			}
		}
	}
	// 3h''. spellings borrowed from other languages that the grammar does not have: compound assignments, increments, a second
	// else, elif-like chains — rejected at the first token that cannot continue a valid text, with nothing run
	for _, bad := range []string{"k <<= 2;", "k >>= 1;", "k += 1;", "k -= 1;", "k *= 2;", "k /= 2;", "k %= 2;", "k **= 2;", "k &= 1;", "k |= 1;", "k ^= 1;", "k &&= 1;", "k ||= 1;", "k++;", "k--;", "++k;", "k <== 2;", "k >== 2;", "k === 1;", "k !== 1;", "k <> 1;", "k =< 2;", "k => 2;", "k <<< 1;", "k >>> 1;",
		IfElse("k", "{ "+Print("1")+" }", "{ "+Print("2")+" }") + " " + K["else"] + " { " + Print("3") + " }", IfElse("k", Print("1"), IfElse("k > 1", Print("2"), Print("3"))) + " " + K["else"] + " " + Print("4"), If("k", "{ }") + " " + K["else"] + " " + K["else"] + " { }", K["else"] + " { }", If("k", Print("1")) + " " + K["else"] + " " + K["if"] + " { }"} {
		for _, wrap := range []string{"%s", Print(`"ran"`) + "\n" + Var("k", "1") + "\n%s\n" + Print("k"), Fun("f", "k", " %s ") + " " + Print(`"ran"`)} {
			src := strings.Replace(wrap, "%s", bad, 1)
			if c.Mine() {
				judge(&Case{Gen: "borrowed-spellings", Src: src})
			}
			if c.Mine() {
				judge(&Case{Gen: "borrowed-spellings-cli", Mode: "cli", Src: src})
			}
		}
	}
	// 3h'. words that merely look reserved are ordinary names (exactly the 15 keywords are reserved)
	for _, n := range plausibleWords {
		if _, kw := ref.Keywords[n]; kw || n == "input" {
			continue
		}
		for _, src := range []string{Var(n, "1") + " " + Print(n), Fun(n, "a", " "+Ret("a")+" ") + " " + Print(n+"(2)"), Fun("f", n, " "+Print(n)+" ") + " f(1);", "o = {" + n + ": 1}; o." + n + " = 2;"} {
			if c.Mine() {
				judge(&Case{Gen: "plausible-words", Src: src})
			}
		}
	}
	// 3h. names may start with an underscore, in every declaring and using position
	for _, n := range []string{"_", "_x", "__", "_1", "_\u0995", "x_", "_tmp_2"} {
		for _, src := range []string{Var(n, "1") + " " + Print(n), K["var"] + " a = 1, " + n + " = 2;", Fun(n, "", "") + " " + n + "();", Fun("f", n, " "+Print(n)+" ") + " f(1);", "o = {" + n + ": 1}; o." + n + " = 2;", For(Var(n, "0"), n+" < 1", n+" = "+n+" + 1", "{ }"), n + " = 1;", Fun("g", "a, "+n, " "+Ret("a")+" ")} {
			if c.Mine() {
				judge(&Case{Gen: "underscore-names", Src: src})
			}
			if c.Mine() {
				judge(&Case{Gen: "underscore-names-cli", Mode: "cli", Src: src})
			}
		}
	}
	// 3i. a valid text that fails while running is not a rejected text (status 70, not 65), through the binary
	for _, f := range c06Faults() {
		body := Print(f.expr)
		if f.stmt != "" {
			body = f.stmt
		}
		if c.Mine() {
			judge(&Case{Gen: "valid-but-failing-cli", Mode: "cli", Src: Lines(append(c06Prelude(), Print(`"start"`), body, Print(`"end"`))...)})
		}
	}
	// 4. reserved names and the parameter limit
	names := []string{"input"}
	for _, n := range ref.BI {
		names = append(names, n)
	}
	for _, n := range names {
		for _, src := range []string{
			Var(n, "1"), K["var"] + " a = 1, " + n + " = 2;", Fun(n, "", ""), Fun("f", n, " "+Print(n)+" "), Print(n), n + " = 1;", "a." + n + ";", Print("{" + n + ": 1}"),
			For(Var(n, "0"), "", "", Break()),
		} {
			if !c.Mine() {
				continue
			}
			judge(&Case{Gen: "reserved-names", Src: src})
		}
	}
	for _, np := range []int{0, 1, 2, 254, 255, 256, 257, 300} {
		ps := make([]string, np)
		for i := range ps {
			ps[i] = fmt.Sprintf("p%d", i)
		}
		if c.Mine() {
			judge(&Case{Gen: "param-limit", Src: Fun("f", strings.Join(ps, ", "), ""), X: map[string]string{"params": fmt.Sprint(np)}})
		}
		if c.Mine() {
			judge(&Case{Gen: "arg-count", Src: Call("f", ps...) + ";", X: map[string]string{"args": fmt.Sprint(np)}})
		}
		// the same declaration with one token per line: the diagnostic line is then sharp
		if c.Mine() {
			judge(&Case{Gen: "param-limit-multiline", Src: K["fun"] + "\nf\n(\n" + strings.Join(ps, "\n,\n") + "\n)\n{\n}\n", X: map[string]string{"params": fmt.Sprint(np)}})
		}
		if c.Mine() {
			judge(&Case{Gen: "param-limit-multiline", Src: K["fun"] + " f(" + strings.Join(ps, ",\n") + "\n) {\n" + Print("1") + "\n}\n", X: map[string]string{"params": fmt.Sprint(np)}})
		}
	}
	// 5b. what surrounds the program text in the file: leading / trailing blank lines and blanks, and
	// characters that merely look like blanks at the very start or end (through the binary: line numbers
	// count from the first byte of the file, and a stray character is stray wherever it stands)
	bodies := []string{Print("1") + "\n" + Print("2"), Print("1") + "\n" + Print("2 +") + "\n" + Print("3"), Print("1") + "\n\n" + Print("(2") + ";", Print("1") + "\n" + "@" + "\n" + Print("3"), Var("x", "1") + "\n" + "x = ;", "{ " + Print("1"), Print("1")[:len(Print("1"))-1]}
	for _, lead := range []string{"", "\n", "\n\n", "\r\n\r\n\r\n", "\n \n\t\n", strings.Repeat("\n", 7), "  ", "\t"} {
		for _, trail := range []string{"", "\n", "\n\n\n", "  ", "\t\n ", "\r\n"} {
			for _, b := range bodies {
				if c.Mine() {
					judge(&Case{Gen: "file-edges-cli", Mode: "cli", Src: lead + b + trail})
				}
			}
		}
	}
	for _, ch := range []string{"\u00a0", "\u0085", "\u2028", "\u2029", "\v", "\f", "\u3000", "\ufeff", "\u200b", "\u1680", "\u2003", "\u202f", "\x1c", "\x00"} {
		for _, shape := range []string{"%c%p", "%p%c", "%c\n%p", "%p\n%c", "%p\n%c\n", " %c%p", "%p%c ", "%c%p%c", "\n\n%c\n%p"} {
			src := strings.ReplaceAll(strings.ReplaceAll(shape, "%c", ch), "%p", Print(`"ran"`)+"\n"+Print("2"))
			if c.Mine() {
				judge(&Case{Gen: "file-edges-cli", Mode: "cli", Src: src})
			}
			if c.Mine() {
				judge(&Case{Gen: "file-edges", Src: src})
			}
		}
	}
	// 5c. lines longer than any read buffer (a long string literal, comment, array literal, blank run),
	// followed by valid text or by an error on a later line: through the binary and in-process
	for _, n := range []int{4096, 65535, 65536, 65537, 70000, 140000} {
		longs := []string{Print(`"` + strings.Repeat("s", n) + `"`), "// " + strings.Repeat("-", n), "/* " + strings.Repeat("c", n) + " */", Var("big", "["+strings.Repeat("1, ", n/3)+"1]"), strings.Repeat(" ", n) + Print("0")}
		for _, l := range longs {
			for _, after := range []string{Print("2"), Print("2 +"), "@", Var(B["len"], "1"), "{ " + Print("3")} {
				src := Print("1") + "\n" + l + "\n" + after + "\n"
				if c.Mine() {
					judge(&Case{Gen: "long-lines-cli", Mode: "cli", Src: src, X: map[string]string{"line_bytes": fmt.Sprint(n)}})
				}
				if n == 70000 && c.Mine() {
					judge(&Case{Gen: "long-lines", Src: src})
				}
			}
		}
	}
	// 5d. texts made of tens of thousands of small constructs of one kind (the grammar bounds neither the
	// number of statements nor of literals, calls, blocks, functions in a text), valid and with an error near the end
	{
		n := c.N(20000, 120000)
		rep := func(unit func(i int) string) string {
			var b strings.Builder
			for i := 0; i < n; i++ {
				b.WriteString(unit(i))
			}
			return b.String()
		}
		many := []string{
			"t = [" + rep(func(i int) string { return fmt.Sprintf("{id: %d, v: %d}, ", i, i%7) }) + "{id: 0}];",
			rep(func(i int) string { return fmt.Sprintf("r = {v: %d};\n", i) }),
			"t = [" + rep(func(i int) string { return fmt.Sprintf("[%d], ", i) }) + "[]];",
			rep(func(i int) string { return fmt.Sprintf("x = (%d) + (x);\n", i%9) }),
			rep(func(i int) string { return "f(1)(2);\n" }),
			rep(func(i int) string { return "{ x = 1; }\n" }),
			rep(func(i int) string { return K["fun"] + fmt.Sprintf(" g%d(a) { ", i) + K["return"] + " a; }\n" }),
			rep(func(i int) string { return K["if"] + " (x) y = 1; " + K["else"] + " y = 2;\n" }),
			rep(func(i int) string { return "a.b[1].c = -!~1 ** 2;\n" }),
			rep(func(i int) string { return K["for"] + " (;;) " + K["break"] + ";\n" }),
		}
		for _, m := range many {
			for _, tail := range []string{"", Print("1 +") + "\n", "@\n"} {
				if c.Mine() {
					judge(&Case{Gen: "many-constructs", Src: m + "\n" + tail, X: map[string]string{"units": fmt.Sprint(n)}})
				}
			}
		}
	}
	// 5. nothing runs: printing prefix + one error on the last line (also through the binary)
	errs := []string{"@", `"unterminated`, "/* open", Print("1") + " )", Print("1 +"), K["var"] + " ;", "1 = 2;", "}", Print("(1"), K["if"] + " x", K["fun"] + " (", "a b", Var(B["len"], "1"), "1" + strings.Repeat("0", 400) + ";"}
	for _, e := range errs {
		for _, nl := range []int{1, 5, 50} {
			var b strings.Builder
			for i := 0; i < nl; i++ {
				b.WriteString(Print(fmt.Sprintf(`"MARK%d"`, i)) + "\n")
			}
			b.WriteString(e)
			if !c.Mine() {
				continue
			}
			judge(&Case{Gen: "nothing-runs", Src: b.String()})
			judge(&Case{Gen: "nothing-runs-cli", Mode: "cli", Src: b.String()})
		}
	}
	// 6. random texts: fragment soup and mutated valid programs
	r := c.Rand("soup")
	n := c.N(30000, 800000)
	corpus := validCorpus(c)
	for k := 0; k < n; k++ {
		var src string
		if r.Intn(2) == 0 {
			var b strings.Builder
			m := 1 + r.Intn(25)
			for j := 0; j < m; j++ {
				b.WriteString(frags[r.Intn(len(frags))])
				b.WriteString([]string{" ", "", "\n", " "}[r.Intn(4)])
			}
			src = b.String()
		} else {
			prog := corpus[r.Intn(len(corpus))]
			runes := []rune(prog)
			toks, _ := ref.Lex(runes)
			var parts []string
			for _, t := range toks[:len(toks)-1] {
				parts = append(parts, t.Lexeme)
			}
			for m := 1 + r.Intn(3); m > 0 && len(parts) > 0; m-- {
				i := r.Intn(len(parts))
				switch r.Intn(4) {
				case 0:
					parts = append(parts[:i], parts[i+1:]...)
				case 1:
					parts[i] = alpha[r.Intn(len(alpha))].lex
				case 2:
					parts = append(parts[:i], append([]string{alpha[r.Intn(len(alpha))].lex}, parts[i:]...)...)
				default:
					j := r.Intn(len(parts))
					parts[i], parts[j] = parts[j], parts[i]
				}
			}
			// keep line structure simple: one statement-ish chunk per line
			var b strings.Builder
			for _, p := range parts {
				b.WriteString(p)
				if p == ";" || p == "{" || p == "}" {
					b.WriteByte('\n')
				} else {
					b.WriteByte(' ')
				}
			}
			src = b.String()
		}
		if !c.Mine() {
			continue
		}
		judge(&Case{Gen: "random-text", Src: src})
	}
	// 7. deep nesting, valid and truncated
	depth := c.N(2000, 10000)
	nests := []struct{ name, open, mid, close string }{
		{"paren", "(", "1", ")"}, {"bracket", "[", "1", "]"}, {"unary", "-", "1", ""}, {"bang", "!", "1", ""},
		{"block", "{", "", "}"}, {"if", K["if"] + " (1) ", "1;", ""}, {"call", "f(", "1", ")"}, {"object", "{k:", "1", "}"},
	}
	for _, ns := range nests {
		for _, trunc := range []bool{false, true} {
			if !c.Mine() {
				continue
			}
			var src string
			body := strings.Repeat(ns.open, depth) + ns.mid
			if !trunc {
				body += strings.Repeat(ns.close, depth)
			}
			switch ns.name {
			case "block", "if":
				src = body
			default:
				src = Print(body)
				if ns.name == "object" {
					src = Var("o", body)
				}
			}
			judge(&Case{Gen: "deep-nest", Src: src, X: map[string]string{"shape": ns.name, "truncated": fmt.Sprint(trunc), "depth": fmt.Sprint(depth)}})
		}
	}
	// 8. raw byte oddities through the binary (invalid UTF-8, NUL, BOM)
	for _, raw := range []string{"\xff\xfe", Print("1") + "\x00", "\xef\xbb\xbf" + Print("1"), Print(`"a` + "\xc3\x28" + `"`), "\xed\xa0\x80", Print("1") + "\n\xc0\xaf", strings.Repeat("\x80", 1000)} {
		if !c.Mine() {
			continue
		}
		judge(&Case{Gen: "raw-bytes-cli", Mode: "cli", Src: raw})
	}
}

func c08Judge(c *Ctx, cs *Case) {
	c.Begin(cs)
	if cs.Mode == "cli" {
		c08CLI(c, cs)
		return
	}
	if frontJudge(c, cs, false) {
		c.Nontrivial(cs.Src)
	}
	if !strings.HasPrefix(cs.Gen, "deep") {
		c.Sample(cs.Gen, cs.Src)
	}
}

// c08CLI: the same classification through the real binary: exit 65 on
// rejection with nothing on stdout.
func c08CLI(c *Ctx, cs *Case) {
	src := string([]rune(cs.Src)) // what main.run sees after []rune(string(bytes))
	v := FrontOracle(src)
	o := RunCLI(CLIOpts{Bin: c.Bin, Src: cs.Src, Dir: c.Scratch})
	c.Count("cli_runs", 1)
	if o.TimedOut {
		c.Inconclusive("CLI watchdog")
		return
	}
	if o.Exit == 2 || strings.Contains(o.Stderr, "panic:") || strings.Contains(o.Stderr, "fatal error:") {
		c.Violate(Violation{Why: "front end died abnormally in the CLI", Observed: describeObs(o), Signature: "cli-abnormal: " + firstPanicLine(o.Stderr)})
		return
	}
	if v.OOD != "" {
		c.Count("skipped_out_of_domain", 1)
		return
	}
	rejected := !v.Accept || len(v.LexErrs) > 0
	if rejected {
		if o.Exit != 65 || o.Stdout != "" || len(ParseDiags(o.Stderr)) == 0 {
			c.Violate(Violation{Why: "rejected text: expected exit 65, empty stdout and a diagnostic", Observed: describeObs(o), Signature: "cli-reject"})
			return
		}
		diags := ParseDiags(o.Stderr)
		for _, d := range diags {
			if d.Line < 1 || d.Line > v.Lines {
				c.Violate(Violation{Why: fmt.Sprintf("diagnostic names line %d, the text has %d line(s)", d.Line, v.Lines), Observed: describeObs(o), Signature: "cli-diag-line-outside"})
				return
			}
		}
		if len(v.LexErrs) == 0 && !containsInt(v.OKLines, diags[0].Line) {
			t := v.Toks[v.FailTok]
			c.Violate(Violation{Why: fmt.Sprintf("first diagnostic names line %d; the text stops being a valid beginning at token #%d %s %q on line %v", diags[0].Line, v.FailTok, t.Kind, t.Lexeme, v.OKLines), Observed: describeObs(o), Signature: "cli-syntax-diag-line"})
			return
		}
		c.Count("cli_rejected_clean", 1)
	} else if o.Exit == 65 || len(ParseDiags(o.Stderr)) > 0 && ParseDiags(o.Stderr)[0].Channel != "runtime" {
		c.Violate(Violation{Why: "valid text rejected by the CLI (status 65 or a static diagnostic)", Observed: describeObs(o), Signature: "cli-false-reject"})
		return
	}
	c.Nontrivial("cli|" + cs.Src)
}

func init() {
	register(&CheckDef{
		ID:   "C08",
		Rule: "texts: every token sequence of length <=3 (quick) / <=4 (thorough) over a 40-token alphabet (one representative per operator level, literal kind, bracket, separator, keyword, a built-in name) and <=5/<=6 over a 14-token core alphabet, rendered one token per line; every string of <=3/<=4 lexical fragments; every prefix of every corpus program (shipped examples + hand-written programs) alone and extended by every alphabet token; every declaration / statement form in every single-statement slot (if arms, else-if chains, loop bodies; at top level, in a function, block and loop); reserved names in every declaring and non-declaring position; 0..300 parameters; printing prefixes followed by one error (in-process and through the binary); random fragment soup and token-mutated programs; nests 2000/10000 deep, complete and truncated; raw invalid-UTF-8/NUL/BOM inputs through the binary; programs surrounded by blank lines / blanks and by characters that only look like blanks at the very start or end of the file, through the binary with the diagnostic's line checked. Oracle: spec lexer + Earley recogniser over the published grammar (membership and first non-viable token) + side conditions; monitors: panic/step-budget (totality), evaluation-step counter and stdout (nothing runs), diagnostic lines. Non-trivial = distinct text that was decided (not out of domain).",
		Assumptions: []string{"the grammar-as-data in harness/ref/earley.go transcribes grammer.txt with the amendments C08 states", "texts with a ধরি declaration spanning a line break, a trailing comma in an object literal as only departure, or the identifier `input` are out of domain (skipped, counted)"},
		Run:         c08Run,
		Judge:       c08Judge,
		MustCount: func(c *Ctx) []string {
			return []string{"accepted", "rejected_syntax", "rejected_lexical", "rejected_assign_target", "gen:nothing-runs", "gen:deep-nest", "gen:param-limit", "gen:reserved-names", "gen:assignment-targets", "gen:literal-forms", "gen:code-point-classes", "gen:statement-positions", "gen:separators", "gen:underscore-names", "gen:plausible-words", "gen:valid-but-failing-cli", "gen:file-edges-cli", "gen:long-lines-cli", "gen:many-constructs", "cli_rejected_clean", "gen:prefix-extension"}
		},
	})
}
