package main

import (
	"fmt"
	"sort"
	"strings"
	"unicode"

	"github.com/ah-naf/borno/token"

	"verifharness/ref"
)

// C09 — tokens are a faithful maximal-munch partition with true lines.

var c09Alphabet = []string{
	"(", ")", "{", "}", "[", "]", ",", ".", "-", "+", ";", ":", "/", "*", "&", "|", "^", "~", "%", "!", "=", "<", ">",
	"1", "৭", "a", "ক", "়", "্", "́", "_", "\"",
	"\n", " ", "\t", "\r",
	"@", "#", "\\", " ", "‌", "‍", "\x00", "�", "$",
}

func lexJudge(c *Ctx, cs *Case) bool {
	src := cs.Src
	runes := []rune(src)
	spec, serrs := ref.Lex(runes)
	o := RunLib(src, RunOpts{LexOnly: true, KeepToks: true})
	if CheckAbnormal(c, o) {
		return false
	}
	if d := diffTokens(o.Tokens, spec); d != "" {
		c.Violate(Violation{Why: "token list differs from the specification lexer: " + d, Expected: descToks(spec), Observed: descImplToks(o.Tokens), Signature: "tokens:" + sigHead(d)})
		return false
	}
	if d := partitionInvariant(runes, o.Tokens, spec); d != "" {
		c.Violate(Violation{Why: "partition invariant: " + d, Observed: descImplToks(o.Tokens), Signature: "partition"})
		return false
	}
	// lexical diagnostics
	diags := ParseDiags(o.Stderr)
	if len(diags) != len(serrs) {
		c.Violate(Violation{Why: fmt.Sprintf("%d lexical diagnostic(s), the text has %d lexical error(s) (stray characters, unterminated strings/comments, out-of-range literals)", len(diags), len(serrs)), Observed: describeObs(o), Signature: "lexdiag-count"})
		return false
	}
	used := make([]bool, len(diags))
	for _, e := range serrs {
		found := false
		for i, d := range diags {
			if used[i] || d.Channel != "static" {
				continue
			}
			if d.Line >= e.Line && d.Line <= e.EndLine {
				used[i] = true
				found = true
				break
			}
		}
		if !found {
			c.Violate(Violation{Why: fmt.Sprintf("no diagnostic names a line of the %s error on line %d..%d", e.Kind, e.Line, e.EndLine), Observed: describeObs(o), Signature: "lexdiag-line:" + e.Kind})
			return false
		}
	}
	if (len(serrs) > 0) != (o.Exit == 65) {
		c.Violate(Violation{Why: "error flag after lexing does not match the presence of lexical errors", Observed: describeObs(o), Signature: "lexflag"})
		return false
	}
	if o.Stdout != "" {
		c.Violate(Violation{Why: "lexing wrote to stdout", Observed: describeObs(o), Signature: "lex-stdout"})
		return false
	}
	for _, t := range spec {
		c.Count("tok:"+t.Kind, 1)
	}
	for _, e := range serrs {
		c.Count("lexerr:"+e.Kind, 1)
	}
	return true
}

func sigHead(d string) string {
	if i := strings.Index(d, ":"); i > 0 {
		d = d[i+1:]
	}
	f := strings.Fields(d)
	if len(f) > 2 {
		f = f[:2]
	}
	return strings.Join(f, " ")
}

func descToks(ts []ref.Token) string {
	var b strings.Builder
	for i, t := range ts {
		if i > 30 {
			b.WriteString("…")
			break
		}
		fmt.Fprintf(&b, "%s%q@%d ", t.Kind, t.Lexeme, t.Line)
	}
	return b.String()
}

func descImplToks(ts []token.Token) string {
	var b strings.Builder
	for i, t := range ts {
		if i > 30 {
			b.WriteString("…")
			break
		}
		fmt.Fprintf(&b, "%s%q@%d ", implKind[t.Type], t.Lexeme, t.Line)
	}
	return b.String()
}

// partitionInvariant: using the offsets at which the spec lexer found each
// token, every lexeme must be exactly that piece of the source, pieces must be
// in order and non-overlapping, and each line must equal 1 + the number of
// newlines in the source before the lexeme's last character (computed from
// the text, not from either lexer's line counter).
func partitionInvariant(src []rune, toks []token.Token, spec []ref.Token) string {
	prevEnd := 0
	nl := make([]int, len(src)+1) // nl[i] = newlines in src[:i]
	for i, r := range src {
		nl[i+1] = nl[i]
		if r == '\n' {
			nl[i+1]++
		}
	}
	for i, t := range toks {
		if i >= len(spec) {
			break
		}
		sp := spec[i]
		if t.Type == token.EOF {
			if t.Line != 1+nl[len(src)] {
				return fmt.Sprintf("end-of-input token carries line %d, the text has %d line(s)", t.Line, 1+nl[len(src)])
			}
			break
		}
		if sp.Start < prevEnd || sp.End > len(src) || string(src[sp.Start:sp.End]) != t.Lexeme {
			return fmt.Sprintf("lexeme %q of token %d is not the source piece [%d,%d)", t.Lexeme, i, sp.Start, sp.End)
		}
		if want := 1 + nl[sp.End-1]; t.Line != want {
			return fmt.Sprintf("token %d %q carries line %d; 1 + newlines before its last character is %d", i, t.Lexeme, t.Line, want)
		}
		prevEnd = sp.End
	}
	return ""
}

func c09Run(c *Ctx) {
	A := c09Alphabet
	maxLen := c.N(3, 4)
	// 1. every string of <= maxLen fragments
	var rec func(prefix string, depth int)
	rec = func(prefix string, depth int) {
		if depth > 0 {
			if c.Mine() {
				cs := &Case{Gen: fmt.Sprintf("frag%d", depth), Src: prefix}
				c09Judge(c, cs)
			}
		}
		if depth == maxLen {
			return
		}
		for _, f := range A {
			rec(prefix+f, depth+1)
		}
	}
	rec("", 0)
	// 2. every Unicode scalar value alone and in contexts
	forms := []string{"%s", "a%sa", "1%s1", "\"%s\""}
	if c.Quick() {
		forms = forms[:2]
	}
	for r := rune(0); r <= unicode.MaxRune; r++ {
		if r >= 0xD800 && r <= 0xDFFF {
			continue
		}
		for fi, f := range forms {
			if !c.Mine() {
				continue
			}
			cs := &Case{Gen: fmt.Sprintf("codepoint-form%d", fi), Src: fmt.Sprintf(f, string(r))}
			c09Judge(c, cs)
		}
	}
	// 2b. every operator-leading character followed by every code point (thorough), or by every code
	// point whose low byte is an operator's second character (quick): a two-character operator is
	// recognised only when the second character really is that character
	opFirst := []string{"=", "!", "<", ">", "*", "/", "|", "&"}
	lowBytes := map[rune]bool{0x3d: true, 0x3c: true, 0x3e: true, 0x2a: true, 0x2f: true, 0x7c: true, 0x26: true}
	for r := rune(0x80); r <= unicode.MaxRune; r++ {
		if r >= 0xD800 && r <= 0xDFFF {
			continue
		}
		if c.Quick() && !lowBytes[r&0xff] {
			continue
		}
		for _, op := range opFirst {
			if !c.Mine() {
				continue
			}
			c09Judge(c, &Case{Gen: "operator-then-codepoint", Src: "x " + op + string(r) + " y\nz"})
		}
	}
	// 2c. number literals by magnitude and shape
	for _, lit := range []string{"9223372036854775807", "9223372036854775808", "9223372036854775809", "18446744073709551615", "18446744073709551616", "99999999999999999999", "\u09ef\u09e8\u09e8\u09e9\u09e9\u09ed\u09e8\u09e6\u09e9\u09ec\u09ee\u09eb\u09ea\u09ed\u09ed\u09eb\u09ee\u09e6\u09ee",
		"123456789012345678901234567890", "1" + strings.Repeat("0", 308), "1" + strings.Repeat("0", 309), "9223372036854775808.5", "0." + strings.Repeat("0", 330) + "1", strings.Repeat("0", 400) + "7", "00.50", "4294967296", "4503599627370497", "9007199254740993"} {
		for _, form := range []string{"%s", "x = %s;", "%s %s", "%s.%s", "a%s", "-%s"} {
			if !c.Mine() {
				continue
			}
			c09Judge(c, &Case{Gen: "number-shapes", Src: strings.ReplaceAll(form, "%s", lit)})
		}
	}
	// 2c2. only U+000A counts as a line break, also inside strings and comments; a stray character followed by any code point
	for _, ch := range []string{"\u2028", "\u2029", "\u0085", "\v", "\f", "\r"} {
		for _, form := range []string{"\"a%sb\" x\ny", "/* a%sb */ x\ny", "// a%sb\nx\ny", "\"%s%s\n%s\" x /* %s\n%s */ y\nz", "a %s b\nc"} {
			if c.Mine() {
				c09Judge(c, &Case{Gen: "line-separators", Src: strings.ReplaceAll(form, "%s", ch)})
			}
		}
	}
	for _, stray := range []string{"@", "#", "\u26a0", "\u2764", "\u00a9", "$", "?"} {
		for _, r := range []rune{0xfe0f, 0xfe0e, 0x200d, 0x200c, 0x301, 0x9bc, 0x9cd, 0x9be, 0x20e3, 0xe0100, 0x5f, 0x31, 0x9e7, 0x61, 0x995} {
			for _, form := range []string{"x = %s%cy;", "%s%c", "%s%c%c z", "a %s %cb"} {
				src := strings.ReplaceAll(strings.ReplaceAll(form, "%s", stray), "%c", string(r))
				if c.Mine() {
					c09Judge(c, &Case{Gen: "stray-then-codepoint", Src: src})
				}
			}
		}
	}
	// 2d. sizes: texts with hundreds of characters that start no token (one per line, many per line, in
	// between tokens), very long string literals (one line and many lines), very long identifiers, comments and digit runs
	for _, n := range []int{1, 99, 100, 101, 150, 400, 2000} {
		for _, shape := range []string{"@\n", "@ ", "x @ y\n", "\u201chi\u201d\n", "# $ ? \\\n"} {
			if c.Mine() {
				c09Judge(c, &Case{Gen: "sizes", Src: strings.Repeat(shape, n)})
			}
		}
	}
	// hundreds of thousands of *distinct* words in one text, each followed by its repetition later on: every lexeme is
	// the piece of text it was scanned from (whatever table, pool or cache the scanner keeps must not confuse two words)
	for vi, nw := range []int{c.N(300000, 1500000), c.N(300000, 1500000)} {
		var b strings.Builder
		// pseudo-random spellings of 6-12 characters (short systematic ones happen to be collision-free under common 32-bit hashes)
		wr := c.Rand(fmt.Sprint("words", vi))
		alpha := []rune("abcdefghijklmnopqrstuvwxyz_0123456789")
		if vi == 1 {
			alpha = []rune("\u0995\u0996\u0997\u0998\u099a\u099b\u099c\u099f\u09a4\u09a6\u09a8\u09aa\u09ac\u09ae\u09b0\u09b2\u09b8\u09b9\u09be\u09bf\u09c0\u09c1\u09c7\u09cb\u09cd_\u09e7\u09e8")
		}
		words := make([]string, nw)
		for i := range words {
			w := make([]rune, 6+wr.Intn(7))
			for j := range w {
				w[j] = alpha[wr.Intn(len(alpha))]
			}
			if vi == 0 && w[0] >= '0' && w[0] <= '9' || vi == 1 && (w[0] >= 0x09be && w[0] <= 0x09cd || w[0] >= 0x09e6) {
				w[0] = alpha[0]
			}
			words[i] = string(w)
		}
		word := func(i int) string { return words[i] }
		for i := 0; i < nw; i++ {
			b.WriteString(word(i))
			if i%12 == 11 {
				b.WriteString("\n")
			} else {
				b.WriteString(" ")
			}
		}
		for i := nw - 1; i >= 0; i -= 7 {
			b.WriteString(word(i) + ";")
		}
		if c.Mine() {
			c09Judge(c, &Case{Gen: "sizes", Src: b.String(), X: map[string]string{"distinct_words": fmt.Sprint(nw)}})
		}
	}
	for _, n := range []int{1022, 1023, 1024, 1025, 4096, 5000, 20000, 70000} {
		for _, src := range []string{
			"a = \"" + strings.Repeat("s", n) + "\"; b", "\"" + strings.Repeat("line\n", n/5) + "\" x", "\"" + strings.Repeat("\u0995\u09a5\u09be ", n/4) + "\"\n\"next\"", "\"" + strings.Repeat("q", n), // the last one is unterminated
			strings.Repeat("i", n) + " = 1;", "1 /* " + strings.Repeat("c", n) + " */ 2", "// " + strings.Repeat("c", n) + "\nx", strings.Repeat("7", n) + " + " + strings.Repeat("\u09ed", n/3) + "." + strings.Repeat("5", n/2),
		} {
			if c.Mine() {
				c09Judge(c, &Case{Gen: "sizes", Src: src})
			}
		}
	}
	// 3. keywords +- one code point must be identifiers; exact keywords are keywords
	var kws []string
	for k := range ref.Keywords {
		kws = append(kws, k)
	}
	sort.Strings(kws)
	extra := []string{"a", "ক", "_", "1", "১", "়", "্"}
	for _, k := range kws {
		kr := []rune(k)
		variants := []string{k, k + " " + k, k + "\n" + k}
		for _, x := range extra {
			variants = append(variants, k+x, x+k)
		}
		for i := range kr {
			variants = append(variants, string(kr[:i])+string(kr[i+1:]))          // one code point dropped
			variants = append(variants, string(kr[:i])+"়"+string(kr[i:]))   // nukta inserted
			variants = append(variants, string(kr[:i])+string(kr[i]+1)+string(kr[i+1:])) // neighbouring code point
		}
		// canonically equivalent respellings must NOT be keywords unless identical
		variants = append(variants, strings.ReplaceAll(k, "\u09df", "\u09af\u09bc"), strings.ReplaceAll(k, "\u09cb", "\u09c7\u09be"))
		for _, v := range variants {
			if !c.Mine() {
				continue
			}
			cs := &Case{Gen: "keyword-variants", Src: v + ";"}
			c09Judge(c, cs)
		}
	}
	// 3'. words that merely look reserved are identifiers: alone, next to keywords, glued to operators
	for _, w := range plausibleWords {
		for _, v := range []string{w, w + ";", w + " " + w, kws[len(w)%len(kws)] + " " + w + " = 1;", "(" + w + ")", w + "." + w, w + "\n" + w, "!" + w + "==" + w} {
			if c.Mine() {
				c09Judge(c, &Case{Gen: "plausible-words", Src: v})
			}
		}
	}
	// 4. random long texts mixing multi-line strings and comments
	r := c.Rand("long")
	n := c.N(15000, 2000000)
	pieces := append([]string{}, A...)
	pieces = append(pieces, "/*/ x */", "/***/", "/**/", "/* * / */", "/*//*/", "//*", "/*\n*/", "/* \" */", "\"/*\"", "//", "/*", "*/", "\"x\ny\"", "/* c\nc */", "// c\n", "abc", "12.5", "১২.৩", "==", "!=", "<=", ">=", "<<", ">>", "**", "&&", "||", "1.", ".5", "1..2", "a.b", "\n\n")
	pieces = append(pieces, kws...)
	pieces = append(pieces, plausibleWords[:40]...)
	for k := 0; k < n; k++ {
		var b strings.Builder
		m := 2 + r.Intn(40)
		for j := 0; j < m; j++ {
			b.WriteString(pieces[r.Intn(len(pieces))])
			if r.Intn(3) == 0 {
				b.WriteByte(' ')
			}
		}
		if !c.Mine() {
			continue
		}
		cs := &Case{Gen: "random-long", Src: b.String()}
		c09Judge(c, cs)
	}
}

func c09Judge(c *Ctx, cs *Case) {
	c.Begin(cs)
	if lexJudge(c, cs) {
		toks, errs := ref.Lex([]rune(cs.Src))
		if len(toks) > 2 || len(errs) > 0 {
			c.Nontrivial(cs.Src)
		}
		if strings.HasPrefix(cs.Gen, "frag") || cs.Gen == "random-long" || cs.Gen == "keyword-variants" || cs.Gen == "plausible-words" {
			c.Sample(cs.Gen, cs.Src)
		}
	}
}

func init() {
	register(&CheckDef{
		ID:   "C09",
		Rule: "texts: every string of <=3 (quick) / <=4 (thorough) fragments over a 45-fragment lexical alphabet (every operator character, both digit scripts, Latin and Bangla letters, combining marks, _, quote, blanks, newline, non-language characters); every Unicode scalar value alone and embedded in an identifier (thorough: also in a number and a string); each keyword +- one code point and its canonically equivalent respelling; seeded random long texts mixing multi-line strings and comments. Each ScanTokens result is compared with the spec lexer (type, lexeme, literal, line, single EOF), with a partition invariant computed from the source text, and its diagnostics with the spec lexer's error list. Non-trivial = distinct text with at least two real tokens or a lexical error.",
		Assumptions: []string{"Go's unicode.IsLetter/IsMark tables define 'letter' and 'combining mark' for both the implementation and the oracle", "a diagnostic for an unterminated string/comment may name any line from its opening to the end of input"},
		Run:         c09Run,
		Judge:       c09Judge,
		MustCount:   func(c *Ctx) []string { return []string{"gen:frag3", "gen:codepoint-form0", "gen:keyword-variants", "gen:plausible-words", "gen:operator-then-codepoint", "gen:number-shapes", "gen:line-separators", "gen:stray-then-codepoint", "gen:sizes", "gen:random-long", "lexerr:char", "lexerr:string", "lexerr:comment", "tok:STRING", "tok:NUMBER", "tok:else", "tok:continue"} },
		Exhaustive:  func(string) bool { return false },
	})
}
