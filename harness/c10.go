package main

import (
	"fmt"
	"math"
	"math/big"
	"strings"
	"unicode"

	"github.com/ah-naf/borno/token"
	"github.com/ah-naf/borno/utils"

	"verifharness/ref"
)

// C10 — numeric literals are correctly rounded in either digit script.

var (
	ratTwo1024 = new(big.Rat).SetInt(new(big.Int).Lsh(big.NewInt(1), 1024))
	ratHalfTop = new(big.Rat).SetInt(new(big.Int).Lsh(big.NewInt(1), 970))
)

func ratOf(f float64) *big.Rat {
	if math.IsInf(f, 1) {
		return ratTwo1024
	}
	r := new(big.Rat)
	r.SetFloat64(f)
	return r
}

// correctlyRounded: is d the double nearest (ties to even) to the exact
// decimal value of the ASCII literal?  Pure big-rational arithmetic.
func correctlyRounded(ascii string, d float64) (bool, string) {
	x, ok := new(big.Rat).SetString(ascii)
	if !ok {
		return false, "oracle cannot read literal"
	}
	if math.IsNaN(d) || math.IsInf(d, 0) || d < 0 {
		return false, fmt.Sprintf("literal value %v is not a finite non-negative double", d)
	}
	lo := math.Nextafter(d, math.Inf(-1))
	hi := math.Nextafter(d, math.Inf(1))
	dist := func(a *big.Rat) *big.Rat {
		t := new(big.Rat).Sub(x, a)
		return t.Abs(t)
	}
	dd, dl, dh := dist(ratOf(d)), dist(ratOf(lo)), dist(ratOf(hi))
	even := math.Float64bits(d)&1 == 0
	for _, o := range []*big.Rat{dl, dh} {
		switch dd.Cmp(o) {
		case 1:
			return false, fmt.Sprintf("%v is not the nearest double (a neighbour is closer)", d)
		case 0:
			if !even {
				return false, fmt.Sprintf("%v is a tie broken away from the even mantissa", d)
			}
		}
	}
	return true, ""
}

func overflows(ascii string) bool {
	x, ok := new(big.Rat).SetString(ascii)
	if !ok {
		return false
	}
	thr := new(big.Rat).Sub(ratTwo1024, ratHalfTop)
	return x.Cmp(thr) >= 0
}

func c10Literal(c *Ctx, cs *Case) bool {
	lit := cs.Src
	ascii := ref.ToASCIIDigits(lit)
	o := RunLib(lit, RunOpts{LexOnly: true, KeepToks: true})
	if CheckAbnormal(c, o) {
		return false
	}
	if overflows(ascii) {
		c.Count("overflow_literals", 1)
		for _, t := range o.Tokens {
			if t.Type == token.NUMBER {
				c.Violate(Violation{Why: "a literal beyond the double range still produced a NUMBER token", Observed: descImplToks(o.Tokens), Signature: "overflow-token"})
				return false
			}
		}
		if len(ParseDiags(o.Stderr)) == 0 || o.Exit != 65 {
			c.Violate(Violation{Why: "a literal beyond the double range was not rejected with a diagnostic", Observed: describeObs(o), Signature: "overflow-silent"})
			return false
		}
		return true
	}
	if len(o.Tokens) != 2 || o.Tokens[0].Type != token.NUMBER || o.Tokens[0].Lexeme != lit || o.Stderr != "" {
		c.Violate(Violation{Why: "a digit literal did not lex to exactly one NUMBER token spanning it", Observed: descImplToks(o.Tokens) + " stderr=" + o.Stderr, Signature: "literal-shape"})
		return false
	}
	v, ok := litNum(o.Tokens[0].Literal)
	if !ok {
		c.Violate(Violation{Why: "NUMBER token carries no numeric literal value", Observed: fmt.Sprintf("%T", o.Tokens[0].Literal), Signature: "literal-type"})
		return false
	}
	if good, why := correctlyRounded(ascii, v); !good {
		c.Violate(Violation{Why: "literal " + trunc(lit, 60) + ": " + why, Observed: fmt.Sprintf("%v (bits %x)", v, math.Float64bits(v)), Signature: "misrounded"})
		return false
	}
	// every respelling in the other script / a mixture denotes the same value
	for _, alt := range cs.Alt {
		o2 := RunLib(alt, RunOpts{LexOnly: true, KeepToks: true})
		if CheckAbnormal(c, o2) {
			return false
		}
		if len(o2.Tokens) != 2 || o2.Tokens[0].Type != token.NUMBER {
			c.Violate(Violation{Why: "respelled literal " + trunc(alt, 60) + " did not lex to one NUMBER", Observed: descImplToks(o2.Tokens), Signature: "respell-shape"})
			return false
		}
		v2, _ := litNum(o2.Tokens[0].Literal)
		if math.Float64bits(v2) != math.Float64bits(v) {
			c.Violate(Violation{Why: fmt.Sprintf("respelling %s denotes %v, %s denotes %v", trunc(alt, 40), v2, trunc(lit, 40), v), Signature: "respell-value"})
			return false
		}
		c.Count("respellings", 1)
	}
	return true
}

func isBnDigit(r rune) bool { return r >= 0x09E6 && r <= 0x09EF }

func c10CodePoint(c *Ctx, cs *Case) bool {
	r := []rune(cs.Src)[0]
	got := utils.ConvertBanglaDigitsToASCII(string(r))
	want := string(r)
	if isBnDigit(r) {
		want = string(rune('0' + (r - 0x09E6)))
	}
	if got != want {
		c.Violate(Violation{Why: fmt.Sprintf("transliteration of U+%04X gives %q, expected %q", r, got, want), Signature: "translit"})
		return false
	}
	o := RunLib(cs.Src, RunOpts{LexOnly: true, KeepToks: true})
	if CheckAbnormal(c, o) {
		return false
	}
	isNum := len(o.Tokens) == 2 && o.Tokens[0].Type == token.NUMBER
	wantNum := (r >= '0' && r <= '9') || isBnDigit(r)
	if isNum != wantNum {
		c.Violate(Violation{Why: fmt.Sprintf("U+%04X classified as digit=%v, expected %v", r, isNum, wantNum), Observed: descImplToks(o.Tokens), Signature: "digit-class"})
		return false
	}
	if wantNum {
		v, _ := litNum(o.Tokens[0].Literal)
		d := float64(r - '0')
		if isBnDigit(r) {
			d = float64(r - 0x09E6)
		}
		if v != d {
			c.Violate(Violation{Why: fmt.Sprintf("digit U+%04X denotes %v, expected %v", r, v, d), Signature: "digit-value"})
			return false
		}
		c.Count("digit_codepoints", 1)
	}
	if unicode.IsDigit(r) && !wantNum {
		c.Count("foreign_digit_codepoints_rejected", 1)
	}
	return true
}

func c10Shape(c *Ctx, cs *Case) bool {
	// forms around the decimal point, judged against the spec lexer
	return lexJudge(c, cs)
}

func mask(lit string, m uint64) string {
	var b strings.Builder
	i := 0
	for _, ch := range lit {
		if ch >= '0' && ch <= '9' {
			if m>>(uint(i)%64)&1 == 1 {
				b.WriteRune(0x09E6 + (ch - '0'))
			} else {
				b.WriteRune(ch)
			}
			i++
		} else {
			b.WriteRune(ch)
		}
	}
	return b.String()
}

func exactDecimal(r *big.Rat) string {
	// r is a dyadic rational: finite decimal expansion
	den := r.Denom()
	n := den.BitLen() - 1 // den = 2^n
	s := r.FloatString(n)
	if strings.Contains(s, ".") {
		s = strings.TrimRight(s, "0")
		s = strings.TrimSuffix(s, ".")
	}
	return s
}

func bumpLast(s string, up bool) string {
	b := []byte(s)
	for i := len(b) - 1; i >= 0; i-- {
		if b[i] == '.' {
			continue
		}
		if up {
			if b[i] == '9' {
				b[i] = '0'
				continue
			}
			b[i]++
			return string(b)
		}
		if b[i] == '0' {
			b[i] = '9'
			continue
		}
		b[i]--
		return string(b)
	}
	if up {
		return "1" + string(b)
	}
	return string(b)
}

func c10Run(c *Ctx) {
	// 1. exhaustive: every Unicode scalar value
	for r := rune(0); r <= unicode.MaxRune; r++ {
		if r >= 0xD800 && r <= 0xDFFF {
			continue
		}
		if !c.Mine() {
			continue
		}
		cs := &Case{Gen: "codepoint", Src: string(r)}
		c10Judge(c, cs)
	}
	// 2. every digit string of length <= 4 (ASCII), each split, with the all-Bangla
	//    respelling and (length <= 3) every script mixture
	for n := 1; n <= 4; n++ {
		total := 1
		for i := 0; i < n; i++ {
			total *= 10
		}
		for v := 0; v < total; v++ {
			digits := fmt.Sprintf("%0*d", n, v)
			for split := 1; split <= n; split++ {
				if !c.Mine() {
					continue
				}
				lit := digits[:split]
				if split < n {
					lit += "." + digits[split:]
				}
				cs := &Case{Gen: fmt.Sprintf("digits%d", n), Src: lit}
				cs.Alt = append(cs.Alt, mask(lit, ^uint64(0)))
				if n <= 3 {
					for m := uint64(1); m < (1<<uint(n))-1; m++ {
						cs.Alt = append(cs.Alt, mask(lit, m))
					}
				}
				c10Judge(c, cs)
			}
		}
	}
	// 3. shapes around the decimal point
	for _, s := range []string{"1.", "1.x", "1.৫", "১.5", ".5", "1..2", "1.2.3", "1.a", "৭.", "৭.ক", "1 .5", "1. 5", "1.\n5", "12.50", "007", "০০৭.০", "1._", "1.e5", "1e5", "0x10", "1_000"} {
		if !c.Mine() {
			continue
		}
		cs := &Case{Gen: "point-shapes", Src: s}
		c10Judge(c, cs)
	}
	// 4. random literals: midpoints, subnormals, overflow threshold, long tails
	r := c.Rand("literals")
	n := c.N(40000, 6000000)
	for k := 0; k < n; k++ {
		var lit string
		kind := ""
		switch r.Intn(6) {
		case 0, 1: // exact midpoint between adjacent doubles, and +- one unit in the last place
			e := 1023 - 300 + r.Intn(600)
			d := math.Float64frombits(uint64(e)<<52 | (r.U64() & 0x000fffffffffffff))
			mid := new(big.Rat).Add(ratOf(d), ratOf(math.Nextafter(d, math.Inf(1))))
			mid.Quo(mid, big.NewRat(2, 1))
			lit = exactDecimal(mid)
			kind = "midpoint"
			switch r.Intn(3) {
			case 1:
				lit = bumpLast(lit, true)
				kind = "midpoint+1"
			case 2:
				lit = bumpLast(lit, false)
				kind = "midpoint-1"
			}
		case 2: // subnormal range
			z := 300 + r.Intn(30)
			lit = "0." + strings.Repeat("0", z) + randDigits(r, 1+r.Intn(30))
			kind = "subnormal"
		case 3: // around the overflow threshold
			thr := new(big.Int).Sub(new(big.Int).Lsh(big.NewInt(1), 1024), new(big.Int).Lsh(big.NewInt(1), 970))
			base := thr.String() // MaxFloat64 + half an ulp: the first literal that must be rejected
			switch r.Intn(7) {
			case 0:
				lit = base
			case 1:
				lit = bumpLast(base, true)
			case 2:
				lit = bumpLast(base, false)
			case 3:
				lit = new(big.Int).Lsh(big.NewInt(1), 1024).String()
			case 4:
				lit = ratOf(math.MaxFloat64).Num().String()
			case 5:
				lit = base[:16+r.Intn(20)] + randDigits(r, 0)
				lit = lit + randDigits(r, len(base)-len(lit))
			default:
				lit = "1797693134862315" + randDigits(r, 293)
			}
			if r.Bool() {
				lit += "." + randDigits(r, 1+r.Intn(5))
			}
			kind = "overflow-threshold"
		case 4: // 15-17 significant digits
			lit = randDigits(r, 1+r.Intn(17))
			if r.Bool() {
				lit += "." + randDigits(r, 1+r.Intn(17))
			}
			kind = "short"
		default: // long
			lit = randDigits(r, 1+r.Intn(200)) + "." + randDigits(r, 1+r.Intn(200))
			kind = "long"
		}
		m := r.U64()
		if !c.Mine() {
			continue
		}
		cs := &Case{Gen: "random-" + kind, Src: lit, Alt: []string{mask(lit, m), mask(lit, ^uint64(0))}}
		c10Judge(c, cs)
	}
	// 5. read-back through the real binary: দেখাও <literal>;
	r = c.Rand("cli")
	n = c.N(1500, 60000)
	for k := 0; k < n; k++ {
		lit := randDigits(r, 1+r.Intn(18))
		if r.Bool() {
			lit += "." + randDigits(r, 1+r.Intn(18))
		}
		lit = mask(lit, r.U64())
		if !c.Mine() {
			continue
		}
		cs := &Case{Gen: "cli-readback", Mode: "cli", Src: Print(lit) + "\n"}
		c10Judge(c, cs)
	}
	// 6. end to end: a literal that is rejected rejects the program wherever it stands, also where
	// the remaining tokens would form a program on their own; a literal is only digits and one point,
	// so any other code point between digits ends it (through the whole pipeline and the binary)
	huge := "1" + strings.Repeat("0", 309)
	lits := []string{huge, BanglaDigits(huge, nil), mask(huge, 0x5555555555555555), "2" + strings.Repeat("9", 400) + ".5", strings.Repeat("\u09ef", 310)}
	for _, cp := range []rune{0x200c, 0x200d, 0x200b, 0x2060, 0xfeff, 0xad, 0xa0, 0x200e, 0x202f, 0x2009, 0x61c, 0x34f, 0x180e, 0x9bc, 0x9cd, 0x981, 0x301, 0x5f, 0x27, 0x2c, 0x660, 0x966, 0xff11, 0x2024, 0xb7, 0x9f4, 0x9e5} {
		for _, sh := range []string{"1%s2", "\u09e7%s\u09e8\u09e6", "1.%s5", "1%s.5", "\u09e9.%s\u09e7\u09ea", "12%s", "%s12"} {
			lits = append(lits, fmt.Sprintf(sh, string(cp)))
		}
	}
	forms := []string{Print("%s"), Var("v", "%s") + " " + Print("v * 20"), Print(`"a"`) + "\n" + Print(BI("len", "[%s]")), Fun("f", "", " "+Ret("%s")+" ") + "\n" + Print(`"b"`) + "\n" + Print("f()"),
		Fun("g", "", " "+Print(`"in g"`)+" ") + "\n" + "g(%s);", "[%s];", Print("[1, 2][%s]"), Print(`"c"`) + "\n" + K["var"] + " w = [%s], z = 2; " + Print("z")}
	for _, lit := range lits {
		for _, form := range forms {
			src := strings.ReplaceAll(form, "%s", lit) + "\n"
			if c.Mine() {
				c10Judge(c, &Case{Gen: "end-to-end", Src: src})
			}
			if c.Mine() {
				c10Judge(c, &Case{Gen: "end-to-end-cli", Mode: "cli", Src: src})
			}
		}
	}
	// 7. a literal denotes its value in every position, next to any other literal: fractional and whole
	// literals as subscripts, arguments, elements, operands; numeric literals in programs that also contain
	// text literals spelling the same number (in either order, either script)
	for _, lit := range []string{"0", "1", "2", "1.5", "0.5", "2.0", "1.0000000000000002", "0.9999999999999999", "2.5", "\u09e7.\u09eb", "\u09e8", "1.00", "0.0001", "2.9999"} {
		for _, form := range []string{Print("[10, 20, 30][%s]"), Var("a", "[10, 20, 30]") + " a[%s] = 99; " + Print("a"), Print(BI("remove", "[10, 20, 30]", "%s")), Print("1 << %s"), Print("[%s, %s + 1]"), Print(BI("abs", "%s") + " == %s"),
			Print("{k: %s}.k"), If("%s", Print(`"truthy"`)), Print(BI("max", "%s", "0.7", "0.6")), Print(BI("remove", "[10, 20, 30, 40]", "%s")), Print(BI("append", "[1]", "%s")), Print(BI("pow", "2", "%s")), Print(BI("round", "%s")), Print(BI("min", "[12.5, %s, 12.75, 12.25]")), Print(BI("max", "0.25", "%s")), Print(BI("min", "%s + 0.25", "%s")), While("%s", "{ "+Print(`"once"`)+" "+Break()+" }"), Print("!%s"), Print("%s || 7"), Print("%s && 7"), Print(`"" + %s`), Var("i", "%s") + " " + Print("[10, 20, 30][i]")} {
			src := strings.ReplaceAll(form, "%s", lit) + "\n"
			if c.Mine() {
				c10Judge(c, &Case{Gen: "end-to-end", Src: src})
			}
		}
	}
	for _, lit := range []string{"9223372036854775807", "9223372036854775808", "18446744073709551615", "18446744073709551616", "100000000000000000000", "\u09e7\u09ee\u09ea\u09ea\u09ec\u09ed\u09ea\u09ea\u09e6\u09ed\u09e9\u09ed\u09e6\u09ef\u09eb\u09eb\u09e7\u09ec\u09e7\u09eb", "4611686018427387904"} {
		for _, form := range []string{Print("%s & 255"), Print("%s | 0"), Print("~%s"), Print("1 << %s"), Print("%s >> 1"), Print("%s ^ %s"), Var("v", "%s") + " " + Print("v & 1"), Print("[1, 2][%s]"), Print(BI("max", "1", "%s")), Print(BI("min", "%s", "1")), Print(BI("max", "[%s, 2]")), If("%s", Print(`"truthy"`)), Print("!%s"), Print("%s && 1")} {
			src := Print(`"start"`) + "\n" + strings.ReplaceAll(form, "%s", lit) + "\n" + Print(`"AFTER"`) + "\n"
			if c.Mine() {
				c10Judge(c, &Case{Gen: "end-to-end", Src: src})
			}
		}
	}
	for _, lit := range []string{"500", "25", "1\u09e8.\u09eb", "\u09eb\u09e6\u09e6", "0.5", "7"} {
		for _, form := range []string{Print("/*c*/%s"), Print("/* c */%s/* d */"), Print("%s/*c*/ + /*d*/%s"), Print("/*x*/%s == /*x*/ %s"), Var("lim", "/*\u09e7\u09e6\u09e6*/%s") + " " + Print("lim"), Print("[/*a*/%s,/*b*/%s/*c*/]"), Print("1 +//c\n%s"), Print("/**/%s/**/"), Print("/***/%s"), Print("(/*c*/%s)")} {
			src := strings.ReplaceAll(form, "%s", lit) + "\n"
			if c.Mine() {
				c10Judge(c, &Case{Gen: "end-to-end", Src: src})
			}
		}
	}
	// a literal keeps its value as a divisor, a modulus or an exponent: tiny, fractional and beyond-2^53 literals
	// next to / % ** in either script (a tiny literal is not zero; 0.1 is not one tenth)
	{
		small := []string{"0.0000000001", "0.0000000005", "0.00000000025", "0.000000001", "0." + strings.Repeat("0", 300) + "1", "0." + strings.Repeat("0", 322) + "5", "0.1", "0.2", "0.3", "0.01", "0.7", "1.1", "0.5", "0.25", "3", "7", "97"}
		big := []string{"1", "2", "3", "7.5", "12.34", "1000000", "100000000000000000000", "12345678901234567890", "9007199254740993", "0.3", "5.5"}
		for _, d := range small {
			for _, n := range big {
				for _, bn := range []int{0, 1, 2} {
					dd, nn := d, n
					if bn >= 1 {
						dd = BanglaDigits(d, nil)
					}
					if bn == 2 {
						nn = BanglaDigits(n, nil)
					}
					src := Lines(Print(nn+" / "+dd), Print(nn+" % "+dd), Var("step", dd), Print(nn+" / step"), Print("(0 - "+nn+") % step"), Print("("+nn+" + step - "+nn+") / step"), Print(dd+" ** 2"), Print(dd+" == "+d))
					if c.Mine() {
						c10Judge(c, &Case{Gen: "end-to-end", Src: src})
					}
				}
			}
		}
	}
	// what was printed before the program is stopped stays printed (stray signals, faults), through the binary
	for _, stop := range []string{Ret(""), Break(), Continue(), Print("1 / 0"), Print("ghost")} {
		src := Lines(Print("12.5"), Print("1\u09e8.\u09eb"), Print("\u09e7\u09e8.5 == 12.5"), stop, Print("99"))
		if c.Mine() {
			c10Judge(c, &Case{Gen: "end-to-end-cli", Mode: "cli", Src: src})
		}
		if c.Mine() {
			c10Judge(c, &Case{Gen: "end-to-end", Src: src})
		}
	}
	// an interactive line of several thousand bytes made of literals, in either script
	for _, bangla := range []bool{false, true} {
		var nums []string
		for i := 0; i < 300; i++ {
			n := fmt.Sprint(10000 + (i*7919)%89999)
			if bangla {
				n = BanglaDigits(n, nil)
			}
			nums = append(nums, n)
		}
		frac := "0." + strings.Repeat("7155287362", 90)
		if bangla {
			frac = BanglaDigits(frac, nil)
		}
		lines := []string{Var("t", "["+strings.Join(nums, ", ")+"]") + " " + Print("t[0] + t[299]") + " " + Print(BI("len", "t")), Print(frac + " == " + frac), frac + ";", Print("1 + 1")}
		if c.Mine() {
			c10Judge(c, &Case{Gen: "repl-literals", Src: strings.Join(lines, "\n"), X: map[string]string{"final_newline": "1", "all_self": "1"}})
		}
	}
	// interactive mode: a literal is echoed after whatever the line did before it (calls that return, loops, blocks)
	{
		lines := []string{Fun("sq", "k", " "+Ret("k * k")+" ") + " sq(1.5); 12.5;", Fun("nop", "", " "+Ret("")+" ") + " nop(); \u09e7\u09e8.\u09eb; 0.5;", For(Var("i", "0"), "i < 1", "i = i + 1", "{ }") + " 2.25;", Fun("e", "", " 7; ") + " e(); 8;", "{ 1; } 2;", If(True(), "{ "+Fun("q", "", " "+Ret("1")+" ")+" q(); }") + " 3.5;"}
		if c.Mine() {
			c10Judge(c, &Case{Gen: "repl-literals", Src: strings.Join(lines, "\n"), X: map[string]string{"final_newline": "1", "all_self": "1"}})
		}
	}
	for _, pr := range [][2]string{{"10 ** 20", "100000000000000000000"}, {"2 ** 64", "18446744073709551616"}, {"2 ** 63", "9223372036854775808"}, {BI("pow", "10", "19"), "10000000000000000000"}, {"3 ** 40", "12157665459056928801"}, {"10 ** 22", "10000000000000000000000"}, {"(0 - 2) ** 63", "(0 - 9223372036854775808)"}, {"7 ** 23", "27368747340080916343"}} {
		src := Lines(Print(pr[0]+" == "+pr[1]), Print(pr[0]), Print(pr[1]), Print(BanglaDigits(pr[1], nil)+" == "+pr[0]))
		if c.Mine() {
			c10Judge(c, &Case{Gen: "end-to-end", Src: src})
		}
	}
	// interactive mode: a literal means the same on every line, whatever earlier lines did
	for _, bad := range []string{Print("nope"), "[1][5];", Print("1 / 0"), Print("1" + strings.Repeat("0", 309))} {
		lines := []string{Print("\u09ea\u09e8"), bad, Print("\u09ea\u09e8"), Print("4\u09e8.\u09eb"), Print("12 == \u09e7\u09e8"), bad, "0.1 + 0.2;", "1000000;"}
		if c.Mine() {
			c10Judge(c, &Case{Gen: "repl-literals", Src: strings.Join(lines, "\n"), X: map[string]string{"final_newline": "1", "all_self": "1"}})
		}
	}
	for _, pair := range [][2]string{{"1", `"1"`}, {"\u09e7", `"1"`}, {"2.5", `"2.5"`}, {"0", `"0"`}, {"1000000", `"1e+06"`}, {"7", `"7"`}, {"1", "\"\u09e7\""}, {"10", `"10"`}, {"0.5", `"0.5"`}} {
		n, t := pair[0], pair[1]
		for _, src := range []string{
			Lines(Var("choice", t), If("choice == "+t, Print(`"picked"`)), Var("total", "0"), "total = total + "+n+";", "total = total + "+n+";", Print("total"), Print(n+" + "+n), Print("("+n+" + "+n+") - "+n+" == "+n)),
			Lines(Print(n+" + "+n), Print(t+" + "+t), Print(n+" == "+t), Print("["+n+", "+t+", "+n+"]"), Print(n+" + "+n)),
			Lines(Fun("never", "", " "+Ret(t)+" "), Print(n+" + "+n), Print(n+" * 2 == "+n+" + "+n), Var("o", "{k: "+t+", j: "+n+"}"), Print("o.j + o.j"), Print("o.k + o.k")),
		} {
			if c.Mine() {
				c10Judge(c, &Case{Gen: "end-to-end", Src: src})
			}
			if c.Mine() {
				c10Judge(c, &Case{Gen: "end-to-end-cli", Mode: "cli", Src: src})
			}
		}
	}
}

func randDigits(r *Rng, n int) string {
	b := make([]byte, n)
	for i := range b {
		b[i] = byte('0' + r.Intn(10))
	}
	return string(b)
}

func c10Judge(c *Ctx, cs *Case) {
	if cs.Gen == "repl-literals" {
		c20Judge(c, cs)
		return
	}
	c.Begin(cs)
	ok := false
	switch {
	case cs.Gen == "codepoint":
		ok = c10CodePoint(c, cs)
	case cs.Gen == "point-shapes":
		ok = c10Shape(c, cs)
	case cs.Mode == "cli":
		m := RunModel(cs.Src, "", false, 0)
		ok = cliJudge(c, cs, m) == ""
	case cs.Gen == "end-to-end":
		v, _, _ := stdJudge(c, cs, RunOpts{}, JudgeOpts{})
		ok = v == ""
	default:
		ok = c10Literal(c, cs)
	}
	if ok && cs.Gen != "codepoint" {
		c.Nontrivial(cs.Src)
	} else if ok {
		r := []rune(cs.Src)[0]
		if unicode.IsDigit(r) || unicode.IsNumber(r) {
			c.Nontrivial(cs.Src)
		}
	}
	if cs.Gen != "codepoint" {
		c.Sample(cs.Gen, map[string]interface{}{"literal": trunc(cs.Src, 120), "respellings": len(cs.Alt)})
	}
}

func init() {
	register(&CheckDef{
		ID:   "C10",
		Rule: "exhaustive over all 1,112,064 Unicode scalar values for transliteration and digit classification (this sub-space is fully enumerated); every digit string of length <=4 with every integer/fraction split, the all-Bangla respelling and (length <=3) every script mixture; point shapes (1. 1.x .5 ...); seeded random literals of up to 400 digits: exact midpoints between adjacent doubles and midpoint +-1 in the last place, subnormals, the overflow threshold, 15-17 digit and long literals, each with two random-script respellings; each NUMBER value checked against exact big-rational nearest-even rounding; overflowing literals and digit runs interrupted by 27 invisible / combining / look-alike code points placed in 8 program positions (including ones where the remaining tokens would form a program) run through the whole pipeline in-process and through the binary against the model (status 65, nothing printed). Non-trivial = distinct literal text (code points: those Unicode classifies as digit/number).",
		Assumptions: []string{"math/big rational arithmetic is exact", "math.Nextafter gives the adjacent doubles"},
		Run:         c10Run,
		Judge:       c10Judge,
		MustCount:   func(c *Ctx) []string { return []string{"gen:codepoint", "digit_codepoints", "foreign_digit_codepoints_rejected", "gen:random-midpoint", "gen:random-subnormal", "gen:random-overflow-threshold", "overflow_literals", "respellings", "cli_runs", "gen:end-to-end", "gen:end-to-end-cli", "gen:repl-literals"} },
		Exhaustive:  func(string) bool { return false },
	})
}
