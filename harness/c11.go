package main

import (
	"fmt"
	"strings"
)

// C11 — arrays: shared references, bounds-checked, pure লেন / এড / রিমুভ.
// Every history of operations is followed, after every step, by a dump of
// every live array (and of every array ever returned by এড / রিমুভ).

type histOp struct {
	name  string
	text  string // %f = fresh unique value, %n = unique step number
	fault bool   // ends the program: only used as the last step
}

func c11Prelude() string {
	L := B["len"]
	dump := Fun("dump", "", "\n"+
		" "+Print(`"--"`)+"\n"+
		" "+Print("X")+" "+Print(L+"(X)")+"\n"+
		" "+Print("Y")+" "+Print(L+"(Y)")+"\n"+
		" "+Print("Z")+" "+Print(L+"(Z)")+"\n"+
		" "+Print("H")+" "+Print("box")+" "+Print("keep")+"\n"+
		" "+Print(L+"(X) + 0.5")+" "+Print(L+"(X) == "+L+"(Y)")+" "+Print(L+"(Z) < 2")+"\n")
	return Lines(
		Var("X", "[11, 12, 13]"), Var("Y", "[21]"), Var("Z", "[]"), Var("T", "nil"),
		Var("H", "[X, Y]"), Var("box", "{a: X, b: Z}"), Var("keep", "{}"),
		Fun("setvia", "p, i, v", " p[i] = v; "),
		Fun("grow", "p, v", " "+Ret(BI("append", "p", "v"))+" "),
		dump, "dump();")
}

func c11Ops() []histOp {
	L := func(v string) string { return BI("len", v) }
	ap := func(args ...string) string { return BI("append", args...) }
	rm := func(a, i string) string { return BI("remove", a, i) }
	keep := func(dst, e string) string { return "T = " + e + "; " + dst + " = T; keep.r%n = T;" }
	ops := []histOp{
		{"alias-Y=X", "Y = X;", false}, {"alias-Z=Y", "Z = Y;", false}, {"alias-X=Z", "X = Z;", false},
		{"literal-X", "X = [%f, %f];", false}, {"literal-Z-empty", "Z = [];", false}, {"literal-Y-4", "Y = [%f, %f, %f, %f];", false},
		{"write-X0", "X[0] = %f;", false}, {"write-Y0", "Y[0] = %f;", false}, {"write-Z0", "Z[0] = %f;", false},
		{"write-Xlast", "X[" + L("X") + " - 1] = %f;", false}, {"write-Y1", "Y[1] = %f;", false},
		{"write-via-param", "setvia(Y, 0, %f);", false}, {"write-via-box", "box.a[0] = %f;", false}, {"write-via-H", "H[0][1] = %f;", false},
		{"append-X-X", keep("X", ap("X", "%f")), false}, {"append-Y-from-X", keep("Y", ap("X", "%f")), false},
		{"append-Z-from-Y-2", keep("Z", ap("Y", "%f", "%f")), false}, {"append-Z-Z-3", keep("Z", ap("Z", "%f", "%f", "%f")), false},
		{"append-Y-Y", keep("Y", ap("Y", "%f")), false}, {"append-via-function", keep("Z", "grow(X, %f)"), false},
		{"append-array-element", keep("Y", ap("Y", "X")), false},
		{"remove-X-0", keep("X", rm("X", "0")), false}, {"remove-Y-from-X-1", keep("Y", rm("X", "1")), false},
		{"remove-Z-from-Y-last", keep("Z", rm("Y", L("Y")+" - 1")), false}, {"remove-Z-from-X-last", keep("Z", rm("X", L("X")+" - 1")), false},
		{"write-nil", "X[0] = nil;", false}, {"write-nil-variable", "T = nil; Y[0] = T; Z = [1, nil]; Z[0] = Z[1];", false}, {"write-result-of-nothing", "X[" + L("X") + " - 1] = setvia(Y, 0, %f);", false},
		{"write-signed-zeros", "X[0] = 0; X[0] = -0; Y[0] = -0; Y[0] = 0;", false}, {"write-same-value-twice", "X[0] = %f; X[0] = X[0]; Y[0] = X[0];", false},
		{"read-X0", Print("X[0]"), false}, {"read-Ylast", Print("Y[" + L("Y") + " - 1]"), false}, {"read-negzero", Print("X[-0]"), false},
		// faulting steps
		{"read-neg", Print("X[-1]"), true}, {"read-len", Print("X[" + L("X") + "]"), true}, {"read-frac", Print("X[1.5]"), true},
		{"read-near-integer", Print("X[0.3 / 0.1 - 2]"), true}, {"read-near-integer-sum", Print("X[(0.1 + 0.2) * 10 - 3]"), true}, {"read-near-integer-literal", Print("X[0.9999999999]"), true}, {"read-near-integer-above", Print("X[1.0000000001]"), true},
		{"read-str", Print(`X["x"]`), true}, {"read-str-numeric-prefix", Print(`X["0th"]`), true}, {"read-str-numeric-prefix-bn", Print("X[\"\u09e7 \u09a8\u09ae\u09cd\u09ac\u09b0\"]"), true}, {"read-nil", Print("X[nil]"), true}, {"read-bool", Print("X[" + True() + "]"), true},
		{"read-huge", Print("X[9223372036854775808]"), true}, {"read-inf", Print("X[10 ** 400]"), true},
		{"read-2^32", Print("X[4294967296]"), true}, {"read-2^32+1", Print("X[4294967297]"), true}, {"read-neg-2^32-1", Print("X[0 - 4294967295]"), true},
		{"read-2^31", Print("X[2147483648]"), true}, {"read-2^53", Print("X[9007199254740992]"), true}, {"read-1e18+1", Print("X[1000000000000000001]"), true}, {"read-2^64", Print("X[18446744073709551616]"), true},
		{"write-2^32", "X[4294967296] = %f;", true}, {"write-2^32+1", "Y[4294967296 + 0] = %f;", true}, {"write-neg-2^32", "X[0 - 4294967296] = %f;", true}, {"write-2^64+1", "X[18446744073709551617] = %f;", true},
		{"remove-2^32", "T = " + rm("X", "4294967296") + ";", true}, {"remove-2^32+1", "T = " + rm("X", "4294967297") + ";", true}, {"remove-neg-2^32", "T = " + rm("X", "0 - 4294967295") + ";", true},
		{"write-nil-high", "X[" + L("X") + "] = nil;", true}, {"write-nil-neg", "X[-1] = nil;", true}, {"write-nil-frac", "X[1.5] = nil;", true}, {"write-near-integer", "X[4.35 * 100 - 435 + 1] = 5;", true}, {"write-nil-str", `X["x"] = nil;`, true}, {"write-str-numeric-prefix", `X["1st"] = 5;`, true}, {"write-nil-nonarray", "box[0] = nil;", true},
		{"write-neg", "X[-1] = %f;", true}, {"write-len", "X[" + L("X") + "] = %f;", true}, {"write-frac", "Y[0.5] = %f;", true}, {"write-str", `Y["x0"] = %f;`, true},
		{"remove-len", "T = " + rm("X", L("X")) + ";", true}, {"remove-neg", "T = " + rm("X", "-1") + ";", true}, {"remove-frac", "T = " + rm("X", "0.5") + ";", true},
		{"remove-near-integer", "T = " + rm("X", "0.1 * 3 * 10 - 3") + ";", true}, {"remove-str", "T = " + rm("X", `"x"`) + ";", true}, {"remove-str-numeric-prefix", "T = " + rm("X", `"0 kg"`) + ";", true}, {"remove-nonarray", "T = " + rm("5", "0") + ";", true},
		{"append-nonarray", "T = " + ap("box", "1") + ";", true}, {"len-nonarray", Print(L("box")), true},
	}
	return ops
}

func renderHistory(prelude string, ops []histOp, seq []int) string {
	var b strings.Builder
	b.WriteString(prelude)
	tag := 100
	for step, i := range seq {
		t := ops[i].text
		for strings.Contains(t, "%f") {
			tag++
			t = strings.Replace(t, "%f", fmt.Sprint(tag), 1)
		}
		t = strings.ReplaceAll(t, "%n", fmt.Sprint(step+1))
		b.WriteString(t + "\n")
		if !ops[i].fault {
			b.WriteString("dump();\n")
		}
	}
	b.WriteString(Print(`"end"`) + "\n")
	return b.String()
}

func histNames(ops []histOp, seq []int) string {
	n := make([]string, len(seq))
	for i, s := range seq {
		n[i] = ops[s].name
	}
	return strings.Join(n, " ; ")
}

// enumHistories: every sequence of <= maxLen non-faulting steps, each also
// extended by every faulting step.
func enumHistories(c *Ctx, ops []histOp, maxLen int, stride int, emit func(seq []int)) {
	var good, bad []int
	for i, o := range ops {
		if o.fault {
			bad = append(bad, i)
		} else {
			good = append(good, i)
		}
	}
	seq := make([]int, 0, maxLen+1)
	cnt := 0
	var rec func()
	rec = func() {
		if len(seq) > 0 {
			cnt++
			if cnt%stride == 0 && c.Mine() {
				emit(seq)
			}
		}
		if len(seq) < maxLen {
			for _, f := range bad {
				cnt++
				if cnt%stride == 0 && c.Mine() {
					emit(append(seq, f))
				}
			}
		}
		if len(seq) == maxLen {
			return
		}
		for _, g := range good {
			seq = append(seq, g)
			rec()
			seq = seq[:len(seq)-1]
		}
	}
	rec()
}

func histJudge(c *Ctx, cs *Case, repeats int) {
	c.Begin(cs)
	if cs.Mode == "cli" {
		m := RunModel(cs.Src, "", false, 0)
		if cliJudge(c, cs, m) == "" {
			c.Nontrivial("cli|" + cs.Src)
		}
		return
	}
	var m *ModelOut
	v := ""
	for i := 0; i < repeats; i++ {
		v, m, _ = stdJudge(c, cs, RunOpts{}, JudgeOpts{})
		if v != "" {
			break
		}
	}
	if v == "" && m.Res != nil {
		c.Nontrivial(cs.Src)
		if m.Res.Fault != nil {
			c.Count("histories_ending_in_fault", 1)
		} else {
			c.Count("histories_clean", 1)
		}
		if cs.X != nil {
			for _, n := range strings.Split(cs.X["ops"], " ; ") {
				c.Count("op:"+n, 1)
			}
		}
	}
	c.Sample(cs.Gen, map[string]string{"ops": cs.X["ops"], "program_tail": trunc(lastLines(cs.Src, 8), 500)})
}

func lastLines(s string, n int) string {
	l := strings.Split(strings.TrimRight(s, "\n"), "\n")
	if len(l) > n {
		l = l[len(l)-n:]
	}
	return strings.Join(l, "\n")
}

// c11Passive: an array's elements change only through an indexed write.  Handing the array (or an
// alias, or an array holding it) to anything else — every built-in, a user function that only reads,
// printing, comparison, concatenation — leaves every element exactly what it was, type included.
func c11Passive(c *Ctx, cs *Case) {
	c.Begin(cs)
	probe := Print("a") + " " + Print(BI("len", "a")) + " " + For(Var("i", "0"), "i < "+BI("len", "a"), "i = i + 1", "{ "+Print(`"<" + a[i] + ">"`)+" "+Print("[a[i] == \"12\", a[i] == 12, a[i] == \"\u09e9\", a[i] == 3, a[i] == nil]")+" "+Print(`a[i] == "" + a[i]`)+" }") + " " + Print("b") + " " + Print("holder")
	pre := Var("a", cs.X["array"]) + "\n" + Var("b", "a") + "\n" + Var("holder", "[a, {in: a}]") + "\n" + Fun("rd", "x", " "+Ret("x[0]")+" ") + "\n"
	base := RunLib(pre+Print(`"--"`)+"\n"+probe+"\n", RunOpts{MaxSteps: 200000})
	with := RunLib(pre+cs.X["use"]+"\n"+Print(`"--"`)+"\n"+probe+"\n", RunOpts{MaxSteps: 200000})
	if CheckAbnormal(c, base) || CheckAbnormal(c, with) {
		return
	}
	if with.Exit != 0 {
		c.Count("passive_use_rejected", 1) // the use itself is an error: nothing follows it
		return
	}
	cut := func(s string) string {
		if i := strings.Index(s, "--\n"); i >= 0 {
			return s[i:]
		}
		return s
	}
	if base.Exit != 0 || cut(base.Stdout) != cut(with.Stdout) {
		c.Violate(Violation{Why: "an array's elements changed although nothing wrote to it by index (use: " + cs.X["use"] + ")", Expected: trunc(cut(base.Stdout), 400), Observed: trunc(cut(with.Stdout), 400), Signature: "array-changed-without-write"})
		return
	}
	c.Count("passive_uses_checked", 1)
	c.Nontrivial(cs.X["array"] + "|" + cs.X["use"])
	c.Sample(cs.Gen, cs.X["use"])
}

// c11Freshness: an array literal makes new arrays at every level each time it is evaluated, however constant it looks
func c11Freshness() []string {
	return []string{
		// a loop body / block whose only declarations are declaration lists is a scope of its own in every round
		Lines(Var("a", "[1, 2, 3, 4, 5]"), K["var"]+" i = 0, j = 4;", While("i < j", "{ "+K["var"]+" t = a[i], u = a[j]; a[i] = u; a[j] = t; i = i + 1; j = j - 1; }"), Print("a"), Fun("f", "", " "+Var("row", "[9, 9]")+" { "+K["var"]+" row = [0, 0], n = 1; row[0] = n; } row[1] = 5; "+Ret("row")+" "), Print("f()"),
			Var("items", "[[1], [2], [3]]"), For(Var("k", "0"), "k < 3", "k = k + 1", "{ "+K["var"]+" item = items[k], alias = item; alias[0] = alias[0] * 10; }"), Print("items")),
		// a declaration list: a later initialiser sees (and aliases) the array an earlier name of the list holds
		Lines(K["var"]+" a = [1, 2, 3], b = a;", "b[0] = 9;", Print("a"), K["var"]+" c = "+BI("append", "a", "4")+", d = c, e = "+BI("remove", "d", "0")+";", "d[1] = 7;", Print("c"), Print("e"), For(K["var"]+" n = "+BI("len", "a")+", i = n - 1;", "i >= 0", "i = i - 1", "{ "+Print("a[i]")+" }")),
		Lines(Var("row", "[5, 5, 5]"), Fun("mk", "", " "+K["var"]+" row = [0, 0, 0], view = row; view[1] = 5; "+Ret("[row, view]")+" "), Print("mk()"), Print("row")),
		// the value of a call is an array like any other: indexed, written and passed on directly
		Lines(Var("a", "[1, 2, 3]"), Print(BI("append", "a", "7")+"[3]"), Print(BI("remove", "a", "0")+"[0]"), Fun("pick", "g, i", " "+Ret("g[i]")+" "), Var("g", "[[1, 2], [3, 4]]"), "pick(g, 0)[1] = 9;", Print("g"), Fun("holder", "", " "+Ret("{items: a}")+" "), "holder().items[2] = 30;", Print("a"), Print(BI("len", BI("append", "a", "1"))+" + "+BI("append", "a", "1", "2")+"[4]"), Print("pick(g, 1)[0] + pick(g, 0)[1]")),
		// a loop-body local named like an outer array variable / parameter, the loop left by থামো / চালিয়ে_যাও from a nested block:
		// afterwards the outer name denotes the outer array again (and its aliases see what is written through it)
		Lines(Var("cell", "[9, 9, 9]"), Var("home", "cell"), Var("queue", "[[1, 1], [0, 0], [2, 2]]"), Var("second", "queue[1]"), Var("steps", "0"),
			While(BI("len", "queue")+" > 0", "{ "+Var("cell", "queue[0]")+" queue = "+BI("remove", "queue", "0")+"; steps = steps + 1; "+If("cell[0] == 0", "{ "+Break()+" }")+" }"),
			Print("steps"), Print(BI("len", "cell")), "cell[0] = 5;", Print("cell"), Print("home"), Print("second"), Print(BI("append", "cell", "7")), Print(BI("remove", "cell", "0"))),
		Lines(Fun("drain", "work, slot", " "+While(BI("len", "work")+" > 0", "{ "+Var("slot", "work[0]")+" work = "+BI("remove", "work", "0")+"; "+If("slot[0] == 0", "{ "+Break()+" }")+" }")+" slot[1] = 4; "+Ret(BI("len", "slot"))+" "), Var("mine", "[8, 8, 8, 8]"), Var("jobs", "[[3, 3], [0, 0]]"), Print("drain(jobs, mine)"), Print("mine"), Print("jobs")),
		Lines(Var("acc", "[0]"), Var("k", "0"), While("k < 4", "{ k = k + 1; "+Var("acc", "[k]")+" "+If("k % 2 == 1", "{ { "+Continue()+" } }")+" acc[0] = 100; }"), "acc[0] = acc[0] + k;", Print("acc"), For(Var("j", "0"), "j < 3", "j = j + 1", "{ "+Var("acc", "[j, j]")+" "+If("j == 1", "{ "+Break()+" }")+" }"), Print("acc"), Print(BI("len", "acc"))),
		Lines(Fun("board", "", " "+Ret("[[0, 0, 0], [0, 0, 0]]")+" "), Var("b1", "board()"), Var("b2", "board()"), "b1[0][0] = 1;", "b1[1][2] = 2;", Print("b1"), Print("b2"), Print("board()")),
		Lines(Var("rows", "[]"), For(Var("i", "0"), "i < 3", "i = i + 1", "{ "+Var("row", "[[0], [0, 0]]")+" row[0][0] = i + 1; rows = "+BI("append", "rows", "row")+"; }"), Print("rows"), "rows[0][1][1] = 9;", Print("rows[1]"), Print("rows[2]")),
		Lines(Fun("tab", "", " "+Var("t", `[["a", "b"], [1, [2, 3]], []]`)+" t[1][1][0] = t[1][1][0] + 10; "+Ret("t")+" "), Print("tab()"), Print("tab()"), Var("k", "tab()"), "k[0][0] = 0;", Print("tab()"), Print("k")),
		Lines(Var("x", "nil"), Var("total", "0"), For(Var("i", "0"), "i < 3", "i = i + 1", "{ x = [[1, 2], [3, 4]]; x[1][0] = x[1][0] - 3; total = total + 1 / (x[1][0] + 1); }"), Print("total"), Print("x")),
	}
}

func c11Judge(c *Ctx, cs *Case) {
	if cs.Gen == "string-index-consistency" {
		c11StringIndex(c, cs)
		return
	}
	if cs.Gen == "passive-uses" {
		c11Passive(c, cs)
		return
	}
	histJudge(c, cs, 1)
}

// c11StringIndex: the absolute meaning of a numeric-looking *string* used as an
// index is not pinned, but it must be one number: if a[s] succeeds, then s
// coerced by arithmetic (s * 1) must index the same element, on read, write
// and রিমুভ alike.
func c11StringIndex(c *Ctx, cs *Case) {
	c.Begin(cs)
	s := cs.X["s"]
	pre := Var("a", "[100, 101, 102, 103, 104, 105, 106, 107, 108, 109, 110, 111, 112, 113, 114, 115, 116, 117]") + "\n" + Var("s", s) + "\n"
	run := func(body string) *Obs { return RunLib(pre+body, RunOpts{MaxSteps: 100000}) }
	direct := run(Print("a[s]") + "\n")
	if CheckAbnormal(c, direct) {
		return
	}
	if direct.Exit != 0 {
		c.Count("string_index_rejected", 1)
		c.Nontrivial(cs.Src)
		return
	}
	for name, pair := range map[string][2]string{
		"read":   {Print("a[s]"), Print("a[s * 1]")},
		"write":  {"a[s] = 7; " + Print("a"), "a[s * 1] = 7; " + Print("a")},
		"remove": {Print(BI("remove", "a", "s")), Print(BI("remove", "a", "s * 1"))},
		"shift":  {Print("1 << s"), Print("1 << (s * 1)")},
	} {
		x, y := run(pair[0]+"\n"), run(pair[1]+"\n")
		if CheckAbnormal(c, x) || CheckAbnormal(c, y) {
			return
		}
		if x.Stdout != y.Stdout || x.Exit != y.Exit {
			c.Violate(Violation{Why: fmt.Sprintf("the string %s denotes one number when used as an index (%s) and another when coerced by arithmetic", s, name), Expected: describeObs(y), Observed: describeObs(x), Signature: "string-index-inconsistent:" + name})
			return
		}
	}
	c.Count("string_index_consistent", 1)
	c.Nontrivial(cs.Src)
	c.Sample(cs.Gen, s)
}

func c11Run(c *Ctx) {
	ops := c11Ops()
	pre := c11Prelude()
	emit := func(gen string) func(seq []int) {
		return func(seq []int) {
			c11Judge(c, &Case{Gen: gen, Src: renderHistory(pre, ops, seq), X: map[string]string{"ops": histNames(ops, seq)}})
		}
	}
	enumHistories(c, ops, 2, 1, emit("histories-len<=2"))
	if c.Quick() {
		enumHistories(c, ops, 3, 4, emit("histories-len<=3-every-4th"))
	} else {
		enumHistories(c, ops, 4, 1, emit("histories-len<=4"))
	}
	// random longer histories
	var good, bad []int
	for i, o := range ops {
		if o.fault {
			bad = append(bad, i)
		} else {
			good = append(good, i)
		}
	}
	r := c.Rand("long")
	n := c.N(6000, 200000)
	for k := 0; k < n; k++ {
		l := 4 + r.Intn(30)
		seq := make([]int, 0, l+1)
		for i := 0; i < l; i++ {
			seq = append(seq, good[r.Intn(len(good))])
		}
		if r.Intn(3) == 0 {
			seq = append(seq, bad[r.Intn(len(bad))])
		}
		if !c.Mine() {
			continue
		}
		cs := &Case{Gen: "random-long-histories", Src: renderHistory(pre, ops, seq), X: map[string]string{"ops": histNames(ops, seq)}}
		if k%12 == 0 {
			cs.Gen, cs.Mode = "random-long-histories-cli", "cli"
		}
		c11Judge(c, cs)
	}
	for _, sv := range []string{`"0"`, `"1"`, `"2"`, `"07"`, `"08"`, `"010"`, `"0010"`, `"017"`, `"0x1"`, `"0X10"`, `"0b1"`, `"0o7"`, `"1.0"`, `"2.00"`, `"1e0"`, `"1e1"`, "\"\u09e7\u09e6\"", "\"\u09e6\u09e7\u09e6\"", `" 1"`, `"1 "`, `"+1"`, `"-0"`, `"1_0"`, `"0.5"`, `"16"`, `"00"`} {
		if c.Mine() {
			c11Judge(c, &Case{Gen: "string-index-consistency", Src: sv, X: map[string]string{"s": sv}})
		}
	}
	// arrays handed to every built-in and to reading code: elements (and their types) stay what they were
	for _, arr := range []string{"[3, \"12\", \"\u09e7\u09e6\"]", `["5"]`, "[1, 2]", "[\"\u09e9\", 2.5, \"-1\"]", `[nil, ` + True() + `, "x"]`, `[[1, "2"], "3"]`, "[]", `["0", 0, (-0)]`, `["7", "8.5", "1e2"]`} {
		for _, tgt := range []string{"a", "b", "holder[0]", "holder[1].in"} {
			for _, use := range []string{BI("max", "%s") + ";", BI("min", "%s") + ";", BI("len", "%s") + ";", BI("append", "%s", "1") + ";", BI("append", "%s", "%s") + ";", BI("remove", "%s", "0") + ";", Print("%s"),
				Print(`"" + %s`), Print("%s == %s"), "rd(%s);", BI("max", "%s", "1") + ";", BI("min", "[%s]") + ";", BI("abs", "%s[0]") + ";", BI("round", "%s[0]") + ";", BI("sqrt", "%s[0]") + ";", BI("pow", "%s[0]", "2") + ";",
				Print("%s[0] * 1"), Print("%s[0] + 1"), Print("-%s[0]"), Print("%s[0] | 0"), Print("%s[0] < 5"), Print("[9, 8, 7][%s[0] * 0]"), If("%s[0]", Print(`"t"`)), BI("keys", "{k: %s}") + ";", BI("values", "{k: %s}") + ";", BI("max", BI("append", "%s", "0")) + ";"} {
				if c.Mine() {
					c11Judge(c, &Case{Gen: "passive-uses", Src: arr + " | " + use, X: map[string]string{"array": arr, "use": strings.ReplaceAll(use, "%s", tgt)}})
				}
			}
		}
	}
	// hand-written: capacity-aliasing patterns and array literal freshness per evaluation
	var selfAppend []string
	for _, n := range []int{1, 2, 3, 4, 5, 6, 7, 8, 9} {
		el := make([]string, n)
		for i := range el {
			el[i] = fmt.Sprint(i + 1)
		}
		lit := "[" + strings.Join(el, ", ") + "]"
		// x = এড(x, …) while the old array is still held elsewhere: by an alias, a snapshot list, a caller
		selfAppend = append(selfAppend,
			Lines(Var("a", lit), Var("b", "a"), "a = "+BI("append", "a", "90")+";", "a[0] = 91;", Print("a"), Print("b"), "b = "+BI("append", "b", "92")+";", Print("a"), Print("b")),
			Lines(Var("p", lit), Var("q", "p"), "p = "+BI("append", "p", "93")+";", "q = "+BI("append", "q", "94")+";", Print("p"), Print("q"), "p = "+BI("append", "p", "95", "96")+";", "q[0] = 97;", Print("p"), Print("q")),
			Lines(Var("cur", lit), Var("snaps", "[]"), For(Var("i", "0"), "i < 3", "i = i + 1", "{ snaps = "+BI("append", "snaps", "cur")+"; cur = "+BI("append", "cur", "i + 80")+"; }"), "cur[0] = 98;", Print("snaps"), Print("cur")),
			Lines(Fun("grow", "x", " x = "+BI("append", "x", "70")+"; x[0] = 71; "+Ret("x")+" "), Var("mine", lit), Var("got", "grow(mine)"), Print("mine"), Print("got"), Var("again", "grow(mine)"), Print("mine"), Print("got"), Print("again")))
	}
	selfAppend = append(selfAppend, c11Freshness()...)
	// an array stored in one of its own slots is still that one array
	selfAppend = append(selfAppend,
		Lines(Var("a", "[1, 2, 3]"), "a[1] = a;", "a[0] = 9;", Print("a[1][0]"), Print("a[1][1][0]"), "a[1][2] = 7;", Print("a[2]"), Print(BI("len", "a[1]")), Print("a[1] == a")),
		Lines(Var("head", "[5, nil]"), "head[1] = head;", Var("al", "head"), "al[0] = 6;", Print("head[1][1][0]"), Fun("setboth", "x, y", " x[0] = y; y[0] = 8; "+Ret("x[0][0]")+" "), Var("s", "[0]"), Print("setboth(s, s)"), Print("s[0] == s"), Print("s[0][0][0] == s")),
	)
	// a plain array held twice inside a value that also contains itself is shown in full both times
	selfAppend = append(selfAppend,
		Lines(Var("sh", "[0, 0]"), Var("b", `["B", sh, sh]`), Var("a", `["A", sh, b, 0]`), "a[3] = a;", Print("a"), "sh[1] = 5;", Print("a"), Print("b"), Var("ring", "[sh, [sh], 0]"), "ring[2] = ring;", Print("ring"), Print("[ring, sh]")),
		Lines(Var("ob", "{\u09b8\u09ae\u09df: [], \u09ac\u09dc: [1]}"), Var("arr3", "[9, 2, 3]"), "ob.\u09b8\u09ae\u09df = arr3;", Print("ob.\u09b8\u09ae\u09df"), "ob.\u09b8\u09ae\u09df[0] = 7;", Print("arr3"), "ob.\u09ac\u09dc = "+BI("append", "ob.\u09ac\u09dc", "2")+";", Print("ob.\u09ac\u09dc"), Print(BI("len", "ob.\u09b8\u09ae\u09df"))))
	// arrays that come from the listing built-ins are arrays like any other; an element write yields the value written
	selfAppend = append(selfAppend,
		Lines(Var("ks", BI("keys", "{only: 1}")), Print(BI("len", "ks")), Print("ks[0]"), Var("al", "ks"), "ks[0] = \"z\";", Print("al"), Print(BI("append", "ks", "1")), Print(BI("remove", "ks", "0")), Print("ks"), Var("vs", BI("values", "{p: [1]}")), Print(BI("len", "vs")+" + "+BI("len", BI("append", "vs", "3"))), "vs[0][0] = 5;", Print("vs"), Var("e", BI("keys", "{}")), Print(BI("len", "e")), Print(BI("append", "e", "9")), Print(`"before"`), Print("ks[2]"), Print(`"AFTER"`)),
		Lines(Var("a", "[1, 2, 3]"), Var("b", "[0, 0]"), "b[0] = a[2] = 7;", Print("a"), Print("b"), Var("g", "[0, 0, 0]"), "g[0] = g[2] = [4];", "g[0][0] = 8;", Print("g"), Var("row", "(g[1] = [5, 5])"), "row[0] = 6;", Print("g[1]"), Fun("grow", "x", " x[0] = x[0] + 1; "+Ret("x")+" "), Var("h", "[0, 0]"), Print("grow(h[1] = [6])"), Print("h"), Print("(a[0] = 9) + (a[1] = 1)"), Print("a")))
	// a parameter spelled like its own function still holds the array that was passed
	selfAppend = append(selfAppend,
		Lines(Fun("total", "total", " total[0] = 9; "+Ret(BI("len", "total")+" + total[0]")+" "), Var("xs", "[1, 2, 3]"), Print("total(xs)"), Print("xs"), Var("grid", "[[0], [5, 6]]"), Print("total(grid[1])"), Print("grid"), Var("box", "{items: [7]}"), Print("total(box.items)"), Print("box")))
	// recursion through one call expression in a later argument, run more than once: what এড / the callee receives is what was passed
	selfAppend = append(selfAppend,
		Lines(Fun("chain", "n", " "+If("n == 0", "{ "+Ret("[]")+" }")+" "+Ret(BI("append", "[n]", "chain(n - 1)"))+" "), Print("chain(3)"), Print("chain(3)"), Print("chain(2)")),
		Lines(Fun("grow", "a, n", " "+If("n == 0", "{ "+Ret("a")+" }")+" "+Ret(BI("append", "a", "n", BI("len", "grow(a, n - 1)")))+" "), Var("base", "[0]"), Print("grow(base, 3)"), Print("grow(base, 3)"), Print("base")),
		Lines(Fun("merge", "l, r", " "+Var("out", "[]")+" "+Var("i", "0")+" "+Var("j", "0")+" "+While("i < "+BI("len", "l")+" && j < "+BI("len", "r"), "{ "+IfElse("l[i] <= r[j]", "{ out = "+BI("append", "out", "l[i]")+"; i = i + 1; }", "{ out = "+BI("append", "out", "r[j]")+"; j = j + 1; }")+" }")+" "+While("i < "+BI("len", "l"), "{ out = "+BI("append", "out", "l[i]")+"; i = i + 1; }")+" "+While("j < "+BI("len", "r"), "{ out = "+BI("append", "out", "r[j]")+"; j = j + 1; }")+" "+Ret("out")+" "),
			Fun("half", "a, from, to", " "+Var("o", "[]")+" "+For(Var("k", "from"), "k < to", "k = k + 1", "{ o = "+BI("append", "o", "a[k]")+"; }")+" "+Ret("o")+" "),
			Fun("sort", "a", " "+If(BI("len", "a")+" < 2", "{ "+Ret("a")+" }")+" "+Var("m", BI("round", BI("len", "a")+" / 2 - 0.25"))+" "+Ret("merge(sort(half(a, 0, m)), sort(half(a, m, "+BI("len", "a")+")))")+" "),
			Var("data", "[5, 3, 8, 1, 9, 2, 7]"), Print("sort(data)"), Print("sort([4, 4, 1, 0, 6])"), Print("data")))
	for _, src := range append(selfAppend, []string{
		Lines(Var("a", "[1, 2, 3]"), Var("b", BI("append", "a", "4")), Var("cc", BI("append", "a", "5")), Print("a"), Print("b"), Print("cc"), "b[0] = 9;", Print("a"), Print("b"), Print("cc")),
		Lines(Var("a", "[1, 2, 3, 4]"), Var("b", BI("remove", "a", "0")), Print("a"), Print("b"), Var("d", BI("remove", "a", "3")), "d[0] = 7;", Print("a"), Print("d")),
		Lines(Fun("mk", "", " "+Ret("[0, 0]")+" "), Var("p", "mk()"), Var("q", "mk()"), "p[0] = 1;", Print("p"), Print("q"), Print("mk()")),
		Lines(Var("rows", "[]"), For(Var("i", "0"), "i < 3", "i = i + 1", "{ "+Var("row", "[i, i]")+" rows = "+BI("append", "rows", "row")+"; }"), "rows[0][0] = 99;", Print("rows")),
		Lines(Var("a", "[1]"), Var("grown", "a"), For(Var("i", "0"), "i < 20", "i = i + 1", "{ grown = "+BI("append", "grown", "i")+"; }"), Print("a"), Print(BI("len", "grown")), Print(BI("len", "a")+" * 2 + 1"), Print("grown["+BI("len", "grown")+" - 1]")),
		Lines(Var("a", "[[1, 2], [3]]"), Var("inner", "a[0]"), "inner[1] = 5;", Print("a"), "a[1] = inner;", "a[1][0] = 6;", Print("a"), Print("inner")),
	}...) {
		if c.Mine() {
			c11Judge(c, &Case{Gen: "handwritten", Src: src, X: map[string]string{"ops": "handwritten"}})
		}
		if c.Mine() {
			c11Judge(c, &Case{Gen: "handwritten-cli", Mode: "cli", Src: src, X: map[string]string{"ops": "handwritten"}})
		}
	}
}

func init() {
	register(&CheckDef{
		ID:   "C11",
		Rule: "histories over three array variables with shared ancestry (aliases, an enclosing array H, an object box, a parameter-writing function): 28 non-faulting step kinds (alias, fresh literal, indexed write direct / through a parameter / through a container, এড with 1-3 extra arguments into the same or another variable or via a function, রিমুভ at first / middle / last index, reads) and 33 faulting step kinds (index negative, = length, fractional, string, nil, boolean, 2^31, 2^32, 2^32+1, -(2^32-1), 2^53, 2^63, 2^64, +Inf on read, write and রিমুভ; non-array arguments); every history of <=2 steps, every 4th of <=3 (quick) / every history of <=4 (thorough), each also ended by every faulting step; random histories of 4-34 steps. After every step the program prints every live array, its লেন, arithmetic/comparison on লেন, and an object holding every array ever returned by এড/রিমুভ; every written value is a unique integer. Compared with refborno's pure list model. Plus: 8 arrays (numeric strings in both scripts, nested, signed zeros) x 4 ways of reaching them x 26 uses that do not write by index (every built-in, printing, comparison, concatenation, arithmetic and conditions on an element, a reading function): the elements and their types must afterwards be what they are without that use. Non-trivial = distinct decided history.",
		Assumptions: []string{"numeric-looking string indexes are out of domain"},
		Run:         c11Run,
		Judge:       c11Judge,
		MustCount: func(c *Ctx) []string {
			out := []string{"histories_clean", "histories_ending_in_fault", "gen:random-long-histories", "cli_runs", "fault:BadIndex", "fault:BuiltinFailure", "string_index_consistent", "passive_uses_checked"}
			for _, o := range c11Ops() {
				out = append(out, "op:"+o.name)
			}
			return out
		},
	})
}
