package main

// C12 — objects: shared maps with consistent read / write / delete / listing.

func c12Prelude() string {
	K1, V1 := B["keys"], B["values"]
	one := func(v string) string {
		return " " + Print(v) + " " + Print(K1+"("+v+")") + " " + Print(V1+"("+v+")") + " " + Print(K1+"("+v+")") + " " + Print(V1+"("+v+")") + "\n"
	}
	dump := Fun("dump", "", "\n "+Print(`"--"`)+"\n"+one("P")+one("Q")+one("R")+" "+Print("arr")+" "+Print("outer")+"\n")
	return Lines(
		Var("P", "{k: 1, ক: 2, x1: 3}"), Var("Q", "{}"), Var("R", "{মান: 4}"), Var("T", "nil"),
		Var("arr", "[P, R]"), Var("outer", "{in: P, other: Q}"),
		Fun("setvia", "o, v", " o.k = v; "),
		Var("ticket", "0"), Fun("nx", "", " ticket = ticket + 1; "+Ret("ticket")+" "),
		Fun("delvia", "o, key", " "+BI("delete", "o", "key")+"; "),
		dump, "dump();")
}

func c12Ops() []histOp {
	del := func(o, k string) string { return BI("delete", o, k) + ";" }
	return []histOp{
		{"alias-Q=P", "Q = P;", false}, {"alias-R=Q", "R = Q;", false}, {"alias-P=R", "P = R;", false},
		{"literal-P-0", "P = {};", false}, {"literal-Q-2", "Q = {k: %f, মান: %f};", false}, {"literal-R-6", "R = {k: %f, ক: %f, x1: %f, মান: %f, y2: %f, z: %f};", false},
		{"literal-nested", "Q = {k: %f, sub: {ক: %f}, list: [%f, %f]};", false},
		{"write-P-existing-or-new-k", "P.k = %f;", false}, {"write-P-new-x9", "P.x9 = %f;", false}, {"write-Q-ক", "Q.ক = %f;", false}, {"write-R-মান", "R.মান = %f;", false},
		{"write-nil-value", "Q.nn = nil;", false}, {"write-via-param", "setvia(Q, %f);", false}, {"write-via-array", "arr[0].x1 = %f;", false}, {"write-via-outer", "outer.in.মান = %f;", false},
		{"write-object-valued", "P.child = R;", false}, {"write-through-child", "outer.other.k = %f;", false},
		{"delete-P-x9-after-write", "P.x9 = %f; " + del("P", `"x9"`), false}, {"delete-Q-nil-valued", "Q.nn = nil; " + del("Q", `"nn"`), false},
		{"delete-via-param", "R.tmp = %f; delvia(R, \"tmp\");", false}, {"delete-computed-key", "P.ab = %f; " + del("P", `"a" + "b"`), false},
		{"write-read-nfc-unstable-key", "P.ব\u09df\u09b8 = %f; " + Print("P.ব\u09df\u09b8") + " P.ব\u09df\u09b8 = P.ব\u09df\u09b8 + 1; " + Print("P.ব\u09df\u09b8"), false},
		{"literal-nfc-unstable-keys", "Q = {ব\u09dc: %f, ক\u09c7\u09be: %f, k: %f}; " + Print("Q.ব\u09dc + Q.ক\u09c7\u09be"), false},
		{"delete-nfc-unstable-key", "R.গ\u09dd = %f; " + del("R", "\"গ\u09dd\""), false},
		{"replace-key-same-size", "P.ra = %f; T = " + BI("keys", "P") + "; " + del("P", `"ra"`) + " P.rb%n = %f;", false},
		{"replace-key-same-size-via-alias", "Q.sa = %f; T = " + BI("values", "Q") + "; delvia(Q, \"sa\"); setvia(Q, %f); Q.sb%n = %f;", false},
		{"swap-two-keys", "R.t1 = %f; R.t2 = %f; T = " + BI("keys", "R") + "; " + del("R", `"t1"`) + " " + del("R", `"t2"`) + " R.u1%n = %f; R.u2%n = %f;", false},
		{"chained-property-writes", "P.c1 = Q.c2 = R.c3 = %f; " + Print("P.c1 + Q.c2 + R.c3"), false},
		{"property-write-as-value", "T = (P.pv = %f); " + Print("T") + " " + Print("[Q.pv2 = %f, (R.pv3 = {in: %f}).in]") + " T = nil;", false},
		{"write-signed-zeros", "P.z = 0; Q.z = 0; P.z = -0; " + Print("P.z") + " R.nz = -0; R.nz = 0; " + Print("R.nz"), false},
		{"write-equal-looking-values", "P.e = 1; P.e = " + True() + "; Q.e2 = \"1\"; Q.e2 = 1; R.e3 = nil; R.e3 = " + False() + "; R.e4 = \"\"; R.e4 = 0;", false},
		{"listing-element-identity", "P.ch = {n: %f}; T = " + BI("values", "{only: P.ch}") + "; T[0].n = %f; " + Print("P.ch.n") + " " + Print("T[0] == P.ch") + " T = nil;", false},
		// the values of a literal are computed in the order written (each from a shared counter), whatever the names are
		{"literal-values-from-counter", "Q = {name: nx(), city: nx(), age: nx(), zip: nx(), b: nx()}; " + Print("Q.name - Q.age"), false}, {"literal-nested-values-from-counter", "R = {z: nx(), inner: {y: nx(), a: nx()}, a: nx()}; " + Print("R.inner.a - R.z"), false},
		// names and values with compatibility characters stay what they are (micro sign and Greek mu are two names)
		{"compatibility-characters", "R = {\u00b5: %f, \u03bc: %f, area: \"m\u00b2\", half: \"\u00bd\"}; " + Print("R.\u00b5 - R.\u03bc") + " " + del("R", "\"\u03bc\""), false},
		// names may start with an underscore
		{"underscore-names", "P._id = %f; Q = {_rev: %f, _: %f, __x: {_y: %f}}; " + Print("P._id + Q._rev + Q._ + Q.__x._y") + " " + del("Q", `"_"`), false},
		// names differing in letter case or digit script are different names; listings stay mutually consistent for them
		{"literal-mixed-case-keys", "R = {age: %f, Zip: %f, City: %f, name: %f};", false}, {"write-mixed-case-keys", "P.Zip = %f; P.apple = %f; Q.Total = %f; Q.count = %f; Q.total = %f;", false},
		{"literal-digit-script-keys", "Q = {k\u09e7: %f, k1: %f, \u09ae\u09be\u09a8\u09e8: %f}; " + Print("Q.k1 - Q.k\u09e7"), false},
		{"delete-digit-script-key", "P.\u09ae\u09be\u09a8\u09e7 = %f; P.\u09ae\u09be\u09a81 = %f; " + del("P", "\"\u09ae\u09be\u09a8\u09e7\"") + " " + Print("P.\u09ae\u09be\u09a81"), false},
		{"read-after-write", "P.k = %f; " + Print("P.k"), false}, {"read-nested", "Q.sub2 = {d: %f}; " + Print("Q.sub2.d"), false},
		// faulting steps
		{"read-absent", Print("P.absent"), true}, {"read-absent-as-statement", "P.k; P.absent;", true}, {"read-absent-as-statement-grouped", "(P.absent);", true}, {"read-on-number-as-statement", "P.num = %f; P.num.zz;", true},
		{"read-on-nil-element-as-statement", "arr[0].gone = nil; arr[0].gone.x;", true}, {"read-removed-via-alias-as-statement", "Q = P; P.tmp2 = %f; " + del("Q", `"tmp2"`) + " P.tmp2;", true}, {"read-other-digit-script", "P.\u0995\u09e8 = %f; " + Print("P.\u09952"), true}, {"read-other-case", "P.Name = %f; " + Print("P.name"), true}, {"read-on-nil", Print("T.k"), true}, {"read-on-array", Print("arr.k"), true}, {"read-on-number", Print("(5).k"), true}, {"read-on-string", Print(`"s".k`), true},
		{"write-on-nil", "T.k = %f;", true}, {"write-on-array", "arr.k = %f;", true},
		{"delete-absent", del("P", `"absent"`), true}, {"delete-dotted-path", "P.db = {host: %f, port: %f}; " + del("P", `"db.host"`), true}, {"delete-empty-name", "P.e1 = %f; " + del("P", `""`), true},
		{"delete-name-with-blank", "P.e2 = %f; " + del("P", `"e2 "`), true}, {"delete-other-case", "P.e3 = %f; " + del("P", `"E3"`), true}, {"delete-bracketed", "P.list = [%f]; " + del("P", `"list[0]"`), true}, {"delete-twice", "P.dd = %f; " + del("P", `"dd"`) + " " + del("P", `"dd"`), true},
		{"delete-nonstring-key", del("P", "5"), true}, {"delete-nil-key", del("P", "nil"), true}, {"delete-on-array", del("arr", `"k"`), true},
		{"keys-on-array", Print(BI("keys", "arr")), true}, {"values-on-nil", Print(BI("values", "T")), true},
	}
}

func c12Judge(c *Ctx, cs *Case) {
	if cs.Gen == "repl-objects" {
		c20Judge(c, cs)
		return
	}
	histJudge(c, cs, 3)
}

func c12Run(c *Ctx) {
	// interactive mode: an echoed object is shown as it is when its statement runs, not as the line leaves it
	for _, line := range []string{
		Var("o", "{a: 1}") + " o; o.b = 2; o; " + BI("delete", "o", `"a"`) + "; " + BI("keys", "o") + "; o;",
		Var("p", "{n: 0}") + " " + Var("q", "p") + " q; p.n = 5; q; q.m = [1]; p; " + Print("p") + " p.m[0] = 2; q;",
		Var("rows", "[{k: 1}]") + " rows; rows[0].k = 2; rows; rows[0];",
	} {
		if c.Mine() {
			c12Judge(c, &Case{Gen: "repl-objects", Src: line + "\n" + Print("1 + 1") + "\n" + line, X: map[string]string{"final_newline": "1", "all_self": "1"}})
		}
	}
	ops := c12Ops()
	pre := c12Prelude()
	emit := func(gen string) func(seq []int) {
		return func(seq []int) {
			c12Judge(c, &Case{Gen: gen, Src: renderHistory(pre, ops, seq), X: map[string]string{"ops": histNames(ops, seq)}})
		}
	}
	enumHistories(c, ops, 2, 1, emit("histories-len<=2"))
	if c.Quick() {
		enumHistories(c, ops, 3, 7, emit("histories-len<=3-every-7th"))
	} else {
		enumHistories(c, ops, 4, 1, emit("histories-len<=4"))
	}
	var good, bad []int
	for i, o := range ops {
		if o.fault {
			bad = append(bad, i)
		} else {
			good = append(good, i)
		}
	}
	r := c.Rand("long")
	n := c.N(5000, 150000)
	for k := 0; k < n; k++ {
		l := 4 + r.Intn(30)
		seq := make([]int, 0, l+1)
		for i := 0; i < l; i++ {
			seq = append(seq, good[r.Intn(len(good))])
		}
		if r.Intn(3) == 0 {
			seq = append(seq, bad[r.Intn(len(bad))])
		}
		if !c.Mine() {
			continue
		}
		cs := &Case{Gen: "random-long-histories", Src: renderHistory(pre, ops, seq), X: map[string]string{"ops": histNames(ops, seq)}}
		if k%12 == 0 {
			cs.Gen, cs.Mode = "random-long-histories-cli", "cli"
		}
		c12Judge(c, cs)
	}
	for _, src := range []string{
		// a loop body whose only declarations are declaration lists is a scope of its own in every round
		Lines(Var("items", "[{n: 1}, {n: 2}, {n: 3}]"), For(Var("i", "0"), "i < 3", "i = i + 1", "{ "+K["var"]+" item = items[i], alias = item; alias.n = alias.n * 10; }"), Print("items"), Var("o", "{v: 0}"), Var("r", "0"), While("r < 3", "{ r = r + 1; "+K["var"]+" cur = o, step = r; cur.v = cur.v + step; }"), Print("o")),
		// a store through any expression that yields the object reaches the object: an element of an array literal,
		// the operand a logical operator hands back, a call result, a parenthesised place
		Lines(Var("left", "{hits: 0}"), Var("right", "{hits: 0}"), Var("side", "1"), "[left, right][side].hits = 5;", "[left, right][0].hits = [left, right][1].hits + 1;", Print("left"), Print("right"), Var("prefs", "nil"), Var("defaults", `{mode: "dev"}`), `(prefs `+K["or"]+` defaults).mode = "prod";`, Print("defaults"),
			Var("cfg", "{a: {n: 1}}"), "(cfg.a).n = 2;", "(cfg).b = 3;", Print("cfg"), Fun("get", "", " "+Ret("cfg")+" "), "get().a.n = 4;", "get().c = [1];", "get().c[0] = 9;", Print("cfg"), "(defaults && cfg).z = 1;", Print(BI("keys", "cfg"))),
		// a declaration list: a later initialiser sees (and aliases) the object an earlier name of the list holds
		Lines(K["var"]+" list = {head: {v: 1, next: nil}, size: 1}, cur = list.head;", "cur.v = 5;", Print("list"), K["var"]+" base = {k: 1}, view = base, n = 2;", "view.k = n;", Print("base"), Var("row", "{t: 0}"), Fun("mk", "", " "+K["var"]+" row = {t: 1}, al = row; al.t = 7; "+Ret("row")+" "), Print("mk()"), Print("row")),
		// a lookup helper's "not found" exit yields nil, not the object an earlier call returned: writing through it is an error
		Lines(Fun("mk", "n", " "+Ret("{name: n, hits: 0}")+" "), Var("rows", `[mk("a"), mk("b")]`), Fun("find", "w", " "+For(Var("i", "0"), "i < "+BI("len", "rows"), "i = i + 1", "{ "+If("rows[i].name == w", "{ "+Ret("rows[i]")+" }")+" }")+" "+Ret("")+" "), `find("a").hits = 1;`, Print("rows"), Var("miss", `find("zzz")`), Print("miss == nil"), Print("miss"), Print(`"before"`), `find("zzz").hits = 9;`, Print(`"AFTER"`), Print("rows")),
		// literals are fresh per evaluation; two {} are different objects
		Lines(Var("a", "{}"), Var("b", "{}"), "a.x = 1;", Print("a"), Print("b"), Fun("mk", "", " "+Ret("{n: 0}")+" "), Var("p", "mk()"), Var("q", "mk()"), "p.n = 5;", Print("p"), Print("q")),
		// comments of every shape between the parts of object code change nothing
		Lines(Var("acct", "{ /** owner **/ owner: \"o\", /* balance */ balance: 5, /**** flags ****/ flags: {a: 1}, /***/ z: 0 }"), Print("acct"), Print("acct.owner"), "/**** overrides ****/", "acct.owner = \"p\";", "/* plain */ acct.extra = 1; /** even **/", BI("delete", "acct", `"balance"`)+"; /*** odd ***/", Print("acct"), "/** last **/", Print(BI("keys", "acct"))),
		Lines("/**/"+Var("o", "{}")+"/****/", "o.a /**/ = /*****/ 1;", "o /* x **/ .b = 2; /** y */", Print("o /***/ .a + o.b"), "/** a ** b *** c **/ "+Print("o")),
		// a property value, and a returned value, may be an assignment written without parentheses
		Lines(Var("seq", "{n: 1}"), Var("last", "{row: nil}"), Var("t", "0"), Fun("mkrow", "nm", " "+Ret("{id: seq.n = seq.n + 1, name: nm, meta: {owner: last.row = nm}}")+" "), Var("r1", `mkrow("ka")`), Print("r1"), Print(BI("keys", "r1")), Print("seq.n"), Print("last"), Print("{x: t = 5, y: t + 1}")),
		Lines(Var("cache", "{}"), Fun("sq", "n", " "+Ret("cache.last = n * n")+" "), Print("sq(3)"), Print("cache"), Var("al", "cache"), Print("sq(4) + al.last"), Fun("link", "child, parent", " "+Ret("child.up = parent")+" "), Var("p", "{nm: 1}"), Var("ch", "{}"), Print("link(ch, p) == p"), Print(BI("keys", "ch")), BI("delete", "ch", `"up"`)+";", Print("ch")),
		// a variable without a value in a declaration list is nil, not another object
		Lines(K["var"]+" a = {n: 1}, b;", Print("a"), Print("b"), Print(`"before"`), Print("b.n"), Print(`"AFTER"`)),
		Lines(Var("list", "{head: {v: 1, next: {v: 2, next: {v: 3, next: nil}}}}"), K["var"]+" cur = list.head, prev;", Var("guard", "0"), While("cur != nil && guard < 10", "{ "+Var("nx", "cur.next")+" cur.next = prev; prev = cur; cur = nx; guard = guard + 1; }"), Var("w", "prev"), Var("out", `""`), Var("g2", "0"), While("w != nil && g2 < 10", "{ out = out + w.v + \" \"; w = w.next; g2 = g2 + 1; }"), Print("out")),
		// nested literals are fresh per evaluation too, however constant they look: a constructor called twice, a loop body
		Lines(Fun("rec", "", " "+Ret(`{name: "x", opts: {depth: 1, tags: {a: 1}}, list: [{n: 0}]}`)+" "), Var("r1", "rec()"), Var("r2", "rec()"), "r1.opts.depth = 9;", Print("r2.opts.depth"), BI("delete", "r1.opts", `"tags"`)+";", "r1.list[0].n = 5;", Print("r2"), Print("r1"), Print("rec()")),
		Lines(Var("all", "[]"), For(Var("i", "0"), "i < 3", "i = i + 1", "{ "+Var("o", "{id: 0, pos: {x: 0, y: 0}}")+" o.id = i; o.pos.x = i * 10; all = "+BI("append", "all", "o")+"; }"), Print("all"), "all[0].pos.y = 7;", Print("all[1].pos"), Print("all[2].pos")),
		Lines(Fun("defaults", "", " "+Ret("{a: {}, b: {k: -1}, c: [{}]}")+" "), Var("d1", "defaults()"), "d1.a.added = 1; d1.b.k = 2;", Var("d2", "defaults()"), Print("d2"), Print("d1"), Print(BI("keys", "d2.a")), Print(BI("values", "d2.b"))),
		// literal with distinct keys yields exactly its properties
		Lines(Var("o", "{a: 1, b: 2, c: 3, d: 4, e: 5, f: 6}"), Print("o"), Print(BI("keys", "o")), Print(BI("values", "o")), Print("o.a + o.b + o.c + o.d + o.e + o.f")),
		// listing twice, then after a write, then after a delete
		Lines(Var("o", "{a: 1, b: 2, c: 3, d: 4, e: 5}"), Print(BI("keys", "o")), Print(BI("values", "o")), Print(BI("keys", "o")), Print(BI("values", "o")), "o.f = 6;", Print(BI("keys", "o")), Print(BI("values", "o")), BI("delete", "o", `"a"`)+";", Print(BI("keys", "o")), Print(BI("values", "o")), Print("o")),
		// property named like a keyword-ish / built-in identifier, Bangla keys
		Lines(Var("o", "{"+B["len"]+": 1, নাম: 2}"), Print("o."+B["len"]), "o."+B["len"]+" = 3;", Print("o"), Print(BI("keys", "o"))),
	} {
		if c.Mine() {
			c12Judge(c, &Case{Gen: "handwritten", Src: src, X: map[string]string{"ops": "handwritten"}})
		}
		if c.Mine() {
			c12Judge(c, &Case{Gen: "handwritten-cli", Mode: "cli", Src: src, X: map[string]string{"ops": "handwritten"}})
		}
	}
}

func init() {
	register(&CheckDef{
		ID:   "C12",
		Rule: "histories over three object variables with shared ancestry (aliases, an array and an outer object holding them, parameter-writing and parameter-deleting functions) and the key pool {k, ক, x1, মান, ...}: 36 non-faulting step kinds (alias, literals with 0/2/3/6 keys and nested, write new / existing / nil-valued / object-valued property directly, through a parameter, an array element, an outer object; write-then-delete directly, through a parameter, with a computed key, of a nil-valued property; reads) (incl. names differing only in letter case or digit script) and 26 faulting step kinds (reads that are whole statements included) (read absent, . on nil/array/number/string, write on non-object, delete absent / twice / non-string key / non-object, listings of non-objects); every history of <=2 steps, every 7th of <=3 (quick) / all of <=4 (thorough), each also ended by every faulting step; random histories of 4-34 steps. After every step every live object is printed together with its key list and value list, each listing twice in a row; every program is executed 3 times (hash-iteration order is the schedule). Listings may come in any order but all listings of one unmodified object must agree position-wise (keys with values). Compared with refborno's pure map model. Non-trivial = distinct decided history.",
		Assumptions: []string{"the order of a key/value listing is not pinned, only its consistency; what কি_রিমুভ returns is not pinned"},
		Run:         c12Run,
		Judge:       c12Judge,
		MustCount: func(c *Ctx) []string {
			out := []string{"histories_clean", "histories_ending_in_fault", "gen:random-long-histories", "cli_runs", "fault:MissingProperty", "fault:NotAnObject", "fault:BuiltinFailure"}
			for _, o := range c12Ops() {
				out = append(out, "op:"+o.name)
			}
			return out
		},
	})
}
