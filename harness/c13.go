package main

import (
	"fmt"
	"time"
	"os"
	"path/filepath"
	"strings"

	"verifharness/ref"
)

// C13 — execution is deterministic (pure repetition; no oracle).

func firstDiagRaw(stderr string) string {
	d := ParseDiags(stderr)
	if len(d) == 0 {
		return ""
	}
	return d[0].Raw
}

// c13Repl: an interactive session is a sequence of executions in one process.  The same
// self-contained line sent several times within a session (with other lines in between) must be
// answered identically each time, and the whole transcript must repeat across fresh processes.
func c13Repl(c *Ctx, cs *Case) {
	lines := strings.Split(cs.Src, "\n")
	var first []string
	var firstMerged string
	for rep := 0; rep < c.N(2, 5); rep++ {
		resp, o := c20Session(c, lines, true)
		if o.TimedOut {
			c.Inconclusive("CLI watchdog")
			return
		}
		if o.Exit == 2 {
			c.Violate(Violation{Why: "interactive session died abnormally", Observed: trunc(o.Merged, 500), Signature: "cli-abnormal: " + firstPanicLine(o.Merged)})
			return
		}
		if rep == 0 {
			first, firstMerged = resp, o.Merged
			if len(resp) != len(lines)+1 {
				c.Count("repl_sessions_unsplittable", 1)
				return
			}
			var at []int
			for i, l := range lines {
				if l == cs.X["line"] {
					at = append(at, i)
				}
			}
			for _, i := range at[1:] {
				if resp[i] != resp[at[0]] {
					c.Violate(Violation{Why: fmt.Sprintf("the same self-contained line %q is answered differently the %d-th time it is executed in one process", trunc(cs.X["line"], 80), i+1),
						Expected: trunc(resp[at[0]], 200), Observed: trunc(resp[i], 200) + "\n--- transcript ---\n" + trunc(o.Merged, 500), Signature: "repl-repetition-differs"})
					return
				}
			}
			c.Count("repl_line_repetitions", int64(len(at)))
			continue
		}
		if o.Merged != firstMerged {
			c.Violate(Violation{Why: fmt.Sprintf("execution %d of the same interactive session differs from execution 0", rep), Expected: trunc(firstMerged, 400), Observed: trunc(o.Merged, 400), Signature: "nondeterministic:repl-session"})
			return
		}
	}
	_ = first
	c.Count("repl_sessions", 1)
	c.Nontrivial(cs.Src)
	c.Sample(cs.Gen, map[string]interface{}{"lines": lines, "transcript": trunc(firstMerged, 300)})
}

func c13Judge(c *Ctx, cs *Case) {
	c.Begin(cs)
	if cs.Mode == "repl" {
		c13Repl(c, cs)
		return
	}
	if cs.Mode == "chunks" {
		whole := RunCLI(CLIOpts{Bin: c.Bin, Src: cs.Src, Stdin: cs.Stdin, Dir: c.Scratch})
		c.Count("cli_runs", 1)
		schemes := [][]string{strings.SplitAfter(cs.Stdin, "\n"), {cs.Stdin[:3], cs.Stdin[3:9], cs.Stdin[9:]}, {cs.Stdin[:len(cs.Stdin)/2], cs.Stdin[len(cs.Stdin)/2:]}, {cs.Stdin}}
		// cuts at every byte offset of the first characters (inside multi-byte characters too) and one byte at a time for a stretch
		for _, cut := range []int{1, 2, 4, 5, 7, 8, 10, 11, 14} {
			if cut < len(cs.Stdin) {
				schemes = append(schemes, []string{cs.Stdin[:cut], cs.Stdin[cut:]})
			}
		}
		if len(cs.Stdin) > 16 {
			one := []string{}
			for i := 0; i < 16; i++ {
				one = append(one, cs.Stdin[i:i+1])
			}
			schemes = append(schemes, append(one, cs.Stdin[16:]))
		}
		for i, chunks := range schemes {
			o := RunCLI(CLIOpts{Bin: c.Bin, Src: cs.Src, Chunks: chunks, ChunkGap: 150 * time.Millisecond, Dir: c.Scratch})
			c.Count("cli_runs", 1)
			if o.TimedOut || whole.TimedOut {
				c.Inconclusive("CLI watchdog")
				return
			}
			if o.Stdout != whole.Stdout || o.Exit != whole.Exit || firstDiagRaw(o.Stderr) != firstDiagRaw(whole.Stderr) {
				c.Violate(Violation{Why: fmt.Sprintf("the same program on the same input bytes behaves differently when the input arrives in pieces (chunking %d)", i), Expected: describeObs(whole), Observed: describeObs(o), Signature: "nondeterministic:stdin-chunking"})
				return
			}
		}
		c.Count("chunked_runs", 4)
		c.Nontrivial(cs.Src)
		return
	}
	R := c.N(8, 40)
	RP := c.N(4, 15)
	if cs.X != nil && cs.X["process_reps"] != "" {
		fmt.Sscan(cs.X["process_reps"], &RP)
	}
	var base *Obs
	if cs.Gen == "general-programs" {
		// programs the model cannot finish (unbounded loops) say nothing about determinism
		if m := RunModel(cs.Src, cs.Stdin, false, 0); m.Res != nil && strings.Contains(m.Res.OOD, "cap") {
			c.Count("skipped_out_of_domain", 1)
			return
		}
	}
	differ := func(kind string, i int, o *Obs) bool {
		if o.Stdout != base.Stdout || o.Exit != base.Exit || firstDiagRaw(o.Stderr) != firstDiagRaw(base.Stderr) {
			c.Violate(Violation{Why: fmt.Sprintf("execution %d (%s) of the same program on the same input differs from execution 0", i, kind),
				Expected: describeObs(base), Observed: describeObs(o), Signature: "nondeterministic:" + kind})
			return true
		}
		return false
	}
	if cs.X != nil && cs.X["cli_only"] == "1" {
		R = 0 // memory-hungry programs run only as separate processes
		base = RunCLI(CLIOpts{Bin: c.Bin, Src: cs.Src, Stdin: cs.Stdin, Dir: c.Scratch, Timeout: 60 * time.Second})
		if base.TimedOut {
			c.Inconclusive("CLI watchdog")
			return
		}
	}
	for i := 0; i < R; i++ {
		o := RunLib(cs.Src, RunOpts{MaxSteps: 500000, Stdin: cs.Stdin})
		if CheckAbnormal(c, o) {
			return
		}
		if i == 0 {
			base = o
			continue
		}
		if differ("in-process", i, o) {
			return
		}
	}
	c.Count("inprocess_executions", int64(R))
	if cs.X != nil && cs.X["probe_order"] != "" {
		// the "in particular" clause: initialisers of properties whose name is written once run in source order, each once
		want := strings.Split(cs.X["probe_order"], ",")
		isTag := map[string]bool{}
		for _, w := range want {
			isTag[w] = true
		}
		var got []string
		for _, ln := range strings.Split(base.Stdout, "\n") {
			if isTag[ln] {
				got = append(got, ln)
			}
		}
		if strings.Join(got, ",") != strings.Join(want, ",") {
			c.Violate(Violation{Why: "side effects of the initialisers of properties written once in an object literal did not happen once each in source order",
				Expected: "probe lines in order: " + strings.Join(want, ","), Observed: "probe lines: " + strings.Join(got, ",") + "\n" + describeObs(base), Signature: "initialiser-order"})
			return
		}
		c.Count("initialiser_order_checked", 1)
	}
	if cs.Mode == "cli" {
		envs := [][]string{nil, {"TZ=Asia/Dhaka"}, {"GOMAXPROCS=1", "TZ=UTC"}, {"GOMAXPROCS=7", "PADDING=" + strings.Repeat("x", 4000)}, {"LANG=bn_BD.UTF-8", "GODEBUG=madvdontneed=1"}}
		for i := 0; i < RP; i++ {
			o := RunCLI(CLIOpts{Bin: c.Bin, Src: cs.Src, Stdin: cs.Stdin, Dir: c.Scratch, Env: envs[i%len(envs)], Name: fmt.Sprintf("prog%d.bn", i%3), Timeout: 60 * time.Second})
			if o.TimedOut {
				c.Inconclusive("CLI watchdog")
				return
			}
			if o.Exit == 2 {
				c.Violate(Violation{Why: "CLI died abnormally", Observed: describeObs(o), Signature: "cli-abnormal: " + firstPanicLine(o.Stderr)})
				return
			}
			if differ("fresh-process", i, o) {
				return
			}
		}
		c.Count("process_executions", int64(RP))
		c.Count("cli_runs", int64(RP))
	}
	// non-trivial: the program contains an object literal or listing over >= 2 properties, or prints a function value
	if cs.X != nil && cs.X["nontrivial"] == "1" {
		c.Nontrivial(cs.Src)
	} else if strings.Contains(cs.Src, B["keys"]) || strings.Contains(cs.Src, B["values"]) || strings.Count(cs.Src, ":") >= 2 {
		c.Nontrivial(cs.Src)
	}
	if base.Exit == 0 {
		c.Count("programs_clean", 1)
	} else {
		c.Count("programs_failing", 1)
	}
	c.Sample(cs.Gen, trunc(cs.Src, 300))
}

func c13Run(c *Ctx) {
	nt := map[string]string{"nontrivial": "1"}
	// 1. shipped examples (clock statement removed, stdin supplied)
	files, _ := filepath.Glob(filepath.Join(c.Repo, "example", "*.bn"))
	for _, f := range files {
		b, err := os.ReadFile(f)
		if err != nil {
			continue
		}
		var keep []string
		for _, ln := range strings.Split(string(b), "\n") {
			if strings.Contains(ln, ref.BI["clock"]) && !strings.HasPrefix(strings.TrimSpace(ln), "//") {
				continue
			}
			keep = append(keep, ln)
		}
		if c.Mine() {
			c13Judge(c, &Case{Gen: "shipped-examples", Mode: "cli", Src: strings.Join(keep, "\n"), Stdin: "user text\nsecond\n", X: nt})
		}
	}
	// 2. programs whose behaviour could depend on map iteration order or addresses
	keys := []string{"a", "b", "c", "d", "e", "f", "ক", "খ", "Total", "total", "x1", "x10", "x2"}
	r := c.Rand("objects")
	n := c.N(400, 8000)
	for k := 0; k < n; k++ {
		nk := 2 + r.Intn(5)
		perm := make([]string, 0, nk)
		used := map[string]bool{}
		for len(perm) < nk {
			kk := keys[r.Intn(len(keys))]
			if !used[kk] {
				used[kk] = true
				perm = append(perm, kk)
			}
		}
		var props, plain []string
		dupKey := ""
		for i, kk := range perm {
			props = append(props, fmt.Sprintf(`%s: p("%s", %d)`, kk, kk, i+1))
			plain = append(plain, fmt.Sprintf(`%s: %d`, kk, i+1))
		}
		if r.Intn(4) == 0 {
			// a property name written twice (determinism must hold for such literals too)
			d := perm[r.Intn(len(perm))]
			dupKey = d
			props = append(props, fmt.Sprintf(`%s: p("%s-again", %d)`, d, d, 90+r.Intn(9)))
			plain = append(plain, fmt.Sprintf(`%s: %d`, d, 90+r.Intn(9)))
		}
		lit := "{" + strings.Join(props, ", ") + "}"
		plit := "{" + strings.Join(plain, ", ") + "}"
		var src string
		probeOrder, probeTwice := false, false
		switch r.Intn(16) {
		case 0: // side effects of initialisers in source order
			probeOrder = true
			src = Lines(Fun("p", "t, v", " "+Print("t")+" "+Ret("v")+" "), Var("o", lit), Print("o"))
		case 1: // repeated listings of an unmodified object
			src = Lines(Var("o", plit), Print(BI("keys", "o")), Print(BI("values", "o")), Print(BI("keys", "o")), Print(BI("values", "o")), Print(BI("keys", "o")+"[0]"), Print(BI("values", "o")+"[1]"))
		case 2: // diagnostic that renders an object-literal expression
			src = Lines(Print(`"x"`), Print("("+plit+").zz"))
		case 3: // two initialisers fail: which diagnostic comes first?
			src = Lines(Var("o", "{"+perm[0]+": নেই১, "+perm[1]+": (1 / 0), z9: nil.k}"))
		case 4: // listing after modification, control flow depending on listing order
			src = Lines(Var("o", plit), "o.zz = 0;", BI("delete", "o", `"`+perm[0]+`"`)+";", Var("ks", BI("keys", "o")), Print("ks"), If("ks[0] == \"zz\"", Print(`"zz first"`)), Print(BI("values", "o")))
		case 5: // printing functions, built-ins and containers of them
			src = Lines(Fun("f", "", ""), Print("f"), Print(B["len"]), Print("[f, "+B["abs"]+"]"), Print("{fn: f, o: "+plit+"}"), Print(plit))
		case 6: // fail after map iteration
			src = Lines(Var("o", plit), Var("vs", BI("values", "o")), Print("vs[0] / (vs[1] - vs[1])"))
		case 7: // nested literals with probes at several levels
			probeOrder, probeTwice = true, true
			src = Lines(Fun("p", "t, v", " "+Print("t")+" "+Ret("v")+" "), Var("o", "{"+perm[0]+": "+lit+", "+perm[1]+": ["+lit+"]}"), Print("o"))
		case 8: // self-containing values holding multi-key objects, printed several times
			src = Lines(Var("o", plit), "o.self = o;", Var("arr", "[o, "+plit+", 1]"), "arr[2] = arr;", Print("o"), Print("arr"), Print("o"), Print("arr"), Var("x", plit), Var("y", "{back: x, "+plain[0]+"}"), "x.fwd = y;", Print("x"), Print("[y, x, y]"))
		case 9: // property names that are canonically equivalent spellings of each other; deletes by a third spelling
			src = Lines(Var("o", "{}"), "o.a\u0323\u0302 = 1;", "o.\u1ea1\u0302 = 2;", "o.b = 3;", "o.c = 4;", "o.\u09df = 5;", "o.\u09af\u09bc = 6;", Print(BI("keys", "o")), Print(BI("values", "o")),
				Var("t", "{a\u0323\u0302: 1, \u1ea1\u0302: 2, m: 0, n: 0, p: 0}"), Print("t"), BI("delete", "t", "\"\u1ead\"")+";", Print("t"), Print(BI("keys", "t")))
		case 10: // min / max handed an object (not an array) whose values make the result order-sensitive
			src = Lines(Var("o", "{a: "+BI("sqrt", "-1")+", b: 1, c: 2, d: 0, e: (-0), f: 3}"), Print(BI("values", "o")), Print(BI("min", BI("values", "o"))), Print(BI("max", "o")), Print(BI("min", "o")))
		case 11: // several arrays that each contain themselves, held by one object; printed repeatedly
			src = Lines(Var("ka", "[0]"), "ka[0] = ka;", Var("kb", "[0, 1]"), "kb[0] = kb;", Var("kc", "[0]"), "kc[0] = [kc];", Var("o", "{p: ka, q: kb, r: 5, s: kc, t: ka}"), Print("o"), Print("o"), Print("[o, ka]"), Print("ka"), Print("o"))
		case 12: // literals made of constants and bare names, several of them undefined
			src = Lines(Var("def", "1"), Print(`"x"`), Var("o", "{"+perm[0]+": 1, "+perm[1]+": নেই_ক, m1: def, m2: নেই_খ, m3: \"s\", m4: নেই_গ, m5: নেই_ঘ}"), Print("o"))
		case 13: // a failing assignment / read next to several equally similar names
			src = Lines(Var("price_a", "1"), Var("price_b", "2"), Var("price_c", "3"), Var("pric", "4"), Var("prices", "5"), Print(`"x"`), []string{"price = 9;", Print("price"), "price_d = 1;", "prize = price_a;"}[r.Intn(4)], Print(`"AFTER"`))
		case 14: // a missing property next to several equally similar ones
			src = Lines(Var("it", "{nam: 1, dam_k: 2, ekok: 3, mojud: 4, dam_kh: 5, dam_g: 6}"), Print(`"x"`), []string{Print("it.dam"), "it.dam.x = 1;", Print("it.da"), BI("delete", "it", `"dam"`) + ";"}[r.Intn(4)], Print(`"AFTER"`))
		default: // listing used as data
			src = Lines(Var("o", plit), Var("acc", `""`), Var("ks", BI("keys", "o")), For(Var("i", "0"), "i < "+BI("len", "ks"), "i = i + 1", "{ acc = acc + ks[i] + \",\"; }"), Print("acc"))
		}
		if !c.Mine() {
			continue
		}
		cs := &Case{Gen: "map-order-sensitive", Src: src, X: nt}
		if probeOrder {
			var once []string
			for _, kk := range perm {
				if kk != dupKey {
					once = append(once, kk)
				}
			}
			if probeTwice {
				once = append(append([]string{}, once...), once...) // the literal is written twice in the program
			}
			cs.X = map[string]string{"nontrivial": "1", "probe_order": strings.Join(once, ",")}
		}
		if k%3 == 0 {
			cs.Mode = "cli"
		}
		c13Judge(c, cs)
	}
	// 2a'. numbered property names (same stem, different digit counts, either script) next to sub-step names that
	// sort between them as text: one listing order, whatever order the properties were written or stored in
	for si, set := range [][]string{{"q9", "q10", "q2b"}, {"x1", "x10", "x2", "x1z"}, {"\u09a7\u09be\u09aa\u09ef", "\u09a7\u09be\u09aa\u09e7\u09e6", "\u09a7\u09be\u09aa\u09e8\u0995"}, {"q9", "q10", "q2b", "q1", "q11", "q1z", "q02", "q2", "q"},
		{"r1", "r01", "r001", "r1a", "r10", "R2"}, {"item2", "item10", "item1b", "Item3", "item"}, {"k\u09e8", "k\u09e7\u09e6", "k2", "k10", "k1\u0995"}} {
		for rot := 0; rot < len(set); rot++ {
			var plain, stores []string
			for i := range set {
				kk := set[(i+rot)%len(set)]
				plain = append(plain, fmt.Sprintf("%s: %d", kk, i+1))
				stores = append(stores, fmt.Sprintf("s.%s = %d;", kk, i+1))
			}
			plit := "{" + strings.Join(plain, ", ") + "}"
			src := Lines(Var("o", plit), Print(BI("keys", "o")), Print(BI("values", "o")), Print("o"), Print(BI("keys", "o")), Var("s", "{}"), strings.Join(stores, " "), Print(BI("keys", "s")), Print(BI("values", "s")), Print("s"),
				"o.zz9 = 0;", BI("delete", "o", `"`+set[0]+`"`)+";", Print(BI("keys", "o")), Print(BI("values", "o")), Print("[o, s]"))
			if !c.Mine() {
				continue
			}
			cs := &Case{Gen: "map-order-sensitive", Src: src, X: map[string]string{"nontrivial": "1", "numbered": fmt.Sprint(si)}}
			if rot%2 == 1 {
				cs.Mode = "cli"
			}
			c13Judge(c, cs)
		}
	}
	// 2b. literals in which one or two names are written twice, every initialiser a tagged probe
	r = c.Rand("dupkeys")
	n = c.N(120, 3000)
	for k := 0; k < n; k++ {
		nk := 3 + r.Intn(4)
		var perm []string
		used := map[string]bool{}
		for len(perm) < nk {
			kk := keys[r.Intn(len(keys))]
			if !used[kk] {
				used[kk] = true
				perm = append(perm, kk)
			}
		}
		type ent struct{ k, tag string }
		var ents []ent
		for _, kk := range perm {
			ents = append(ents, ent{kk, kk})
		}
		dup := map[string]bool{}
		for j := 0; j <= r.Intn(2); j++ {
			d := perm[r.Intn(len(perm))]
			dup[d] = true
			at := r.Intn(len(ents) + 1)
			ents = append(ents[:at], append([]ent{{d, d + "-again"}}, ents[at:]...)...)
		}
		var props, once []string
		for i, e := range ents {
			props = append(props, fmt.Sprintf(`%s: p("%s", %d)`, e.k, e.tag, i+1))
			if !dup[e.k] {
				once = append(once, e.tag)
			}
		}
		src := Lines(Fun("p", "t, v", " "+Print("t")+" "+Ret("v")+" "), Var("o", "{"+strings.Join(props, ", ")+"}"), Print("o"), Print(BI("keys", "o")), Print(BI("values", "o")))
		if !c.Mine() {
			continue
		}
		c13Judge(c, &Case{Gen: "map-order-sensitive", Src: src, X: map[string]string{"nontrivial": "1", "probe_order": strings.Join(once, ",")}})
	}
	// 2e. a program that keeps ~150 MB of distinct strings alive while producing short-lived garbage next to it
	// (what the collector has or has not reclaimed at any moment must not show)
	if c.Mine() {
		big := Lines(Var("s", `"x"`), For(Var("d", "0"), "d < 20", "d = d + 1", "{ s = s + s; }"), Var("keep", "[]"), For(Var("i", "0"), "i < 150", "i = i + 1", "{ keep = "+BI("append", "keep", "s + i")+"; }"),
			Var("seen", "0"), For(Var("j", "0"), "j < 1500", "j = j + 1", "{ "+Var("t", "s + j")+" "+If("j % 100 == 0", "{ "+Print(`"progress " + j`)+" }")+" seen = seen + 1; }"), Print("seen"), Print(BI("len", "keep")))
		c13Judge(c, &Case{Gen: "memory-hungry", Mode: "cli", Src: big, X: map[string]string{"nontrivial": "1", "cli_only": "1"}})
	}
	// 2f. how the input arrives (all at once, line by line, in odd pieces) must not show
	for _, prog := range []string{
		Lines(Var("a", BI("input", `"name: "`)), Var("b", BI("input", `"city: "`)), Var("cc", BI("input", `"year: "`)), Print(`a + "/" + b + "/" + cc`)),
		Lines(Var("t", `""`), For(Var("i", "0"), "i < 3", "i = i + 1", "{ t = t + "+BI("input", `"> "`)+"; "+Print("t")+" }"), Print(BI("input")), Print(`"end"`)),
	} {
		if c.Mine() {
			c13Judge(c, &Case{Gen: "stdin-chunking", Mode: "chunks", Src: prog, Stdin: "alice\ndhaka\n1999\nlast\n", X: nt})
		}
		if c.Mine() {
			c13Judge(c, &Case{Gen: "stdin-chunking", Mode: "chunks", Src: prog, Stdin: "\u0995\u09b0\u09bf\u09ae\n\u09a2\u09be\u0995\u09be \u00e9\n\u09e7\u09ef\u09ef\u09ef\n\u09b6\u09c7\u09b7\n", X: nt})
		}
	}
	// 2d. texts with several lexical / syntax errors on different lines: which diagnostic comes first
	{
		r = c.Rand("multi-error")
		bad := []string{"@", "#", "$", "\u201chi\u201d", "a \u200c b", "`", "?", "\\", "1 +;", ")", Print("1") + " }", K["var"] + " ;", "\"open", "x = = 2;", "12abc\u09e7 $"}
		okl := []string{Print("1"), Var("q", "2"), "// note", "", Print(`"s"`), "q = 3;"}
		n = c.N(120, 4000)
		for k := 0; k < n; k++ {
			var ls []string
			nb := 2 + r.Intn(4)
			for len(ls) < nb*2 {
				if len(ls)%2 == 0 {
					ls = append(ls, okl[r.Intn(len(okl))])
				} else {
					ls = append(ls, bad[r.Intn(len(bad))])
				}
			}
			if !c.Mine() {
				continue
			}
			cs := &Case{Gen: "several-static-errors", Src: strings.Join(ls, "\n") + "\n", X: nt}
			if k%2 == 0 {
				cs.Mode = "cli"
			}
			c13Judge(c, cs)
		}
	}
	// 2b'. several different built-in names declared in one text: the first diagnostic is the same every time
	for _, src := range []string{
		Lines(Print("1"), Var(B["len"], "1"), Print("2"), Var(B["round"], "2"), Fun(B["abs"], "", ""), Var(B["max"], "3"), Var(B["keys"], "4")),
		Lines(Fun(B["sqrt"], "a", " "+Ret("a")+" "), Var(B["min"], "0"), K["var"]+" ok = 1, "+B["pow"]+" = 2, "+B["sin"]+" = 3;", Fun("f", "", " "+Var(B["cos"], "1")+" "+Var(B["tan"], "2")+" ")),
	} {
		if c.Mine() {
			c13Judge(c, &Case{Gen: "several-static-errors", Mode: "cli", Src: src, X: map[string]string{"nontrivial": "1", "process_reps": "12"}})
		}
	}
	// 2b''. a syntax error and a lexical error a given number of tokens apart, in either order: which diagnostic comes first is
	// fixed, whatever the distance (distances around every power of two up to 1024: the sizes buffers and batches come in)
	{
		var dists []int
		for b := 1; b <= 1024; b *= 2 {
			for d := b - 4; d <= b+14; d += 2 {
				if d >= 0 {
					dists = append(dists, d)
				}
			}
		}
		seen := map[int]bool{}
		for _, d := range dists {
			if seen[d] {
				continue
			}
			seen[d] = true
			terms := strings.Repeat(" + x", d/2)
			for oi, src := range []string{
				Var("x", "5") + "\n" + K["var"] + " y = 2\n" + K["print"] + " x" + terms + " @ 2;\n" + Print("y") + "\n",
				Var("x", "5") + "\n" + K["print"] + " # x" + terms + ";\n" + K["var"] + " y = 2\n" + Print("y") + "\n",
			} {
				if c.Mine() {
					c13Judge(c, &Case{Gen: "several-static-errors", Mode: "cli", Src: src, X: map[string]string{"nontrivial": "1", "distance": fmt.Sprint(d), "order": fmt.Sprint(oi), "process_reps": "10"}})
				}
			}
		}
	}
	// 2c. interactive sessions: a self-contained line repeated with other lines (declarations, assignments
	// to built-in names, every kind of error) in between
	{
		pool := c20Pool()
		extra := []string{Print("nope")[:len(Print("nope"))-1], "nope", "{ " + Print("1 / 0"), B["len"] + " = 5;", B["abs"] + " = nil;", B["max"] + " = " + B["min"] + ";", B["round"] + " = 1; " + B["len"] + " = 2;", Var("v", "1") + " v = 2;", Fun("f", "", " "+Ret("1")+" "), "f = nil;"}
		var selfs []string
		for _, l := range pool {
			if l.self && l.kind != "long" && l.kind != "empty" && l.kind != "declaration" {
				selfs = append(selfs, l.text)
			}
		}
		// lines that fail tens of thousands of calls deep, several times per session, between lines that call functions
		for _, deep := range []string{
			Fun("dp", "n", " "+If("n == 0", "{ "+Ret("nil.k")+" }")+" "+Ret("dp(n - 1)")+" ") + " dp(50000);",
			Fun("ds", "n", " "+If("n == 0", "{ "+Ret("")+" }")+" "+Ret("n + ds(n - 1)")+" ") + " ds(45000);",
			Fun("ok", "n", " "+If("n == 0", "{ "+Ret("0")+" }")+" "+Ret("1 + ok(n - 1)")+" ") + " ok(30000);",
		} {
			other := Fun("f", "a", " "+Ret("a + 1")+" ") + " f(1);"
			if c.Mine() {
				c13Judge(c, &Case{Gen: "repl-repetition", Mode: "repl", Src: strings.Join([]string{deep, other, deep, other, deep, deep, other, deep}, "\n"), X: map[string]string{"line": deep}})
			}
			if c.Mine() {
				c13Judge(c, &Case{Gen: "repl-repetition", Mode: "repl", Src: strings.Join([]string{other, deep, deep, deep, other, deep, other}, "\n"), X: map[string]string{"line": other}})
			}
		}
		r = c.Rand("repl")
		n = c.N(150, 6000)
		for k := 0; k < n; k++ {
			L := selfs[r.Intn(len(selfs))]
			lines := []string{L}
			for rep := 0; rep < 2; rep++ {
				for j := 0; j <= r.Intn(3); j++ {
					if r.Intn(3) == 0 {
						lines = append(lines, extra[r.Intn(len(extra))])
					} else if p := pool[r.Intn(len(pool))]; p.kind != "long" {
						lines = append(lines, p.text)
					}
				}
				lines = append(lines, L)
			}
			if !c.Mine() {
				continue
			}
			c13Judge(c, &Case{Gen: "repl-repetition", Mode: "repl", Src: strings.Join(lines, "\n"), X: map[string]string{"line": L}})
		}
	}
	// 3. programs sampled from the general generator (with faults)
	r = c.Rand("general")
	n = c.N(1500, 20000)
	for k := 0; k < n; k++ {
		g := NewPG(r, 10+r.Intn(30))
		g.Faults = r.Intn(3) == 0
		src := g.Program(3)
		if !c.Mine() {
			continue
		}
		cs := &Case{Gen: "general-programs", Src: src}
		if k%10 == 0 {
			cs.Mode = "cli"
		}
		c13Judge(c, cs)
	}
}

func init() {
	register(&CheckDef{
		ID:   "C13",
		Rule: "programs: the shipped examples (ক্লক statement removed, stdin supplied); seeded programs biased to what could depend on hash-iteration order or addresses (object literals of 2-6 keys from a pool with case-colliding and prefix-related names whose initialisers are tagged probes, nested literals, repeated key/value listings, listings used as data and in control flow, diagnostics rendering an object-literal expression, two failing initialisers, printing functions/built-ins/containers, failing after map iteration); programs from the general random generator. Each program is executed 8 (quick) / 40 (thorough) times in one process and (a third / a tenth of them) 4 / 15 times as fresh processes with varied environment (TZ, GOMAXPROCS, environment size, script name); stdout bytes, exit status and the first diagnostic (verbatim) must be identical; for literals with tagged probes (including ones where one name is written twice) the probes of the names written once must additionally appear once each in source order. Interactive sessions through the binary (a self-contained line sent three times with declarations, assignments to built-in names and every kind of failing line in between) must answer that line identically each time and repeat byte for byte across processes. Go randomises every map iteration, so the repetition count plays the role of the schedule. Non-trivial = distinct program with an object literal / listing over >= 2 properties or a printed function value.",
		Assumptions: []string{"a k-entry map iteration repeats its order with probability about 1/k per execution; a 3-entry dependency escapes 8 comparisons with probability < 1e-3 and 40 with < 1e-18"},
		Run:         c13Run,
		Judge:       c13Judge,
		MustCount:   func(c *Ctx) []string { return []string{"gen:shipped-examples", "gen:map-order-sensitive", "gen:general-programs", "inprocess_executions", "process_executions", "programs_clean", "programs_failing", "initialiser_order_checked", "gen:several-static-errors", "chunked_runs", "repl_sessions", "repl_line_repetitions"} },
	})
}
