package main

import (
	"fmt"
	"strings"
)

// C14 — operands evaluated once, left to right; short-circuit on truthiness.

type c14Gen struct {
	tag int
	r   *Rng
}

func (g *c14Gen) probe(kind string, lit string) string {
	g.tag++
	return fmt.Sprintf(`p("%s%d", %s)`, kind, g.tag, lit)
}

type c14Form struct {
	name string
	out  string   // kind produced
	in   []string // kinds of holes
	tmpl string   // %0 %1 %2 holes
}

func c14Forms() []c14Form {
	f := []c14Form{}
	for _, op := range []string{"+", "-", "*", "/", "%", "**", "&", "|", "^", "<<", ">>"} {
		f = append(f, c14Form{"bin" + op, "N", []string{"N", "N"}, "(%0 " + op + " %1)"})
	}
	for _, op := range []string{"<", "<=", ">", ">=", "==", "!="} {
		f = append(f, c14Form{"cmp" + op, "B", []string{"N", "N"}, "(%0 " + op + " %1)"})
	}
	f = append(f,
		c14Form{"neg", "N", []string{"N"}, "(-%0)"}, c14Form{"bitnot", "N", []string{"N"}, "(~%0)"}, c14Form{"not", "B", []string{"N"}, "(!%0)"},
		c14Form{"group", "N", []string{"N"}, "((%0))"},
		c14Form{"index", "N", []string{"A", "I"}, "%0[%1]"},
		c14Form{"call2", "N", []string{"F", "N", "N"}, "%0(%1, %2)"}, c14Form{"call0", "N", []string{"F0"}, "%0()"}, c14Form{"call3", "N", []string{"F3", "N", "N", "N"}, "%0(%1, %2, %3)"},
		c14Form{"prop", "N", []string{"O"}, "%0.k"},
		c14Form{"or", "N", []string{"N", "N"}, "(%0 || %1)"}, c14Form{"and", "N", []string{"N", "N"}, "(%0 && %1)"},
		c14Form{"or-word", "N", []string{"N", "N"}, "(%0 " + K["or"] + " %1)"}, c14Form{"and-word", "N", []string{"N", "N"}, "(%0 " + K["and"] + " %1)"},
		c14Form{"assign", "N", []string{"N"}, "(x = %0)"},
		c14Form{"setindex", "N", []string{"A", "I", "N"}, "(%0[%1] = %2)"}, c14Form{"setprop", "N", []string{"O", "N"}, "(%0.k = %1)"},
		c14Form{"concat-ss", "S", []string{"S", "S"}, "(%0 + %1)"}, c14Form{"concat-sn", "S", []string{"S", "N"}, "(%0 + %1)"}, c14Form{"concat-ns", "S", []string{"N", "S"}, "(%0 + %1)"},
		c14Form{"array3", "A", []string{"N", "N", "N"}, "[%0, %1, %2]"}, c14Form{"append", "A", []string{"A", "N", "N"}, BI("append", "%0", "%1", "%2")},
		c14Form{"object3", "O", []string{"N", "N", "N"}, "{k: %0, a: %1, z: %2}"},
		c14Form{"builtin-max", "N", []string{"N", "N", "N"}, BI("max", "%0", "%1", "%2")}, c14Form{"builtin-pow", "N", []string{"N", "N"}, BI("pow", "%0", "%1")},
		c14Form{"len", "N", []string{"A"}, BI("len", "%0")},
		// arguments are evaluated whatever the callee does with them (nothing, return at once, use one)
		c14Form{"call-empty-body", "X", []string{"N", "N"}, "noop2(%0, %1)"}, c14Form{"call-comment-body", "X", []string{"N"}, "noopc(%0)"},
		c14Form{"call-return-only", "X", []string{"N", "N"}, "retonly(%0, %1)"}, c14Form{"call-ignores-some", "N", []string{"N", "N", "N"}, "ignore3(%0, %1, %2)"},
		c14Form{"call-empty-body-assign-args", "X", []string{"N", "N"}, "noop2(x = %0, x = x + %1)"},
		// operands of a faulting operation are still evaluated once, in order, before the fault
		c14Form{"index-on-nonarray", "N", []string{"Z", "I"}, "%0[%1]"},
		c14Form{"setindex-on-nonarray", "N", []string{"Z", "I", "N"}, "(%0[%1] = %2)"},
		c14Form{"index-bad-index", "N", []string{"A", "J"}, "%0[%1]"},
		c14Form{"setindex-bad-index", "N", []string{"A", "J", "N"}, "(%0[%1] = %2)"},
		c14Form{"plus-bad-left", "N", []string{"Z", "N"}, "(%0 + %1)"}, c14Form{"minus-bad-right", "N", []string{"N", "Z"}, "(%0 - %1)"},
		c14Form{"less-bad-left", "B", []string{"Z", "N"}, "(%0 < %1)"}, c14Form{"and-bad-right", "N", []string{"N", "Z"}, "(%0 & %1)"},
		c14Form{"divide-by-zero", "N", []string{"N", "ZERO"}, "(%0 / %1)"}, c14Form{"neg-bad", "N", []string{"Z"}, "(-%0)"},
		c14Form{"prop-on-nonobject", "N", []string{"Z"}, "%0.k"},
		c14Form{"builtin-bad-second", "N", []string{"N", "Z"}, BI("pow", "%0", "%1")},
		c14Form{"array-with-fault-inside", "A", []string{"N", "ZERODIV", "N"}, "[%0, %1, %2]"},
	)
	return f
}

func c14Prelude() string {
	return Lines(
		Fun("p", "t, v", " "+Print("t")+" "+Ret("v")+" "),
		Fun("add2", "a, b", " "+Ret("a * 10 + b")+" "), Fun("zero", "", " "+Ret("7")+" "), Fun("add3", "a, b, c", " "+Ret("a * 100 + b * 10 + c")+" "),
		Fun("noop2", "a, b", ""), Fun("noopc", "a", " /* nothing to do */ "), Fun("retonly", "a, b", " "+Ret("")+" "), Fun("ignore3", "a, b, c", " "+Ret("b")+" "),
		Var("x", "0"))
}

// leaf produces a probe around a literal of the wanted kind.
func (g *c14Gen) leaf(kind string) string {
	small := func() string { return fmt.Sprint(1 + g.r.Intn(3)) }
	switch kind {
	case "N":
		return g.probe("n", small())
	case "I":
		return g.probe("i", fmt.Sprint(g.r.Intn(2)))
	case "S":
		return g.probe("s", `"s`+small()+`"`)
	case "A":
		return g.probe("a", "[5, 6, 7]")
	case "O":
		return g.probe("o", "{k: 4, j: 5}")
	case "F":
		return g.probe("f", "add2")
	case "F0":
		return g.probe("f", "zero")
	case "F3":
		return g.probe("f", "add3")
	case "B":
		return g.probe("b", []string{True(), False()}[g.r.Intn(2)])
	case "Z": // a value no arithmetic / index / property operation supports
		return g.probe("z", []string{"nil", True(), "zero", "{k: 1}"}[g.r.Intn(4)])
	case "J": // a bad index
		return g.probe("j", []string{"(-1)", "1.5", `"x"`, "nil", "5", "[0]"}[g.r.Intn(6)])
	case "ZERO":
		return g.probe("n", "0")
	case "ZERODIV":
		return "(" + g.probe("n", "1") + " / " + g.probe("n", "0") + ")"
	}
	panic(kind)
}

func (g *c14Gen) build(forms []c14Form, f c14Form, depth int, pick func(kind string) *c14Form) string {
	s := f.tmpl
	for i := len(f.in) - 1; i >= 0; i-- {
		var sub string
		k := f.in[i]
		if depth > 1 && (k == "N" || k == "S" || k == "A" || k == "O") {
			if sf := pick(k); sf != nil {
				sub = g.build(forms, *sf, depth-1, pick)
			}
		}
		if sub == "" {
			sub = g.leaf(k)
		}
		s = strings.ReplaceAll(s, fmt.Sprintf("%%%d", i), sub)
	}
	return s
}

// retag renumbers probe tags in textual (source) order so that tags are
// unique and the expected order is simply ascending where evaluation is
// strictly left to right.
func retag(s string) string {
	var b strings.Builder
	n := 0
	for {
		i := strings.Index(s, `p("`)
		if i < 0 {
			b.WriteString(s)
			break
		}
		b.WriteString(s[:i+3])
		rest := s[i+3:]
		j := strings.Index(rest, `"`)
		kind := strings.TrimRight(rest[:j], "0123456789")
		n++
		b.WriteString(fmt.Sprintf("%s%d", kind, n))
		s = rest[j:]
	}
	return b.String()
}

func c14Judge(c *Ctx, cs *Case) {
	c.Begin(cs)
	if cs.Mode == "cli" {
		m := RunModel(cs.Src, "", false, 0)
		if cliJudge(c, cs, m) == "" {
			c.Nontrivial("cli|" + cs.Src)
		}
		return
	}
	v, m, _ := stdJudge(c, cs, RunOpts{}, JudgeOpts{})
	if v == "" && m.Res != nil {
		c.Nontrivial(cs.Src)
		if m.Res.Fault != nil {
			c.Count("faulted", 1)
		} else {
			c.Count("clean", 1)
		}
		if cs.X != nil && cs.X["form"] != "" {
			c.Count("form:"+cs.X["form"], 1)
		}
	}
	c.Sample(cs.Gen, lastLines(cs.Src, 2))
}

func c14Run(c *Ctx) {
	forms := c14Forms()
	pre := c14Prelude()
	byKind := map[string][]c14Form{}
	for _, f := range forms {
		byKind[f.out] = append(byKind[f.out], f)
	}
	emit := func(gen, form, expr string, cli bool) {
		src := pre + Print(retag(expr)) + "\n" + Print("x") + "\n"
		if c.Mine() {
			c14Judge(c, &Case{Gen: gen, Src: src, X: map[string]string{"form": form}})
		}
		if cli && c.Mine() {
			c14Judge(c, &Case{Gen: gen + "-cli", Mode: "cli", Src: src, X: map[string]string{"form": form}})
		}
	}
	g := &c14Gen{r: c.Rand("leaves")}
	// depth 1: every form with probe leaves (several leaf value draws)
	for _, f := range forms {
		for rep := 0; rep < 6; rep++ {
			emit("forms-depth1", f.name, g.build(forms, f, 1, nil), rep == 0)
		}
	}
	// depth 2: every form x every compatible sub-form in its first composite hole, others random
	for _, f := range forms {
		for hole, k := range f.in {
			for _, sf := range byKind[k] {
				sfc := sf
				cnt := 0
				pick := func(kind string) *c14Form {
					cnt++
					if kind == k && cnt >= 0 {
						return &sfc
					}
					return nil
				}
				_ = hole
				emit("forms-depth2", f.name+"<"+sf.name, g.build(forms, f, 2, pick), false)
			}
		}
	}
	// depth 3: random
	r := c.Rand("depth3")
	n := c.N(20000, 3000000)
	for k := 0; k < n; k++ {
		f := forms[r.Intn(len(forms))]
		pick := func(kind string) *c14Form {
			if r.Intn(3) == 0 {
				return nil
			}
			cands := byKind[kind]
			if len(cands) == 0 {
				return nil
			}
			return &cands[r.Intn(len(cands))]
		}
		g2 := &c14Gen{r: r}
		emit("forms-depth3-random", "", g2.build(forms, f, 3, pick), k%20 == 0)
	}
	// truthiness table: values x contexts
	vals := []struct{ expr, class string }{
		{"nil", "falsy"}, {False(), "falsy"}, {"0", "falsy"}, {"(-0)", "falsy"}, {"(0 * 5)", "falsy"}, {"(7 & 8)", "falsy"}, {"(1 >> 3)", "falsy"},
		{`""`, "falsy"}, {`("" + "")`, "falsy"}, {"o.e", "falsy"}, {"a[0]", "falsy"}, {"emp()", "falsy"},
		// zeros and empty texts made by built-ins
		{BI("len", "[]"), "falsy"}, {BI("abs", "0"), "falsy"}, {BI("round", "0.2"), "falsy"}, {BI("min", "3", "0"), "falsy"}, {BI("max", "[0]"), "falsy"}, {BI("pow", "0", "2"), "falsy"}, {BI("sqrt", "0"), "falsy"}, {BI("sin", "0"), "falsy"}, {"(" + BI("len", "[1]") + " - 1)", "falsy"}, {BI("keys", "{}") + "== nil", "falsy"},
		{BI("len", "[0]"), "truthy"}, {BI("abs", "-0.5"), "truthy"}, {BI("round", "0.5"), "truthy"}, {BI("append", "[]"), "truthy"}, {BI("keys", "{}"), "truthy"}, {`"\t"`, "truthy"}, {`"  "`, "truthy"}, {"\"\u00a0\"", "truthy"},
		{True(), "truthy"}, {"1", "truthy"}, {"(-1)", "truthy"}, {"0.5", "truthy"}, {"0.001", "truthy"}, {"(7 & 3)", "truthy"}, {"((10 ** 400) - (10 ** 400))", "truthy"}, {"(10 ** 400)", "truthy"},
		{`"0"`, "truthy"}, {`" "`, "truthy"}, {`("" + 0)`, "truthy"}, {`"` + K["false"] + `"`, "truthy"}, {"[]", "truthy"}, {"[0]", "truthy"}, {"{}", "truthy"}, {"p", "truthy"}, {B["len"], "truthy"},
	}
	tpre := pre + Lines(Var("o", `{e: ""}`), Var("a", `["", 0]`), Fun("emp", "", " "+Ret(`"" + ""`)+" "))
	for _, v := range vals {
		ctxs := []string{
			IfElse("v", Print(`"then"`), Print(`"else"`)),
			Print("!v"), Print("!!v"),
			Print(`p("L", v) || p("R", "right")`), Print(`p("L", v) && p("R", "right")`),
			Print(`p("L", v) ` + K["or"] + ` p("R", "right")`), Print(`p("L", v) ` + K["and"] + ` p("R", "right")`),
			Var("n", "0") + " " + While("v", "{ n = n + 1; "+Print(`"body"`)+" "+If("n == 2", Break())+" }"),
			For(Var("n", "0"), "v", "n = n + 1", "{ "+Print(`"body"`)+" "+If("n == 1", Break())+" }"),
			Print(`(v || 0) && "x"`), Print(`!(v && 1)`),
		}
		for ci, ctx := range ctxs {
			src := tpre + Var("v", v.expr) + "\n" + ctx + "\n"
			x := map[string]string{"form": fmt.Sprintf("truthiness-ctx%d", ci)}
			if c.Mine() {
				c14Judge(c, &Case{Gen: "truthiness-" + v.class, Src: src, X: x})
			}
			if c.Mine() {
				c14Judge(c, &Case{Gen: "truthiness-" + v.class + "-cli", Mode: "cli", Src: src, X: x})
			}
		}
	}
	// unparenthesised mixed || / && chains: the grouping decides which operands run at all
	chain := []string{"%0 || %1 && %2", "%0 && %1 || %2", "%0 || %1 || %2 && %3", "%0 && %1 || %2 && %3", "%0 || %1 && %2 || %3", "! %0 || %1 && ! %2"}
	for _, tmpl := range chain {
		for _, sp := range [][2]string{{"||", "&&"}, {K["or"], K["and"]}, {"||", K["and"]}} {
			t := strings.ReplaceAll(strings.ReplaceAll(tmpl, "||", "\x01"), "&&", "\x02")
			t = strings.ReplaceAll(strings.ReplaceAll(t, "\x01", sp[0]), "\x02", sp[1])
			n := strings.Count(tmpl, "%")
			for mask := 0; mask < 1<<uint(n); mask++ {
				e := t
				for i := 0; i < n; i++ {
					v := fmt.Sprintf("%d", i+1)
					if mask>>uint(i)&1 == 1 {
						v = []string{"0", "nil", `""`, False()}[i%4]
					}
					e = strings.ReplaceAll(e, fmt.Sprintf("%%%d", i), fmt.Sprintf(`p("L%d", %s)`, i, v))
				}
				src := pre + Print(e) + "\n"
				if c.Mine() {
					c14Judge(c, &Case{Gen: "logical-chains", Src: src, X: map[string]string{"form": "logical-chain"}})
				}
			}
		}
	}
	// a condition may be any expression — a negation, a complement, arithmetic, a comparison, an element, a call, an
	// assignment: the truthiness of its VALUE decides, exactly as ! and the logical operators see that value
	for _, E := range []string{"0", "5", "(-1)", "0.5", `p("c", 5)`, `p("c", 0)`, "1"} {
		for si, shape := range []string{"-%s", "~%s", "!%s", "(-%s)", "- -%s", "~~%s", "!-%s", "!~%s", "-%s && 1", "0 || ~%s", "(-%s) || 0", "%s + 0", "%s - 5", "%s == 5", "[%s][0]", "idf(%s)", "w = %s", "-%s * 1", "~%s + 1", "-(%s - 5)"} {
			cond := fmt.Sprintf(shape, E)
			src := tpre + Lines(Fun("idf", "x", " "+Ret("x")+" "), Var("w", "0"), IfElse(cond, Print(`"then"`), Print(`"else"`)), Var("n", "0")+" "+While(cond, "{ n = n + 1; "+Print(`"body"`)+" "+Break()+" }"),
				For(";", cond, "", "{ "+Print(`"fbody"`)+" "+Break()+" }"), Print("!!("+cond+")"), Print("!("+cond+")"), Print("("+cond+") || \"r\""))
			if c.Mine() {
				c14Judge(c, &Case{Gen: "truthiness-condition-shapes", Src: src, X: map[string]string{"form": fmt.Sprintf("condition-shape%d", si)}})
			}
		}
	}
	// a plain assignment evaluates its value before the store, also when the store then fails (no such variable)
	for _, src := range []string{
		pre + Lines(Print(`"start"`), `ghost = p("C", 0) || p("D", 6);`, Print(`"AFTER"`)),
		pre + Lines(Fun("f", "", ` ghost2 = [p("A", 1), p("B", 2)]; `), "f();", Print(`"AFTER"`)),
	} {
		if c.Mine() {
			c14Judge(c, &Case{Gen: "handwritten", Src: src})
		}
	}
	// access chains: an inner link is read before the subscripts to its right are evaluated
	for _, src := range []string{
		pre + Lines(Var("grid", "[[1, 2, 3], [4, 5, 6]]"), Print("grid[0][(grid[0] = [70, 80, 90])[0] - 70]"), Print("grid"), Var("scr", "[[1, 1], [2, 2]]"), Fun("swap", "", " "+Var("t", "scr[0]")+" scr[0] = scr[1]; scr[1] = t; "+Ret("0")+" "), Print("scr[0][swap()]"), Print("scr[0][0]")),
		pre + Lines(Var("q", "{head: [10, 20], n: 0}"), Fun("take", "", " q.head = [30, 40]; q.n = q.n + 1; "+Ret("1")+" "), Print("q.head[take()]"), Print("q.head[0]"), Var("o", "{a: {b: [5, 6]}}"), Fun("repl", "", ` o.a = {b: [7, 8]}; `+Ret("0")+" "), Print("o.a.b[repl()]"), Print(`o.a.b[p("I", 1)]`), Print(`[[1, 2], [3, 4]][p("A", 1)][p("B", 0)]`)),
	} {
		if c.Mine() {
			c14Judge(c, &Case{Gen: "handwritten", Src: src})
		}
	}
	// declaration lists: every initialiser sees the variables declared before it in the same list
	for _, src := range []string{
		pre + Lines(K["var"]+` a = p("A", 2), b = a * p("B", 10), c3 = a + b;`, Print("[a, b, c3]")),
		pre + Lines(Var("n", "100"), Fun("f", "", " "+K["var"]+` n = p("N", 3), twice = n * 2; `+Ret("twice")+" "), Print("f()"), Print("n")),
		pre + Lines(Var("xs", "[4, 5, 6]"), For(K["var"]+" n = "+BI("len", "xs")+", i = n - 1;", "i >= 0", "i = i - 1", "{ "+Print("xs[i]")+" }"), "{ "+K["var"]+` u = p("U", 1), v = [u, u + 1], w2 = v[1] * 2; `+Print("w2")+" }"),
	} {
		if c.Mine() {
			c14Judge(c, &Case{Gen: "handwritten", Src: src})
		}
	}
	// truthiness of literals written directly in the context (no variable in between)
	for _, v := range vals {
		if strings.ContainsAny(v.expr, ".()[") && !strings.HasPrefix(v.expr, "[") && !strings.HasPrefix(v.expr, `("`) && v.expr != "0.5" && v.expr != "0.001" {
			continue
		}
		e := v.expr
		if strings.HasPrefix(e, "{") {
			e = "(" + e + ")"
		}
		src := tpre + Lines(IfElse(e, Print(`"then"`), Print(`"else"`)), Print("!"+e), Print("!!"+e), Print(e+` || "r"`), Print(e+` && "r"`), Print(`nil || `+e), For(";", e, "", "{ "+Print(`"body"`)+" "+Break()+" }"))
		if c.Mine() {
			c14Judge(c, &Case{Gen: "truthiness-literal-" + v.class, Src: src, X: map[string]string{"form": "truthiness-literal"}})
		}
	}
	// hand-written order cases the forms do not express
	for _, src := range []string{
		pre + Lines(Var("arr", "[0, 0, 0]"), Var("k", "0"), "arr[k = 2] = k + 5;", Print("arr"), Print("k")),
		pre + Lines(Var("arr", "[1, 2, 3]"), Fun("ga", "", " "+Print(`"ga"`)+" "+Ret("arr")+" "), `ga()[p("I", 1)] = p("V", 99);`, Print("arr")),
		pre + Lines(Var("ob", "{k: 1}"), Fun("go", "", " "+Print(`"go"`)+" "+Ret("ob")+" "), `go().k = p("V", 5);`, Print("ob")),
		pre + Lines(Print(`p("a", 1) + p("b", 2) * p("c", 3) - p("d", 4)`)),
		pre + Lines(Print(`add3(p("a", 1), add2(p("b", 2), p("c", 3)), p("d", 4))`)),
		pre + Lines(Var("y", "1"), Print("(y = y + 1) + (y = y * 10) + y")),
		pre + Lines(Print(`[p("a", 1), [p("b", 2), p("c", 3)], {k: p("d", 4), a: p("e", 5)}]`)),
		pre + Lines(Print(`p("a", nil) || p("b", 0) || p("c", "") || p("d", 3) || p("e", 4)`), Print(`p("a", 1) && p("b", "x") && p("c", 0) && p("d", 4)`)),
		pre + Lines(Var("o2", `{z: p("z", 1), a: p("a", 2), m: p("m", 3), b: p("b", 4), y: p("y", 5), c: p("c", 6)}`), Print("o2.z + o2.c")),
		// recursion through a later argument of a call that has already completed once
 		pre + Lines(K["var"]+` a = p("A", 5), b;`, Print("b"), Var("n", "0"), K["var"]+" cc = (n = n + 1), d, e;", Print("[n, d, e]"), For(K["var"]+` i = p("I", 0), lim;`, "i < 1", "i = i + 1", "{ "+Print("lim")+" }"), K["var"]+` u, w = p("W", 1), x2 = p("X", 2), y;`, Print("[u, w, x2, y]")),
		pre + Lines(Fun("chain", "n", " "+If("n == 0", Ret(`"end"`))+" "+Ret(`p("L" + n, chain(n - 1))`)+" "), Print("chain(3)"), Print("chain(3)"), Print("chain(2)")),
		pre + Lines(Fun("join", "a, b", " "+Ret(`a + "" + b`)+" "), Fun("tree", "lo, hi", " "+If("hi - lo == 1", Ret(`"" + lo`))+" "+Var("mid", "(lo + hi) / 2")+" "+Ret("join(tree(lo, mid), tree(mid, hi))")+" "), Print("tree(0, 4)"), Print("tree(0, 8)"), Print("tree(0, 8)")),
		pre + Lines(Fun("sum3", "a, b, c", " "+Ret("a * 100 + b * 10 + c")+" "), Fun("down", "n", " "+If("n == 0", Ret("0"))+" "+Ret(`sum3(p("a" + n, n), down(n - 1) % 10, p("c" + n, n))`)+" "), Print("down(2)"), Print("down(3)"), Print("down(3)")),
		pre + Lines(For(Var("i", `p("init", 0)`), `p("cond", i < 2)`, `i = p("inc", i + 1)`, "{ "+Print(`"body"`)+" }")),
	} {
		if c.Mine() {
			c14Judge(c, &Case{Gen: "handwritten", Src: src})
		}
		if c.Mine() {
			c14Judge(c, &Case{Gen: "handwritten-cli", Mode: "cli", Src: src})
		}
	}
}

func init() {
	register(&CheckDef{
		ID:   "C14",
		Rule: "expressions: 63 forms (50 value forms, incl. calls of functions that do nothing, return at once or ignore some parameters, and 13 forms whose operation faults after its operands were evaluated: index / indexed store on a non-array or with a bad index, operators with an unsupported operand on either side, zero divisor, property of a non-object, built-in with a bad later argument, a fault inside an array literal) (every binary/comparison/logical operator in both spellings, unary, grouping, index, call with 0/2/3 arguments whose callee is itself a probe, property read, assignment as expression, indexed store, property store, concatenations, array/object literals, built-in calls) with a tagged probe call `p(tag, value)` at every leaf: every form at depth 1 (6 value draws), every form x every compatible sub-form at depth 2, seeded random nests at depth 3; truthiness table: 29 falsy/truthy values of every kind (strings and numbers from several producers) x 11 contexts (if, !, !!, ||, &&, word spellings, while, for, mixed); hand-written order cases. The printed probe-tag sequence and result are compared with refborno (exactly-once, left-to-right, short-circuit, deciding operand returned). Non-trivial = distinct decided program.",
		Assumptions: []string{"operand values are type-correct for their operator so that no fault interferes with the order being observed (faults may still arise, e.g. zero divisors, and are then compared too)"},
		Run:         c14Run,
		Judge:       c14Judge,
		MustCount: func(c *Ctx) []string {
			out := []string{"gen:forms-depth1", "gen:forms-depth2", "gen:logical-chains", "gen:forms-depth3-random", "gen:truthiness-falsy", "gen:truthiness-truthy", "cli_runs", "clean"}
			for _, f := range c14Forms() {
				out = append(out, "form:"+f.name)
			}
			return out
		},
	})
}
