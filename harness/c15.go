package main

import (
	"fmt"
	"math"
	"regexp"
	"strconv"
	"strings"
	"unicode/utf8"

	"golang.org/x/text/unicode/norm"
)

// C15 — দেখাও prints values faithfully, newline-terminated, consistent with +.

var intRe = regexp.MustCompile(`^-?[0-9]+$`)

func sigDigits(numeral string) int {
	s := strings.TrimLeft(numeral, "+-")
	if i := strings.IndexAny(s, "eE"); i >= 0 {
		s = s[:i]
	}
	hasPoint := strings.Contains(s, ".")
	s = strings.ReplaceAll(s, ".", "")
	s = strings.TrimLeft(s, "0")
	if hasPoint || true {
		s = strings.TrimRight(s, "0")
	}
	return len(s)
}

// strictNumeral: shortest digits; small integers without exponent / fraction.
func strictNumeral(text string, want float64) string {
	if math.IsNaN(want) || math.IsInf(want, 0) {
		return ""
	}
	shortest := strconv.FormatFloat(want, 'e', -1, 64)
	if sigDigits(text) > sigDigits(shortest) {
		return fmt.Sprintf("numeral %q uses %d significant digits, %d suffice to denote the number", text, sigDigits(text), sigDigits(shortest))
	}
	if want == math.Trunc(want) && math.Abs(want) < 1e6 && !(want == 0 && math.Signbit(want)) {
		if !intRe.MatchString(text) {
			return fmt.Sprintf("integer %v of magnitude below one million printed as %q (exponent or fraction)", want, text)
		}
	}
	return ""
}

func c15Judge(c *Ctx, cs *Case) {
	if cs.Gen == "repl-prints" {
		c20Judge(c, cs)
		return
	}
	c.Begin(cs)
	var o *Obs
	m := RunModel(cs.Src, cs.Stdin, false, 0)
	if cs.Mode == "cli" {
		o = RunCLI(CLIOpts{Bin: c.Bin, Src: cs.Src, Stdin: cs.Stdin, Dir: c.Scratch})
		c.Count("cli_runs", 1)
		if o.TimedOut {
			c.Inconclusive("CLI watchdog")
			return
		}
	} else {
		steps := 0
		if m.Res != nil {
			steps = m.Res.Steps
		}
		o = RunLib(cs.Src, RunOpts{MaxSteps: int64(100*steps + 10000), Stdin: cs.Stdin})
	}
	if CompareModel(c, m, o, JudgeOpts{CLI: cs.Mode == "cli"}) != "" {
		return
	}
	if m.Res == nil || m.Res.OOD != "" {
		return
	}
	// strict clauses of C15 on top of the general comparison
	if !utf8.ValidString(o.Stdout) {
		c.Violate(Violation{Why: "stdout is not valid UTF-8", Observed: describeObs(o), Signature: "utf8"})
		return
	}
	if !norm.NFC.IsNormalString(o.Stdout) {
		c.Violate(Violation{Why: "printed text is not in Unicode NFC", Observed: fmt.Sprintf("%+q", trunc(o.Stdout, 300)), Signature: "not-nfc"})
		return
	}
	mt, _, _ := MatchOutput(o.Stdout, m.Res.Out)
	for _, n := range mt.Numerals {
		if bad := strictNumeral(n.Text, n.Want); bad != "" {
			c.Violate(Violation{Why: bad, Observed: trunc(o.Stdout, 300), Signature: "numeral-form"})
			return
		}
	}
	c.Count("numerals_checked", int64(len(mt.Numerals)))
	// concat-equals-print: in "triples" programs lines come in groups of three
	if cs.X != nil && cs.X["triples"] == "1" {
		lines := strings.Split(strings.TrimSuffix(o.Stdout, "\n"), "\n")
		if len(lines)%3 != 0 {
			c.Violate(Violation{Why: "expected print / \"\"+v / v+\"\" line triples", Observed: trunc(o.Stdout, 300), Signature: "triples-shape"})
			return
		}
		for i := 0; i+2 < len(lines); i += 3 {
			if lines[i] != lines[i+1] || lines[i] != lines[i+2] {
				c.Violate(Violation{Why: fmt.Sprintf("the text + splices into a string differs from what দেখাও prints: %q vs %q vs %q", lines[i], lines[i+1], lines[i+2]), Observed: trunc(o.Stdout, 300), Signature: "concat-vs-print"})
				return
			}
			c.Count("concat_print_triples", 1)
		}
	}
	if m.Res != nil && m.Res.OOD == "" {
		c.Nontrivial(cs.Src)
	}
	c.Sample(cs.Gen, trunc(cs.Src, 400))
}

func c15Boundary() []float64 {
	v := []float64{0, math.Copysign(0, -1), 1, -1, 0.5, 0.1, 0.2, 0.3, 1.0 / 3, 2.0 / 3, 1e-5, 1e-4, 0.0001, 0.00001234, 123456, 999999, 1000000, 1000001, 999999.5, 1e6 - 0.5,
		-999999, -1000000, 1e15, 1e16, 1e17, 1e20, 1e21, 1e22, 123456789012345680, 9007199254740991, 9007199254740992, 9007199254740993, 9007199254740994,
		5e-324, 2.2250738585072014e-308, 2.225073858507201e-308, 1.7976931348623157e308, 4.9e-324, 0.1 + 0.2, 1.1, 2.675, 1e23, 8.41e21, 5e-5, 123.456, 1e100, 1.5e300,
		4294967295, 4294967296, 2147483648, -2147483649, 65536.0001, 100, 10, 1000, 10000, 100000, 12345.678, 0.000001, 0.0000001}
	return v
}

func c15Run(c *Ctx) {
	// 1. doubles: boundary + random by bit pattern, 60 per program, as print / ""+v / v+"" triples
	r := c.Rand("doubles")
	nprog := c.N(600, 100000)
	bd := c15Boundary()
	bi := 0
	for k := 0; k < nprog; k++ {
		var lines []string
		for j := 0; j < 60; j++ {
			var f float64
			if bi < len(bd) {
				f = bd[bi]
				bi++
			} else {
				f = RandDouble(r)
			}
			lit := NumLit(f)
			lines = append(lines, Var(fmt.Sprintf("v%d", j), lit))
			lines = append(lines, Print(fmt.Sprintf("v%d", j)), Print(fmt.Sprintf(`"" + v%d`, j)), Print(fmt.Sprintf(`v%d + ""`, j)))
		}
		if !c.Mine() {
			continue
		}
		cs := &Case{Gen: "doubles-triples", Src: Lines(lines...), X: map[string]string{"triples": "1"}}
		if k%20 == 0 {
			cs.Gen, cs.Mode = "doubles-triples-cli", "cli"
		}
		c15Judge(c, cs)
	}
	// 2. non-finite values and results of every bitwise operator
	special := []string{"(10 ** 400)", "(-(10 ** 400))", "((10 ** 400) - (10 ** 400))", "(7 & 3)", "(5 | 8)", "(5 ^ 1)", "(1 << 20)", "(1 << 40)", "(1 << 62)", "(-8 >> 1)", "(~0)", "(~5)", "(1 << 19)", "(1 << 63)", "(8388608 >> 2)", "(4000000 >> 0)", "(-8388608 >> 2)", "(9007199254740994 >> 0)", "(1048576 | 1)", "(3000000 & 3000000)", "(2000000 ^ 1)", "(~(-2000001))", "(~2000000)", "(1000000 << 0)", "(999999 | 0)", "(-1000000 | 0)", "(1000000 >> 0)", "(3 ** 4)", "(2 ** 0.5)", "(10 / 4)", "(7 % 3)", "(-7 % 3)", BI("len", "[1, 2, 3]"), BI("round", "2.5"), BI("abs", "-0.25"), BI("sqrt", "2"), BI("max", "1", "1000000")}
	{
		var lines []string
		for j, e := range special {
			lines = append(lines, Var(fmt.Sprintf("v%d", j), e), Print(fmt.Sprintf("v%d", j)), Print(fmt.Sprintf(`"" + v%d`, j)), Print(fmt.Sprintf(`v%d + ""`, j)))
		}
		if c.Mine() {
			c15Judge(c, &Case{Gen: "special-numbers", Src: Lines(lines...), X: map[string]string{"triples": "1"}})
		}
		if c.Mine() {
			c15Judge(c, &Case{Gen: "special-numbers-cli", Mode: "cli", Src: Lines(lines...), X: map[string]string{"triples": "1"}})
		}
	}
	// 3. strings: every placement x a pool including every Bangla code point with a canonical decomposition
	// composed / decomposed spellings are written with escapes so that no editor or
	// transport normalises them: U+09DC/DD/DF (precomposed, NFC-unstable), their
	// decompositions with the nukta U+09BC, two-part vowel signs U+09CB/CC and their
	// halves U+09C7+U+09BE / U+09C7+U+09D7, Latin e-acute both ways, etc.
	strs := []string{"abc", "", "a b", "\u09a8\u09ae\u09b8\u09cd\u0995\u09be\u09b0", "\u0995\u09bf",
		"\u00e9", "e\u0301", "a\u0300\u0301", "\u0995\u09bc",
		"\u09dc", "\u09dd", "\u09df", "\u09a1\u09bc", "\u09a2\u09bc", "\u09af\u09bc",
		"\u09cb", "\u09c7\u09be", "\u09cc", "\u09c7\u09d7", "\u0995\u09cb", "\u0995\u09c7\u09be", "x\u09df" + "y", K["else"], K["continue"],
		"\u212b", "\u1e9b\u0323", "1e+06", "0", "nil", "true", "[1 2]", "\u0958",
		"%", "100%", "%d %s %v", "%!(NOVERB)", "50% off", "%%", "a%20b", "\u09ac\u09df\u09b8",
		// characters that are invisible or only shape their neighbours are characters of the string all the same
		"\u09b0\u200d\u09cd\u09af", "\u0995\u09cd\u200c\u0995", "shelf\u200cful", "\u200d", "\u200c\u200c", "a\u200bb", "\ufeffx", "x\ufeff", "x\u00ady", "a\u00a0b", "a\u2060b", "tab\there",
		"a\u200e\u200fb", "x\ufe0f", "\u2764\ufe0e", "a\u034fb", "\u061c", "\u180e", "a\u2028b", "a\u0085b", "a\x7fb", "a\x01b", "a\rb", " lead", "trail ", "  ", "\u3000", "a\u2009b", "\U000e0001", "\U0001f468\u200d\U0001f469",
		// compatibility characters are not folded: only canonical composition applies
		"m\u00b2", "\u099a\u09b2\u09ac\u09c7\u2026", "\u2122", "\u00bd kg", "\u00b5", "\u03bc", "\ufb01", "\u2460", "x\u00a0y", "\uff21", "\u2075", "\u3392",
		// line breaks are characters too: print still adds exactly one newline of its own
		"heading\n", "\n", "\n\n", "a\nb\n\n", "x\r\n", "\nlead", "mid\ndle", "total: 42\n",
		// comment markers inside a string are text
		"http://example.com/a", "//", "src/*.bn or doc/*/x", "/* not a comment */", "a /* b", "*/ c", "1/2//3", "/*/"}
	for _, s := range strs {
		if strings.ContainsAny(s, "\"") {
			continue
		}
		q := `"` + s + `"`
		// a ধরি declaration may not span lines: a text containing a line break is assigned instead
		decl := func(name, val string) string {
			if strings.Contains(val, "\n") {
				return VarNil(name) + " " + name + " = " + val + ";"
			}
			return Var(name, val)
		}
		progs := []string{
			Print(q),
			Lines(decl("s", q), Print("s"), Print(`"" + s`), Print(`s + ""`)),
			Print("[" + q + "]"),
			Print("[" + q + ", " + q + ", 1]"),
			Print("{k: " + q + "}"),
			Lines(Var("o", "{}"), "o.j = "+q+";", Print("o"), Print("o.j")),
			Lines(Var("a", "[0]"), "a[0] = "+q+";", Print("a"), Print("a[0]")),
			Print("[[" + q + "], {k: [" + q + "]}]"),
			Print(`"<" + ` + q + ` + ">"`),
			Lines(Fun("f", "", " "+Ret(q)+" "), Print("f()"), Print("[f()]")),
			Print(BI("append", "["+q+"]", q)),
			Print(BI("keys", "{"+"k"+": 1}")) + "\n" + Print(BI("values", "{k: "+q+"}")),
			// the string held by a variable (initialised by the plain literal, by a declaration list, by assignment) and placed in containers afterwards
			Lines(decl("s", q), Print("[s]"), Print("[s, s]"), Var("a", "[0, 0]"), "a[1] = s;", Print("a"), Print(BI("append", "[]", "s")), Print(BI("append", "[s]", "s", "1")), Var("o", "{}"), "o.j = s;", Print("o"), Print("{k: s}"), Print("[[s], {k: [s]}]"), Print(BI("values", "{k: s}"))),
			Lines(map[bool]string{false: K["var"] + " n = 1, s = " + q + ", t = s;", true: K["var"] + " n = 1, s, t; s = " + q + "; t = s;"}[strings.Contains(q, "\n")], Print("[s, t]"), Var("u", "nil"), "u = "+q+";", Print("[u]"), Fun("wrap", "x", " "+Ret("[x]")+" "), Print("wrap(s)"), Print("wrap("+q+")")),
		}
		for pi, p := range progs {
			x := map[string]string{"placement": fmt.Sprint(pi)}
			if pi == 1 && !strings.ContainsAny(s, "\n\r") {
				x["triples"] = "1" // line-wise comparison of the three spellings: only for one-line texts
			}
			if c.Mine() {
				c15Judge(c, &Case{Gen: "strings-placements", Src: p + "\n", X: x})
			}
			if c.Mine() {
				c15Judge(c, &Case{Gen: "strings-placements-cli", Mode: "cli", Src: p + "\n", X: x})
			}
		}
	}
	// 4. nil / booleans / containers / functions, alone and nested to depth 3
	for _, src := range []string{
		Lines(Print("nil"), Print(True()), Print(False()), Print("[]"), Print("{}"), Print("[nil, "+True()+", "+False()+"]"), Print("{a: nil, b: "+True()+"}")),
		Lines(Print("[1, [2, [3, [4]]], {k: [5, {j: 6}]}]"), Print("{a: {b: {c: [1, 2, 3]}}, z: []}"), Print("[[], [[]], {}, [{}]]")),
		Lines(Fun("f", "", ""), Print("f"), Print("[f]"), Print(B["len"]), Print("{k: f}")),
		Lines(Print("[0.5, -0, 1000000, 0.0000001, 123456]"), Print("{big: 9007199254740993, small: 0.000001}")),
		Lines(Print(`"" + 1 + 2`), Print(`"" + 1000000 + 1`), Var("acc", `""`), For(Var("i", "1"), "i < 4", "i = i + 1", "{ acc = acc + i; }"), Print("acc"), Print(`("" + 5) == 5`), Print(`("" + 5) == "5"`), Print(`!("" + 0)`), Print(`"" + 0.5 + 0.5`), Print(`"" + (0 - 0) + 1`)),
		Lines(Print(`100 + "%"`), Print(`"%" + 100`), Print(`2.5 + "%%"`), Print(`1 + "%d"`), Print(`"%v" + 1 + "%s"`), Print(`1000000 + "%"`), Print(`0.5 + "% off"`)),
		Lines(Var("o", "{x: 1, y: \"hi\"}"), Var("a", "[o, o, 0]"), "a[2] = a;", Print("a"), Var("leaf", "{p: 1}"), Var("root", "{p: leaf, q: leaf}"), "root.self = root;", Print("root"), Var("sh", "[7, 8]"), Var("c", "[sh, [sh, sh], 0]"), "c[2] = c;", Print("c"), Print("[c, o]")),
		Lines(Var("a", "[1, 0, 3]"), "a[1] = a;", Print("a"), Var("b", "[0, 2, 3, 4]"), "b[0] = b;", Print("b"), Var("root", `{name: "root", z: 5}`), `root.items = [root, "tail", 7];`, Print("root"), Var("c", "[[0, 8], 9]"), "c[0][0] = c;", Print("c"), Var("d", "[0, 0, 5]"), "d[0] = d; d[1] = d;", Print("d"), Print("[d, 6]")),
		Lines(Var("a", "[\"\u09df\", \"e\u0301\", 0]"), "a[2] = a;", Print("a"), Var("nd", "{name: \"\u09ac\u09dc\", kids: []}"), Var("kid", "{name: \"\u0995\u09c7\u09be\", parent: nd}"), "nd.kids = [kid];", Print("nd"), Print("[nd, \"\u09dc\"]"), Print("kid")),
		// property names are shown exactly as written (digits of either script, marks); a property holding nil is shown as nil
		Lines(Var("st", "{\u09b0\u09cb\u09b2\u09e7: 5, \u09a6\u09bf\u09a8\u09e8: 6, d3: 7, x\u09e6y: 8}"), Print("st"), Print(BI("keys", "st")), Print("st.\u09b0\u09cb\u09b2\u09e7 + st.x\u09e6y"), "st.\u09a8\u09a4\u09c1\u09a8\u09ef = 9;", Print("st"), Print("[st, {k\u09e7: {k\u09e8: 1}}]"), Var("x\u09e7", "1"), Var("x1", "2"), Print("x\u09e7 + x1")),
		Lines(Var("o", "{k: nil, j: 1}"), Print("o.k"), Print("o"), Fun("nothing", "", ""), "o.r = nothing();", Print("o.r"), Print("[o.k, o.r]"), Var("node", "{val: 1, next: nil}"), Print("node.next"), Print("node.next == nil"), Var("chain", "{next: {next: nil}}"), Print("chain.next.next"), Print(`"end"`)),
		Lines(Print(`"a" + 1`), Print(`1 + "a"`), Print(`"x" + 0.5 + "y" + 1000000 + "z"`), Print(`"" + (1/3)`), Print(`(2 ** 70) + ""`)),
	} {
		if c.Mine() {
			c15Judge(c, &Case{Gen: "containers-and-constants", Src: src})
		}
		if c.Mine() {
			c15Judge(c, &Case{Gen: "containers-and-constants-cli", Mode: "cli", Src: src})
		}
	}
	// 4a. texts that arrive through ইনপুট are shown like any other text (digits of either script, marks, per-cent signs …)
	for _, line := range []string{strings.Repeat("\u0995\u09a5\u09be ", 600) + "end", strings.Repeat("field,", 1000) + "last", "\u09ac\u09df\u09b8 \u09e8\u09eb", "\u09e7\u09e8\u09e9", "12\u09e9abc", "100% \u09e6", "e\u0301\u09dc", "m\u00b2 \u00bd", "a\u200cb \u200d", "  padded \u09ea  "} {
		src := Lines(Var("v", BI("input")), Print("v"), Print("[v, 1]"), Print(`"<" + v + ">"`), Print("v + 1"), Print("{k: v}"), Var("w", BI("input", `"p: "`)), Print("[w]"))
		if c.Mine() {
			c15Judge(c, &Case{Gen: "input-texts", Src: src, Stdin: line + "\n" + line + "\n"})
		}
		if c.Mine() {
			c15Judge(c, &Case{Gen: "input-texts-cli", Mode: "cli", Src: src, Stdin: line + "\n" + line + "\n"})
		}
	}
	// an array that holds what রিমুভ / এড made from it is not a self-containing value
	for _, src := range []string{
		Lines(Var("a", "[1, 2, 3]"), Var("b", BI("remove", "a", "2")), "a[2] = b;", Print("a"), Print("b"), Var("p", `["home", "docs", "a.txt"]`), Var("f", "{name: p[2], dir: "+BI("remove", "p", "2")+"}"), "p[0] = f;", Print("f"), Print("p")),
		Lines(Var("a", "[1, 2]"), Var("b", BI("append", "a", "3")), Var("c2", BI("remove", "b", "2")), "b[0] = c2; a[0] = b;", Print("a"), Print("b"), Print("c2"), Var("e", BI("remove", "[7]", "0")), Var("h", "[e, e]"), Print("h")),
	} {
		if c.Mine() {
			c15Judge(c, &Case{Gen: "derived-arrays", Src: src})
		}
	}
	// 4a2. numbers of a million and more, negative zero and huge values that come out of built-ins have the same text everywhere
	{
		var lines []string
		for _, e := range []string{BI("round", "1234567.8"), BI("round", "1000000"), BI("round", "999999.5"), BI("round", "-0.25"), BI("round", "2 ** 70"), BI("abs", "-12345678"), BI("max", "1000000", "3"), BI("min", "[2500000, 9999999]"), BI("pow", "10", "6"), BI("pow", "10", "21"), BI("sqrt", "1000000000000"), BI("len", "[1, 2]") + " * 500000", BI("round", "1e0") + " * 1000000"} {
			if strings.Contains(e, "1e0") {
				continue
			}
			lines = append(lines, Var("x", e)+" "+Print("x")+" "+Print(`"" + x`)+" "+Print(`x + ""`)+" "+Print("[x]")+" "+Print("{k: x}"))
		}
		for i, l := range lines {
			src := "{ " + l + " }\n"
			if c.Mine() {
				c15Judge(c, &Case{Gen: "builtin-number-texts", Src: src, X: map[string]string{"i": fmt.Sprint(i)}})
			}
		}
	}
	// 4b. a print whose operand fails prints nothing; prints on later interactive lines are unaffected
	for _, src := range []string{
		Lines(Var("a", "[1]"), Print(`"before"`), Print("a[5]"), Print(`"AFTER"`)), Lines(Print(`"x" + nope`), Print(`"AFTER"`)), Lines(Print(`"x" + nil`), Print(`"AFTER"`)), Lines(Var("o", "{}"), Print("o.zz"), Print(`"AFTER"`)),
		Lines(Fun("bad", "", " "+Ret("1 / 0")+" "), Fun("outer", "", " "+Print("bad()")+" "+Ret("2")+" "), Print("outer()"), Print(`"AFTER"`)), Lines(Print("[1, nope]")), Lines(Print("{k: 1 / 0}")),
	} {
		if c.Mine() {
			c15Judge(c, &Case{Gen: "failing-prints", Src: src})
		}
		if c.Mine() {
			c15Judge(c, &Case{Gen: "failing-prints-cli", Mode: "cli", Src: src})
		}
	}
	for _, bad := range []string{Print("nope"), Print("[1][5]"), "1 / 0;"} {
		lines := []string{Print(`"one"`), bad, Print(`"after"`), Print("[1, \"s\"]"), bad, Print("0.1 + 0.2"), `"echo";`}
		if c.Mine() {
			c15Judge(c, &Case{Gen: "repl-prints", Src: strings.Join(lines, "\n"), X: map[string]string{"final_newline": "1", "all_self": "1"}})
		}
		// piped sessions whose last line has no line terminator: that line is executed like any other
		for _, last := range []string{Print("1 + 2"), Print(`"last"`), `"echo";`, Print("[1, \"s\"]"), bad} {
			if c.Mine() {
				c15Judge(c, &Case{Gen: "repl-prints", Src: strings.Join([]string{Print(`"one"`), bad, last}, "\n"), X: map[string]string{"final_newline": "0", "all_self": "1"}})
			}
			if c.Mine() {
				c15Judge(c, &Case{Gen: "repl-prints", Src: last, X: map[string]string{"final_newline": "0", "all_self": "1"}})
			}
		}
	}
	// 5. random nested containers of random leaves
	r = c.Rand("containers")
	n := c.N(4000, 600000)
	var gen func(d int) string
	gen = func(d int) string {
		if d == 0 || r.Intn(3) == 0 {
			switch r.Intn(6) {
			case 0:
				return NumLit(RandDouble(r))
			case 1:
				return `"` + []string{"s", "কথা", "é", "য়", "t u", ""}[r.Intn(6)] + `"`
			case 2:
				return []string{"nil", True(), False()}[r.Intn(3)]
			default:
				return fmt.Sprint(r.Intn(2000000) - 1000000)
			}
		}
		m := r.Intn(4)
		parts := make([]string, m)
		if r.Bool() {
			for i := range parts {
				parts[i] = gen(d - 1)
			}
			return "[" + strings.Join(parts, ", ") + "]"
		}
		keys := []string{"k", "ক", "x1", "মান"}
		for i := range parts {
			parts[i] = keys[i] + ": " + gen(d-1)
		}
		return "{" + strings.Join(parts, ", ") + "}"
	}
	for k := 0; k < n; k++ {
		e := gen(3)
		if !c.Mine() {
			continue
		}
		src := Var("v", e) + "\n" + Print("v") + "\n"
		cs := &Case{Gen: "random-containers", Src: src}
		if k%15 == 0 {
			cs.Gen, cs.Mode = "random-containers-cli", "cli"
		}
		c15Judge(c, cs)
	}
}

func init() {
	register(&CheckDef{
		ID:   "C15",
		Rule: "programs printing: ~60 boundary doubles (+-0, subnormals, 2^53+-1, powers of ten around the exponent switch, 15-17 digit values) and seeded random doubles by bit pattern, each as `দেখাও v; দেখাও \"\"+v; দেখাও v+\"\";` triples (60 per program); non-finite values and results of every bitwise operator and numeric built-in; 69 strings (incl. zero-width joiners / non-joiners and other invisible or shaping characters; Latin, Bangla, combining marks, every Bangla code point with a canonical decomposition in composed and decomposed form, the keywords containing U+09DF, numeral-looking strings) x 12 placements (alone, concatenated, array element, property from literal and from assignment, element store, nested, function result, এড result, value listing); nil/booleans/functions/containers nested to depth 3; random nested containers. Monitors: read-back equality and shortest-digits for every numeral, integer form below one million, valid UTF-8, NFC normal form, canonical equivalence with the model's string, exactly one newline per print, all elements in order / all properties, and line-triple equality (the text + splices equals what দেখাও prints). Non-trivial = distinct decided program.",
		Assumptions: []string{"strconv.ParseFloat / FormatFloat in the harness are correct (cross-checked by C10's big-rational oracle)", "the spelling of +-Inf/NaN, of nil inside a container and container punctuation are not pinned"},
		Run:         c15Run,
		Judge:       c15Judge,
		MustCount:   func(c *Ctx) []string { return []string{"gen:doubles-triples", "gen:strings-placements", "gen:random-containers", "numerals_checked", "concat_print_triples", "cli_runs"} },
	})
}
