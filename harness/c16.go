package main

import (
	"fmt"
	"strings"
)

// C16 — a value behaves the same however it was produced.

type c16Producer struct{ name, expr, pre, stdin string }

func c16StringProducers(s string) []c16Producer {
	q := `"` + s + `"`
	r := []rune(s)
	half := len(r) / 2
	ps := []c16Producer{
		{"literal", q, "", ""},
		{"concat", `("` + string(r[:half]) + `" + "` + string(r[half:]) + `")`, "", ""},
		{"concat-empty-left", `("" + ` + q + `)`, "", ""},
		{"object-property", "({k: " + q + "}).k", "", ""},
		{"array-element", "[" + q + "][0]", "", ""},
		{"function-return", "mkv()", Fun("mkv", "", " "+Ret(q)+" ") + "\n", ""},
		{"parameter", "idf(" + q + ")", "", ""},
		{"function-with-statements", "mkw()", Fun("mkw", "", " "+Var("t", "0")+" t = t + 1; idf(t); [t]; "+Ret(q)+" ") + "\n", ""},
		{"parameter-named-like-its-function", "own(" + q + ")", Fun("own", "own", " "+Ret("own")+" ") + "\n", ""},
		{"input", BI("input"), "", s + "\n"},
		{"property-assignment", "pa.j", Var("pa", "{}") + "\npa.j = " + q + ";\n", ""},
		{"values-listing", BI("values", "{k: "+q+"}") + "[0]", "", ""},
		{"variable", "held", Var("held", q) + "\n", ""},
		{"logical-result", "(nil || " + q + ")", "", ""},
		{"property-named-like-builtin", "({" + B["len"] + ": " + q + ", " + B["keys"] + ": 0})." + B["len"], "", ""},
		{"builtin-callback", "idf(" + B["values"] + ")({k: " + q + "})[0]", "", ""},
		// an element of one of several arrays built from the same base; a closure declared in a block / a branch that has
		// finished (and whose storage may have been reused since) handing back what it captured
		{"appended-element", "ap1[3]", Var("apb", "[1, 2, 3]") + "\n" + Var("ap1", BI("append", "apb", q)) + "\n" + Var("ap2", BI("append", "apb", `"other"`)) + "\n" + Var("ap3", BI("append", "apb", "0", "0")) + "\n", ""},
		{"closure-from-block", "blk()", Var("blk", "nil") + "\n{ " + Var("hid", q) + " " + Fun("gb", "", " "+Ret("hid")+" ") + " blk = gb; }\n{ " + Var("hid2", `"other"`) + " " + Var("hid3", "0") + " }\n" + For(Var("fi", "0"), "fi < 2", "fi = fi + 1", "{ "+Var("hid4", "fi")+" }") + "\n", ""},
		{"closure-from-branch", "mkb()()", Fun("mkb", "", " "+Var("loc", q)+" "+If(True(), "{ "+Fun("gi", "", " "+Ret("loc")+" ")+" "+Ret("gi")+" }")+" ") + "\n" + Fun("filler", "loc", " "+Var("z", "loc")+" "+Ret("z")+" ") + "\n" + `filler("other");` + "\n", ""},
	}
	if s == "5" || s == "7" {
		ps = append(ps, c16Producer{"number-to-string", `("" + ` + s + `)`, "", ""})
	}
	if s == "abc" {
		ps = append(ps, c16Producer{"keys-listing", BI("keys", "{abc: 1}") + "[0]", "", ""})
	}
	return ps
}

func c16NumberProducers(n int) []c16Producer {
	N := fmt.Sprint(n)
	if n < 0 {
		N = "(" + N + ")"
	}
	ps := []c16Producer{
		{"literal", N, "", ""},
		{"arithmetic", "(" + N + " - 1 + 1)", "", ""},
		{"multiply", "(" + N + " * 1)", "", ""},
		{"bitwise-or", "(" + N + " | 0)", "", ""},
		{"bitwise-and", "(" + N + " & " + N + ")", "", ""},
		{"bitwise-xor", "(" + N + " ^ 0)", "", ""},
		{"shift", "(" + N + " << 0)", "", ""},
		{"double-not", "(~(~" + N + "))", "", ""},
		{"round", BI("round", N+" + 0.2"), "", ""},
		{"abs-or-neg", "(-(-" + N + "))", "", ""},
		{"max", BI("max", N, N+" - 1"), "", ""},
		{"min-array", BI("min", "["+N+", "+N+" + 5]"), "", ""},
		{"pow", BI("pow", N, "1"), "", ""},
		{"function-return", "mkv()", Fun("mkv", "", " "+Ret(N)+" ") + "\n", ""},
		{"function-with-statements", "mkw()", Fun("mkw", "", " "+Var("t", "0")+" t = t + 1; idf(t); [t]; "+Ret(N)+" ") + "\n", ""},
		{"parameter-named-like-its-function", "own(" + N + ")", Fun("own", "own", " "+Ret("own")+" ") + "\n", ""},
		{"parameter", "idf(" + N + ")", "", ""},
		{"array-element", "[" + N + "][0]", "", ""},
		{"object-property", "({k: " + N + "}).k", "", ""},
		{"bangla-digits", BanglaDigits(N, nil), "", ""},
		{"division", "(" + N + " * 4 / 4)", "", ""},
		{"builtin-alias", "ral(" + N + " + 0.2)", Var("ral", B["round"]) + "\n", ""},
		{"builtin-callback", "idf(" + B["max"] + ")(" + N + ", " + N + " - 1)", "", ""},
		{"builtin-in-array", "[" + B["min"] + ", " + B["pow"] + "][1](" + N + ", 1)", "", ""},
		{"property-named-like-builtin", "({" + B["min"] + ": " + N + ", " + B["max"] + ": 0})." + B["min"], "", ""},
		{"appended-element", "ap1[3]", Var("apb", "[1, 2, 3]") + "\n" + Var("ap1", BI("append", "apb", N)) + "\n" + Var("ap2", BI("append", "apb", "-77")) + "\n", ""},
		{"closure-from-block", "blk()", Var("blk", "nil") + "\n{ " + Var("hid", N) + " " + Fun("gb", "", " "+Ret("hid")+" ") + " blk = gb; }\n{ " + Var("hid2", "-77") + " " + Var("hid3", "0") + " }\n", ""},
		{"closure-from-branch", "mkb()()", Fun("mkb", "", " "+Var("loc", N)+" "+If(True(), "{ "+Fun("gi", "", " "+Ret("loc")+" ")+" "+Ret("gi")+" }")+" ") + "\n" + Fun("filler", "loc", " "+Var("z", "loc")+" "+Ret("z")+" ") + "\n" + "filler(-77);" + "\n", ""},
	}
	if n >= 0 {
		ps = append(ps, c16Producer{"abs", BI("abs", "-"+N), "", ""})
		// numbers obtained from numeric-looking strings ("coerced" producers).  Whether a
		// string is accepted here at all is not pinned by the properties, so these are
		// used only when the producer itself evaluates to the number (checked at run time).
		q := `"` + fmt.Sprint(n) + `"`
		ps = append(ps,
			c16Producer{"coerced-round", BI("round", q), "", ""}, c16Producer{"coerced-abs", BI("abs", q), "", ""},
			c16Producer{"coerced-max", BI("max", q), "", ""}, c16Producer{"coerced-min-array", BI("min", "["+q+"]"), "", ""},
			c16Producer{"coerced-pow", BI("pow", q, "1"), "", ""}, c16Producer{"coerced-multiply", "(" + q + " * 1)", "", ""},
			c16Producer{"coerced-minus", "(" + q + " - 0)", "", ""}, c16Producer{"coerced-bitor", "(" + q + " | 0)", "", ""},
			c16Producer{"coerced-round-concat", BI("round", `("" + `+fmt.Sprint(n)+`)`), "", ""},
			c16Producer{"coerced-bangla", BI("round", `"`+BanglaDigits(fmt.Sprint(n), nil)+`"`), "", ""},
		)
	}
	if n >= 0 && n <= 8 {
		el := make([]string, n)
		for i := range el {
			el[i] = "0"
		}
		ps = append(ps, c16Producer{"len", BI("len", "["+strings.Join(el, ", ")+"]"), "", ""})
	}
	return ps
}

func c16Contexts() []string {
	var ctx []string
	ops := []string{"+", "-", "*", "/", "%", "**", "<", "<=", ">", ">=", "==", "!=", "&", "|", "^", "<<", ">>"}
	for _, op := range ops {
		for _, partner := range []string{"2", `"z"`, `"3"`} {
			ctx = append(ctx, Print("%v "+op+" "+partner), Print(partner+" "+op+" %v"))
		}
	}
	ctx = append(ctx,
		Print("-%v"), Print("!%v"), Print("~%v"), Print("!!%v"), Print("%v"),
		Print(`%v || "r"`), Print(`%v && "r"`), Print(`nil || %v`), Print(`1 && %v`),
		IfElse("%v", Print(`"then"`), Print(`"else"`)),
		Var("n", "0")+" "+While("%v", "{ n = n + 1; "+Print(`"body"`)+" "+Break()+" }"),
		For(";", "%v", "", "{ "+Print(`"body"`)+" "+Break()+" }"),
		Print("arr[%v]"), "arr[%v] = 99; "+Print("arr"), Print("%v[0]"), Print("%v.k"), "%v();", "%v.k = 1;", "%v[0] = 1;",
		Print(BI("len", "%v")), Print(BI("append", "[1]", "%v")), Print(BI("append", "%v", "1")), Print(BI("remove", "[1, 2, 3]", "%v")), Print(BI("remove", "%v", "0")),
		BI("delete", "ob", "%v")+"; "+Print("ob"), BI("delete", "%v", `"k"`)+";", Print(BI("keys", "%v")), Print(BI("values", "%v")),
		Print(BI("abs", "%v")), Print(BI("sqrt", "%v")), Print(BI("pow", "%v", "2")), Print(BI("pow", "2", "%v")), Print(BI("sin", "%v")), Print(BI("cos", "%v")), Print(BI("tan", "%v")),
		Print(BI("min", "%v", "1")), Print(BI("max", "1", "%v")), Print(BI("min", "[%v, 1]")), Print(BI("max", "%v")), Print(BI("round", "%v")),
		Var("got", BI("input", "%v"))+" "+Print("got"),
		Print("[%v, 1]"), Print("{k: %v}"), Print("[[%v]]"), Var("o2", "{}")+" o2.p = %v; "+Print("o2"), Var("a2", "[0]")+" a2[0] = %v; "+Print("a2"),
		Print(`"<" + %v`), Print(`%v + ">"`), Print("1 + %v"), Print("%v + 1"), Print("%v + %v"), Print(`"" + %v + ""`),
		Print("%v == %L"), Print("%L == %v"), Print("%v != %L"), Print("%v == %v"),
		Print("idf(%v) == %v"), Var("w", "%v")+" "+Print("w == %v"), Print("[%v] == [%v]"),
		// accumulation statements: the hole is evaluated once whatever it yields
		Var("t", "0")+" t = t + %v; "+Print("t"), Var("t", "0")+" t = %v + t; "+Print("t"), Var("t", `"s"`)+" t = t + %v; "+Print("t"), Var("t", "2")+" t = t * %v; "+Print("t"),
		Var("t", "0")+" "+Var("u", "1")+" u = t + %v; "+Print("u"), Var("ac", "[0]")+" ac[0] = ac[0] + %v; "+Print("ac"), Var("oc", "{n: 0}")+" oc.n = oc.n + %v; "+Print("oc"),
		// interactive mode: a bare expression statement is echoed whatever produced its value
		"//repl-mode\n%v;", "//repl-mode\n(%v);", "//repl-mode\n%v; %v;", "//repl-mode\n[%v];", "//repl-mode\n!%v;", "//repl-mode\n%v + 0;", "//repl-mode\nnil || %v;",
	)
	return ctx
}

// c16In: an ইনপুট() expression yielding the value q denotes (a number is read as text and converted by arithmetic).
func c16In(q string) string {
	if strings.HasPrefix(q, `"`) {
		return BI("input")
	}
	return "(" + BI("input") + " - 0)"
}

// c16FractionProducers: producers of a non-integral number.
func c16FractionProducers(lit string, half string) []c16Producer {
	// lit e.g. "1.5"; half = the literal of lit/2 (exactly representable)
	return []c16Producer{
		{"literal", lit, "", ""}, {"arithmetic", "(" + lit + " - 1 + 1)", "", ""}, {"division", "(" + lit + " * 2 / 2)", "", ""}, {"sum-of-halves", "(" + half + " + " + half + ")", "", ""},
		{"abs", BI("abs", "-"+lit), "", ""}, {"neg-neg", "(-(-" + lit + "))", "", ""}, {"max", BI("max", lit, "0"), "", ""}, {"min-array", BI("min", "["+lit+", 99]"), "", ""}, {"pow", BI("pow", lit, "1"), "", ""},
		{"function-return", "mkv()", Fun("mkv", "", " "+Ret(lit)+" ") + "\n", ""}, {"parameter", "idf(" + lit + ")", "", ""}, {"array-element", "[" + lit + "][0]", "", ""}, {"object-property", "({k: " + lit + "}).k", "", ""},
		{"variable", "held", Var("held", lit) + "\n", ""}, {"bangla-digits", BanglaDigits(lit, nil), "", ""}, {"grouped-literal", "(" + lit + ")", "", ""},
		{"coerced-multiply", "(\"" + lit + "\" * 1)", "", ""}, {"coerced-abs", BI("abs", "\""+lit+"\""), "", ""},
	}
}

type c16Record struct {
	stdout, diag string
	exit         int
}

func c16Run1(c *Ctx, src, stdin string, cli bool) (*c16Record, bool) {
	var o *Obs
	if cli && !strings.Contains(src, "//repl-mode\n") {
		o = RunCLI(CLIOpts{Bin: c.Bin, Src: src, Stdin: stdin, Dir: c.Scratch})
		c.Count("cli_runs", 1)
		if o.TimedOut {
			c.Inconclusive("CLI watchdog")
			return nil, false
		}
		if o.Exit == 2 || strings.Contains(o.Stderr, "panic:") {
			o.Panic = firstPanicLine(o.Stderr) + " ||"
		}
	} else {
		budget := int64(100000)
		if strings.Contains(src, "//long-run\n") {
			budget = 40000000
		}
		o = RunLib(src, RunOpts{MaxSteps: budget, Stdin: stdin, Repl: strings.Contains(src, "//repl-mode\n")})
	}
	if CheckAbnormal(c, o) {
		return nil, false
	}
	rec := &c16Record{stdout: o.Stdout, exit: o.Exit}
	if d := ParseDiags(o.Stderr); len(d) > 0 {
		rec.diag = NormDiag(d[0], true)
	}
	if strings.Contains(src, "//repl-mode\n") {
		// the statements that set a producer up may themselves be echoed: compare from the "start" mark on
		if i := strings.Index(rec.stdout, "start\n"); i >= 0 {
			rec.stdout = rec.stdout[i:]
		}
	}
	return rec, true
}

func c16Judge(c *Ctx, cs *Case) {
	c.Begin(cs)
	// cs.Src is the reference (literal producer) program; cs.Alt are the other producers' programs
	cli := cs.Mode == "cli"
	stdins := strings.Split(cs.X["stdins"], "\x1f")
	base, ok := c16Run1(c, cs.Src, stdins[0], cli)
	if !ok {
		return
	}
	names := strings.Split(cs.X["producers"], ",")
	for i, alt := range cs.Alt {
		if strings.HasPrefix(names[i+1], "coerced-") && !c16CoercionAccepted(c, cs, names[i+1]) {
			c.Count("coerced_producer_not_applicable", 1)
			continue
		}
		rec, ok := c16Run1(c, alt, stdins[i+1], cli)
		if !ok {
			return
		}
		if *rec != *base {
			c.Violate(Violation{Why: fmt.Sprintf("the same %s value behaves differently depending on its producer (%s vs %s) in context %s", cs.X["kind"], names[0], names[i+1], cs.X["context"]),
				Expected: fmt.Sprintf("%s: exit=%d stdout=%q diag=%q", names[0], base.exit, trunc(base.stdout, 200), base.diag),
				Observed: fmt.Sprintf("%s: exit=%d stdout=%q diag=%q", names[i+1], rec.exit, trunc(rec.stdout, 200), rec.diag),
				Signature: "origin:" + cs.X["kind"] + ":" + names[i+1], Case: Case{Gen: cs.Gen, Src: alt, Stdin: stdins[i+1], Alt: []string{cs.Src}, Note: "Alt[0] is the literal-producer program"}})
			return
		}
		c.Count("pairs_compared", 1)
		c.Count("producer:"+cs.X["kind"]+":"+names[i+1], 1)
	}
	if base.exit == 0 {
		c.Count("contexts_value", 1)
	} else {
		c.Count("contexts_fault", 1)
	}
	c.Nontrivial(cs.Src)
	c.Sample(cs.Gen, map[string]string{"literal_program": lastLines(cs.Src, 2), "other_producer": lastLines(cs.Alt[len(cs.Alt)-1], 2)})
}

func c16Run(c *Ctx) {
	pre := Lines(Fun("idf", "v", " "+Ret("v")+" "), Var("arr", "[10, 11, 12, 13, 14, 15, 16, 17]"), Var("ob", "{abc: 1, k: 2, x5: 3, \u0995\u09df\u09be: 4, \u0995\u09c7\u09be: 5}"))
	ctxs := c16Contexts()
	build := func(ctx string, p c16Producer, lit string) (string, string) {
		body := strings.ReplaceAll(strings.ReplaceAll(ctx, "%v", p.expr), "%L", lit)
		stdin := ""
		// one stdin line per occurrence of the input producer, then spare lines for ইনপুট contexts
		for i := strings.Count(body, BI("input")); i > 0 && p.name == "input"; i-- {
			stdin += p.stdin
		}
		stdin += "spare-one\nspare-two\n"
		return pre + p.pre + Print(`"start"`) + "\n" + body + "\n" + Print(`"end"`) + "\n" + Print(BI("input")) + "\n", stdin
	}
	type val struct {
		kind, lit string
		prods     []c16Producer
	}
	var vals []val
	for _, s := range []string{"C:\\tmp\\", "\\", "a\\b", "abc", "", "5", "12.5", "\u09e6\u09ed", "1000000", "x5", "7", "\u0995\u09df\u09be", "e\u0301\u09dc", "\u0995\u09c7\u09be", "http://x.bd/a", "src/*.bn or doc/*/x"} {
		vals = append(vals, val{"string", `"` + s + `"`, c16StringProducers(s)})
	}
	for _, n := range []int{3, 0, -1, 7, 1000000, 1048576, 2, 1} {
		lit := fmt.Sprint(n)
		if n < 0 {
			lit = "(" + lit + ")"
		}
		vals = append(vals, val{"number", lit, c16NumberProducers(n)})
	}
	// whole numbers at and beyond 2^63, written out as literals and computed
	for _, big := range [][]string{
		{"9223372036854775808", "(2 ** 63)", BI("pow", "2", "63"), "(4294967296 * 2147483648)", "(9223372036854775807 + 1)", BI("abs", "-9223372036854775808"), "\u09ef\u09e8\u09e8\u09e9\u09e9\u09ed\u09e8\u09e6\u09e9\u09ec\u09ee\u09eb\u09ea\u09ed\u09ed\u09eb\u09ee\u09e6\u09ee"},
		{"18446744073709551616", "(2 ** 64)", BI("pow", "2", "64"), "(4294967296 * 4294967296)", BI("round", "2 ** 64"), "(18446744073709551616.0)"},
		{"100000000000000000000", "(10 ** 20)", "(10000000000 * 10000000000)", BI("max", "1", "10 ** 20"), "100000000000000000000.0"},
	} {
		ps := []c16Producer{{"literal", big[0], "", ""}}
		for i, e := range big[1:] {
			ps = append(ps, c16Producer{fmt.Sprintf("computed-%d", i), e, "", ""})
		}
		ps = append(ps, c16Producer{"variable", "held", Var("held", big[0]) + "\n", ""}, c16Producer{"function-return", "mkv()", Fun("mkv", "", " "+Ret(big[0])+" ") + "\n", ""})
		vals = append(vals, val{"number", big[0], ps})
	}
	// a string longer than any line buffer (Latin and Bangla)
	for _, s := range []string{strings.Repeat("x", 4100), strings.Repeat("\u0995\u09a5\u09be ", 500) + "end"} {
		ps := []c16Producer{{"literal", `"` + s + `"`, "", ""}, {"input", BI("input"), "", s + "\n"}, {"concat", `("` + s[:len(s)/2-1] + `" + "` + s[len(s)/2-1:] + `")`, "", ""}, {"variable", "held", Var("held", `"`+s+`"`) + "\n", ""}}
		vals = append(vals, val{"string", `"` + s + `"`, ps})
	}
	vals = append(vals, val{"number", "1.5", c16FractionProducers("1.5", "0.75")}, val{"number", "0.5", c16FractionProducers("0.5", "0.25")}, val{"number", "2.25", c16FractionProducers("2.25", "1.125")})
	c16LongRun(c, pre)
	// a last input line without a newline is still that line, whatever its length
	for _, s := range []string{"5", "y", "ab", "\u0995", "12.5", " ", "0"} {
		q := `"` + strings.TrimSpace(s) + `"`
		for ci, body := range []string{Print(`"[" + %v + "]"`), Print("%v == " + q), Print("%v + %v"), IfElse("%v", Print(`"then"`), Print(`"else"`)), Print("[%v]")} {
			lit := pre + strings.ReplaceAll(body, "%v", q) + "\n"
			inp := pre + strings.ReplaceAll(body, "%v", BI("input")) + "\n"
			n := strings.Count(inp, BI("input"))
			sin := strings.Repeat(s+"\n", n-1) + s // the last line is unterminated
			cs := &Case{Gen: "input-endings", Src: lit, Alt: []string{inp}, X: map[string]string{"kind": "string", "context": fmt.Sprintf("ending #%d", ci), "stdins": "\x1f" + sin, "producers": "literal,input-last-line-unterminated"}}
			if c.Mine() {
				c16Judge(c, cs)
			}
			if c.Mine() {
				cc := *cs
				cc.Mode = "cli"
				c16Judge(c, &cc)
			}
		}
	}
	// several different values from the same kind of producer side by side: each lands where it was written
	// (property values of a literal whose names are not in sorted order, elements, arguments, operands)
	for vi, vs := range [][3]string{{`"a"`, `"b"`, `"c"`}, {"3", "1", "2"}, {`"10"`, `"9"`, `"x"`}, {"0.5", `"k"`, "7"}} {
		raw := func(q string) string { return strings.Trim(q, `"`) }
		for ci, body := range []string{Print("{y: %1, x: %2}"), Print("{y: %1, x: %2}.x"), Var("rec", "{nm: %1, ad: %2, ag: %3}") + " " + Print("rec.nm") + " " + Print("rec.ad") + " " + Print("rec.ag"),
			Print("{b: %1, a: %2, c: %3}"), Print("[%1, %2, %3]"), Print("idf([%1, %2])"), Print(BI("append", "[%1]", "%2", "%3")), Print(`%1 + "-" + %2 + "-" + %3`), Print("{k: {z: %1, y: %2}, j: %3}"),
			Var("o3", "{}") + " o3.z = %1; o3.a = %2; " + Print("o3"), Print("{z: %1, a: [%2, {q: %3}]}"), Print(BI("values", "{m: %1, d: %2}"))} {
			fill := func(a, b, c3 string) string {
				return pre + Print(`"start"`) + "\n" + strings.NewReplacer("%1", a, "%2", b, "%3", c3).Replace(body) + "\n" + Print(`"end"`) + "\n"
			}
			lit := fill(vs[0], vs[1], vs[2])
			inp := fill(c16In(vs[0]), c16In(vs[1]), c16In(vs[2]))
			fnp := Var("feed", "["+vs[0]+", "+vs[1]+", "+vs[2]+"]") + "\n" + Var("fi", "0") + "\n" + Fun("nxt", "", " fi = fi + 1; "+Ret("feed[fi - 1]")+" ") + "\n" + fill("nxt()", "nxt()", "nxt()")
			n := strings.Count(body, "%")
			sin := strings.Join([]string{raw(vs[0]), raw(vs[1]), raw(vs[2])}[:n], "\n") + "\n"
			cs := &Case{Gen: "several-values", Src: lit, Alt: []string{inp, fnp}, X: map[string]string{"kind": "mixed", "context": fmt.Sprintf("several #%d values #%d", ci, vi), "stdins": "\x1f" + sin + "\x1f", "producers": "literal,input,counter-function"}}
			if c.Mine() {
				c16Judge(c, cs)
			}
			if c.Mine() {
				cc := *cs
				cc.Mode = "cli"
				c16Judge(c, &cc)
			}
		}
	}
	k := 0
	for ci, ctx := range ctxs {
		for _, v := range vals {
			k++
			src, sin := build(ctx, v.prods[0], v.lit)
			cs := &Case{Gen: "context-x-producers", Src: src, X: map[string]string{"kind": v.kind, "context": fmt.Sprintf("#%d %s", ci, trunc(ctx, 60))}}
			stdins := []string{sin}
			names := []string{v.prods[0].name}
			for _, p := range v.prods[1:] {
				if strings.HasPrefix(p.name, "coerced-") {
					cs.X["expr:"+p.name] = p.expr
				}
				a, s2 := build(ctx, p, v.lit)
				cs.Alt = append(cs.Alt, a)
				stdins = append(stdins, s2)
				names = append(names, p.name)
			}
			cs.X["stdins"] = strings.Join(stdins, "\x1f")
			cs.X["producers"] = strings.Join(names, ",")
			if c.Mine() {
				c16Judge(c, cs)
			}
			if (!c.Quick() || k%6 == 0) && c.Mine() {
				cc := *cs
				cc.Gen, cc.Mode = "context-x-producers-cli", "cli"
				c16Judge(c, &cc)
			}
		}
	}
}

// c16LongRun: the hole evaluated 110 000 times in one run (only producers that can be re-evaluated)
func c16LongRun(c *Ctx, pre string) {
	ctxs := []string{
		"//long-run\n" + Var("t", "0") + " " + For(Var("i", "0"), "i < 110000", "i = i + 1", "{ "+If("%v == %L", "{ t = t + 1; }")+" }") + " " + Print("t") + " " + Print("%v"),
		"//long-run\n" + Var("t", "0") + " " + Var("i", "0") + " " + While("i < 110000", "{ i = i + 1; "+Var("w", "%v")+" "+If("!(w == %L)", "{ t = t + 1; }")+" }") + " " + Print("t") + " " + Print("[%v]"),
	}
	for _, v := range []struct {
		kind, lit string
		prods     []c16Producer
	}{{"number", "3", c16NumberProducers(3)}, {"string", `"abc"`, c16StringProducers("abc")}} {
		for ci, ctx := range ctxs {
			var names, stdins []string
			cs := &Case{Gen: "many-evaluations", X: map[string]string{"kind": v.kind, "context": fmt.Sprintf("long-run #%d", ci)}}
			for _, p := range v.prods {
				if p.name == "input" || strings.HasPrefix(p.name, "coerced-") {
					continue
				}
				body := strings.ReplaceAll(strings.ReplaceAll(ctx, "%v", p.expr), "%L", v.lit)
				src := pre + p.pre + Print(`"start"`) + "\n" + body + "\n" + Print(`"end"`) + "\n"
				if len(names) == 0 {
					cs.Src = src
				} else {
					cs.Alt = append(cs.Alt, src)
				}
				names = append(names, p.name)
				stdins = append(stdins, "")
			}
			cs.X["stdins"] = strings.Join(stdins, "\x1f")
			cs.X["producers"] = strings.Join(names, ",")
			if c.Mine() {
				c16Judge(c, cs)
			}
		}
	}
}

func init() {
	register(&CheckDef{
		ID:   "C16",
		Rule: "program groups: ~170 one-hole contexts (each operand position of each binary operator with number and string partners, unary operators, logical operators, if/while/for conditions, index read/write, property, call, each argument position of every built-in including the ইনপুট prompt and the কি_রিমুভ key, element of a printed array, property value, element/property store, every concatenation position, equality against the literal and against itself) x 11 string values (incl. empty, numeric-looking, Bangla digits, >= 10^6, three strings that Unicode normalisation would rewrite) with 12-14 producers each (literal, concatenations, object property, array element, function return, parameter, ইনপুট from stdin, property assignment, value/key listing, variable, logical result, number-to-string) and 11 number values (incl. 0, -1, 10^6, 2^20 and the non-integral 0.5, 1.5, 2.25) with 19-21 producers each (literal, arithmetic, every bitwise operator, ~~, রাউন্ড, পরমমান, সর্বোচ্চ, সর্বনিম্ন of array, ঘাত, লেন, Bangla digits, function return, parameter, containers). Within each (context, value) group every producer's observation record (stdout bytes, exit status, first diagnostic with line numbers and quoted expression renderings removed) must equal the literal producer's. Non-trivial = distinct decided group.",
		Assumptions: []string{"no expected output is needed: the oracle is pairwise equality; the producers are known to yield the same value by the language's own definitions (e.g. 7&3 = 3)"},
		Run:         c16Run,
		Judge:       c16Judge,
		MustCount:   func(c *Ctx) []string { return []string{"pairs_compared", "contexts_value", "contexts_fault", "producer:string:input", "producer:string:concat", "producer:number:bitwise-or", "producer:number:len", "producer:number:round", "producer:mixed:input", "producer:mixed:counter-function", "cli_runs"} },
	})
}

var c16CoerceMemo = map[string]bool{}

// c16CoercionAccepted: does this implementation accept the numeric-looking
// string in the producer at all (the producer alone prints without a fault)?
func c16CoercionAccepted(c *Ctx, cs *Case, name string) bool {
	expr := cs.X["expr:"+name]
	if expr == "" {
		return false
	}
	if v, ok := c16CoerceMemo[expr]; ok {
		return v
	}
	o := RunLib(Print(expr)+"\n", RunOpts{MaxSteps: 10000})
	ok := o.Panic == "" && o.Exit == 0 && o.Stderr == ""
	c16CoerceMemo[expr] = ok
	return ok
}
