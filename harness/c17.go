package main

import (
	"fmt"
	"math"
	"math/big"
	"strconv"
	"strings"
	"time"
)

// C17 — math built-ins compute their function; misuse is a reported error.

var c17Unary = []string{"abs", "sqrt", "sin", "cos", "tan", "round"}

func ulpDiff(a, b float64) float64 {
	if a == b || (math.IsNaN(a) && math.IsNaN(b)) {
		return 0
	}
	if math.IsNaN(a) || math.IsNaN(b) || math.IsInf(a, 0) || math.IsInf(b, 0) {
		return math.Inf(1)
	}
	u := math.Abs(math.Nextafter(a, math.Inf(1)) - a)
	if u == 0 {
		u = 5e-324
	}
	return math.Abs(a-b) / u
}

// sqrtCorrectlyRounded checks r = sqrt(x) with exact arithmetic: x must lie
// between the squares of the midpoints to r's neighbours.
func sqrtCorrectlyRounded(x, r float64) bool {
	if math.IsNaN(x) || x < 0 {
		return math.IsNaN(r)
	}
	if math.IsInf(x, 1) || x == 0 {
		return r == x
	}
	if r <= 0 || math.IsInf(r, 0) || math.IsNaN(r) {
		return false
	}
	lo := math.Nextafter(r, 0)
	hi := math.Nextafter(r, math.Inf(1))
	bx := new(big.Float).SetPrec(400).SetFloat64(x)
	mid := func(a, b float64) *big.Float {
		s := new(big.Float).SetPrec(400).SetFloat64(a)
		s.Add(s, new(big.Float).SetPrec(400).SetFloat64(b))
		s.Quo(s, big.NewFloat(2))
		return s.Mul(s, s)
	}
	return mid(lo, r).Cmp(bx) <= 0 && bx.Cmp(mid(r, hi)) <= 0
}

func c17Expected(fn string, x float64) (float64, float64) { // value, tolerance in ulps
	switch fn {
	case "abs":
		return math.Abs(x), 0
	case "sqrt":
		return math.Sqrt(x), 0
	case "round":
		return refRound(x), 0
	case "sin":
		return math.Sin(x), 2
	case "cos":
		return math.Cos(x), 2
	case "tan":
		return math.Tan(x), 2
	}
	panic(fn)
}

func refRound(x float64) float64 {
	if math.IsNaN(x) || math.IsInf(x, 0) || x == 0 || math.Abs(x) >= 4503599627370496.0 {
		return x
	}
	// exact: compare the fractional part with 1/2 using big rationals
	t := math.Trunc(x)
	fx := new(big.Rat).SetFloat64(x)
	ft := new(big.Rat).SetFloat64(t)
	d := new(big.Rat).Sub(fx, ft)
	d.Abs(d)
	if d.Cmp(big.NewRat(1, 2)) >= 0 {
		if x > 0 {
			t++
		} else {
			t--
		}
	}
	if t == 0 && math.Signbit(x) {
		return math.Copysign(0, -1)
	}
	return t
}

// numericBatch: one program printing f(v) for many v; each output line is
// compared numerically (exactly, or within the library tolerance).
func c17NumericBatch(c *Ctx, cs *Case) {
	o := RunLib(cs.Src, RunOpts{MaxSteps: 1000000})
	if cs.Mode == "cli" {
		o = RunCLI(CLIOpts{Bin: c.Bin, Src: cs.Src, Dir: c.Scratch})
		c.Count("cli_runs", 1)
	}
	if CheckAbnormal(c, o) {
		return
	}
	fn := cs.X["fn"]
	args := strings.Split(cs.X["args"], " ")
	lines := strings.Split(strings.TrimSuffix(o.Stdout, "\n"), "\n")
	if o.Exit != 0 || o.Stderr != "" || len(lines) != len(args)*cs.lineMult() {
		c.Violate(Violation{Why: fmt.Sprintf("%s over numeric arguments: expected %d result lines, exit 0, no diagnostic", fn, len(args)*cs.lineMult()), Observed: describeObs(o), Signature: "c17-batch-shape:" + fn})
		return
	}
	for i, a := range args {
		bits, _ := strconv.ParseUint(a, 16, 64)
		x := math.Float64frombits(bits)
		if fn == "pow" {
			ybits, _ := strconv.ParseUint(strings.Split(cs.X["args2"], " ")[i], 16, 64)
			y := math.Float64frombits(ybits)
			l1, l2 := lines[2*i], lines[2*i+1]
			if l1 != l2 {
				c.Violate(Violation{Why: fmt.Sprintf("ঘাত(%v, %v) prints %q but %v ** %v prints %q", x, y, l1, x, y, l2), Observed: trunc(o.Stdout, 200), Signature: "pow-vs-operator"})
				return
			}
			got, err := strconv.ParseFloat(l1, 64)
			want := math.Pow(x, y)
			if err != nil && !math.IsInf(got, 0) || ulpDiff(want, got) > 2 {
				c.Violate(Violation{Why: fmt.Sprintf("ঘাত(%v, %v) = %q, expected %v within 2 ulp", x, y, l1, want), Signature: "pow-value"})
				return
			}
			c.Count("results:pow", 1)
			continue
		}
		got, err := strconv.ParseFloat(lines[i], 64)
		if err != nil && !math.IsInf(got, 0) {
			c.Violate(Violation{Why: fmt.Sprintf("%s(%v) printed %q, not a number", fn, x, lines[i]), Signature: "c17-not-number:" + fn})
			return
		}
		want, tol := c17Expected(fn, x)
		ok := ulpDiff(want, got) <= tol
		if fn == "sqrt" && ok {
			ok = sqrtCorrectlyRounded(x, got)
		}
		if tol == 0 && ok && want == 0 && math.Signbit(want) != math.Signbit(got) {
			ok = false
		}
		if !ok {
			c.Violate(Violation{Why: fmt.Sprintf("%s(%v) = %q, expected %v (tolerance %v ulp)", fn, x, lines[i], want, tol), Expected: fmt.Sprint(want), Observed: lines[i], Signature: "c17-value:" + fn})
			return
		}
		c.Count("results:"+fn, 1)
	}
	c.Nontrivial(cs.Src)
	c.Sample(cs.Gen, trunc(cs.Src, 300))
}

func (cs *Case) lineMult() int {
	if cs.X["fn"] == "pow" {
		return 2
	}
	return 1
}

func c17Boundary() []float64 {
	return []float64{0, math.Copysign(0, -1), 0.5, -0.5, 1.5, -1.5, 2.5, -2.5, 0.49999999999999994, -0.49999999999999994, 4503599627370496.5, 4503599627370495.5, -4503599627370495.5,
		4503599627370497, 9007199254740991, 1e308, -1e308, 5e-324, -5e-324, 1e-310, 2, 4, 16, 2.25, 1e-8, -1, -4, -100.5, 100.5, 0.1, 3.14, 1.5707963267948966, 3.141592653589793, 1e22, 1e15,
		math.Inf(1), math.Inf(-1), math.NaN(), 1, 3, 7, 10, 255, 1048576, 0.3, 123456.789}
}

func c17Judge(c *Ctx, cs *Case) {
	if cs.Gen == "repl-after-misuse" {
		c20Judge(c, cs)
		return
	}
	c.Begin(cs)
	switch cs.Gen {
	case "numeric-batches", "numeric-batches-cli", "pow-batches":
		c17NumericBatch(c, cs)
		return
	case "clock":
		c17Clock(c, cs)
		return
	}
	if cs.Mode == "cli" {
		m := RunModel(cs.Src, cs.Stdin, false, 0)
		if cliJudge(c, cs, m) == "" {
			c.Nontrivial("cli|" + cs.Src)
		}
		return
	}
	var v string
	var m *ModelOut
	if cs.Gen == "long-runs" {
		m = RunModel(cs.Src, cs.Stdin, false, 400000000)
		if m.Res == nil || m.Res.OOD != "" {
			c.Count("skipped_out_of_domain", 1)
			return
		}
		v = CompareModel(c, m, RunLib(cs.Src, RunOpts{MaxSteps: int64(3*m.Res.Steps + 10000)}), JudgeOpts{})
	} else {
		v, m, _ = stdJudge(c, cs, RunOpts{Events: "io"}, JudgeOpts{Events: true})
	}
	if v == "" && m.Res != nil {
		c.Nontrivial(cs.Src)
		outcome := "value"
		if m.Res.Fault != nil {
			outcome = "fault"
		}
		if cs.X != nil {
			c.Count("cell:"+cs.X["fn"]+"/"+cs.X["nargs"]+":"+outcome, 1)
		}
		c.Count("outcome:"+outcome, 1)
	}
	c.Sample(cs.Gen, trunc(cs.Src, 200))
}

func c17Clock(c *Ctx, cs *Case) {
	before := float64(time.Now().UnixMilli()) / 1000
	o := RunCLI(CLIOpts{Bin: c.Bin, Src: cs.Src, Dir: c.Scratch})
	after := float64(time.Now().UnixMilli()) / 1000
	c.Count("cli_runs", 1)
	if CheckAbnormal(c, o) {
		return
	}
	lines := strings.Split(strings.TrimSuffix(o.Stdout, "\n"), "\n")
	if o.Exit == 0 && len(lines) == 8 {
		// an ordinary number has one text: what + splices on either side is what print shows
		if lines[3] != "true" || lines[4] != lines[0] || lines[5] != lines[0] || lines[6] != "0.5" || lines[7] != "<0>" {
			c.Violate(Violation{Why: "the value of ক্লক() does not behave like an ordinary number (print / string + number / number + string disagree)", Observed: o.Stdout, Signature: "clock-text"})
			return
		}
		lines = lines[:3]
	}
	if o.Exit != 0 || len(lines) != 3 {
		c.Violate(Violation{Why: "clock program did not print three lines and exit 0", Observed: describeObs(o), Signature: "clock-shape"})
		return
	}
	t, err := strconv.ParseFloat(lines[0], 64)
	if err != nil || t < before-2 || t > after+2 {
		c.Violate(Violation{Why: fmt.Sprintf("ক্লক() = %q is not the current Unix time in seconds (bracket %.3f .. %.3f)", lines[0], before, after), Signature: "clock-value"})
		return
	}
	if lines[1] != "true" || lines[2] != "true" {
		c.Violate(Violation{Why: "ক্লক() is not a non-decreasing ordinary number", Observed: o.Stdout, Signature: "clock-order"})
		return
	}
	c.Nontrivial(cs.Src)
	c.Count("clock_in_bracket", 1)
}

func c17Run(c *Ctx) {
	// 1. every built-in x 0..4 arguments x argument kinds
	kinds := []string{"nil", True(), "2", "(-1.5)", `"s"`, `"16cm"`, "\"\u09e7\u09ec \u099f\u09be\u0995\u09be\"", "[]", "[1, 2]", "{}", "({k: 1})", "fq", B["abs"], "0", "[[3, 1, 2]]", "[[]]", "[[[7]]]", "(10 ** 400)", "cyc", "nd", "[1, nd, 3]", "[cyc]"}
	var nicks []string
	for _, n := range []string{"len", "append", "remove", "delete", "keys", "values", "abs", "sqrt", "pow", "sin", "cos", "tan", "min", "max", "round", "input", "clock"} {
		nicks = append(nicks, n)
	}
	// cyc: an array that contains itself; nd: a node whose child points back at it
	pre := Fun("fq", "", "") + "\n" + Var("cyc", "[0, 1]") + " cyc[0] = cyc; " + Var("nd", "{v: 1}") + " " + Var("kid", "{parent: nd}") + " nd.kid = kid;\n"
	stdin := "in-one\nin-two\n"
	r := c.Rand("kinds")
	for _, fn := range nicks {
		emit := func(args []string) {
			call := BI(fn, args...)
			src := pre + Print(`"before"`) + "\n"
			if fn == "clock" || fn == "delete" {
				src += call + ";\n" // result not specified; the call itself must succeed or fault
			} else {
				src += Print(call) + "\n"
			}
			src += Print(`"after"`) + "\n"
			x := map[string]string{"fn": fn, "nargs": fmt.Sprint(len(args))}
			if c.Mine() {
				c17Judge(c, &Case{Gen: "builtin-arity-kinds", Src: src, Stdin: stdin, X: x})
			}
			if c.Mine() && (len(args) <= 1 || r.Intn(6) == 0) {
				c17Judge(c, &Case{Gen: "builtin-arity-kinds-cli", Mode: "cli", Src: src, Stdin: stdin, X: x})
			}
		}
		emit(nil)
		for _, a := range kinds {
			emit([]string{a})
			for _, b := range kinds {
				emit([]string{a, b})
			}
		}
		for k := 0; k < c.N(60, 600); k++ {
			n := 3 + r.Intn(2)
			args := make([]string, n)
			for i := range args {
				args[i] = kinds[r.Intn(len(kinds))]
			}
			if r.Intn(2) == 0 { // mostly numeric: the interesting valid cases of min/max/append
				for i := range args {
					args[i] = fmt.Sprint(r.Intn(20) - 10)
				}
				if fn == "append" {
					args[0] = "[1]"
				}
			}
			emit(args)
		}
	}
	// 2. numeric arguments: boundary list and random doubles, 80 per program
	r = c.Rand("numeric")
	for _, fn := range c17Unary {
		vals := append([]float64{}, c17Boundary()...)
		n := c.N(8000, 2000000)
		for len(vals) < n {
			vals = append(vals, RandDouble(r))
		}
		for i := 0; i < len(vals); i += 80 {
			end := i + 80
			if end > len(vals) {
				end = len(vals)
			}
			if !c.Mine() {
				continue
			}
			var lines, bits []string
			for _, v := range vals[i:end] {
				lines = append(lines, Print(BI(fn, NumLit(v))))
				bits = append(bits, strconv.FormatUint(math.Float64bits(v), 16))
			}
			cs := &Case{Gen: "numeric-batches", Src: Lines(lines...), X: map[string]string{"fn": fn, "args": strings.Join(bits, " ")}}
			if (i/80)%25 == 0 {
				cs.Gen, cs.Mode = "numeric-batches-cli", "cli"
			}
			c17Judge(c, cs)
		}
	}
	// pow: built-in versus operator, bytes equal
	{
		n := c.N(6000, 2000000)
		for i := 0; i < n; i += 60 {
			var lines, b1, b2 []string
			for j := 0; j < 60; j++ {
				x, y := RandDouble(r), RandDouble(r)
				if j%3 == 0 {
					x, y = float64(r.Intn(20)-10), float64(r.Intn(12)-4)
				}
				if j%7 == 0 {
					bd := c17Boundary()
					x, y = bd[r.Intn(len(bd))], bd[r.Intn(len(bd))]
				}
				lines = append(lines, Print(BI("pow", NumLit(x), NumLit(y))), Print(NumLit(x)+" ** "+NumLit(y)))
				b1 = append(b1, strconv.FormatUint(math.Float64bits(x), 16))
				b2 = append(b2, strconv.FormatUint(math.Float64bits(y), 16))
			}
			if !c.Mine() {
				continue
			}
			c17Judge(c, &Case{Gen: "pow-batches", Src: Lines(lines...), X: map[string]string{"fn": "pow", "args": strings.Join(b1, " "), "args2": strings.Join(b2, " ")}})
		}
	}
	// pow over the full boundary x boundary grid (special bases and exponents: +-0, +-Inf, NaN, 0.5, +-1, ...)
	{
		bd := append(c17Boundary(), -0.5, 0.5, 2, -2, 3, -3, 1, -1, 0.25, 1e-300, -1e-300)
		var lines, b1, b2 []string
		flush := func() {
			if len(lines) == 0 {
				return
			}
			if c.Mine() {
				c17Judge(c, &Case{Gen: "pow-batches", Src: Lines(lines...), X: map[string]string{"fn": "pow", "args": strings.Join(b1, " "), "args2": strings.Join(b2, " ")}})
			}
			lines, b1, b2 = nil, nil, nil
		}
		for _, x := range bd {
			for _, y := range bd {
				lines = append(lines, Print(BI("pow", NumLit(x), NumLit(y))), Print(NumLit(x)+" ** "+NumLit(y)))
				b1 = append(b1, strconv.FormatUint(math.Float64bits(x), 16))
				b2 = append(b2, strconv.FormatUint(math.Float64bits(y), 16))
				if len(b1) == 60 {
					flush()
				}
			}
		}
		flush()
	}
	// 3. min / max over all permutations of small multisets, list and array call forms
	pool := []string{"(-3)", "(-0.5)", "0", "2", "2", "7", "(10 ** 400)", "(-(10 ** 400))", "1000000", "(7 & 3)", "(10 ** 500)", "(-(10 ** 500))", "1" + strings.Repeat("0", 308)}
	var perms func(cur []int, depth int)
	perms = func(cur []int, depth int) {
		if len(cur) > 0 && c.Mine() {
			args := make([]string, len(cur))
			for i, k := range cur {
				args[i] = pool[k]
			}
			src := Lines(Print(BI("min", args...)), Print(BI("max", args...)), Print(BI("min", "["+strings.Join(args, ", ")+"]")), Print(BI("max", "["+strings.Join(args, ", ")+"]")),
				Var("arr", "["+strings.Join(args, ", ")+"]"), Print(BI("min", "arr")+" == "+BI("min", args...)), Print(BI("max", "arr")+" == "+BI("max", args...)))
			c17Judge(c, &Case{Gen: "min-max-permutations", Src: src, X: map[string]string{"fn": "minmax", "nargs": fmt.Sprint(len(cur))}})
		}
		if depth == c.N(3, 4) {
			return
		}
		for k := range pool {
			used := false
			for _, u := range cur {
				if u == k {
					used = true
				}
			}
			if used {
				continue
			}
			perms(append(cur, k), depth+1)
		}
	}
	perms(nil, 0)
	// misuse of min/max
	for _, src := range []string{Print(BI("min")), Print(BI("max")), Print(BI("min", "[]")), Print(BI("max", "[]")), Print(BI("min", "[1, 2]", "3")), Print(BI("max", "[1, 2]", "[3]")), Print(BI("min", "1", "nil")), Print(BI("max", "[1, "+True()+"]")), Print(BI("min", `[1, "x"]`)), Print(BI("max", `[1, "2 kg"]`)), Print(BI("min", `"7up"`, "3")), Print(BI("max", "{}")), Print(BI("min", "[[3, 1, 2]]")), Print(BI("max", "[[[7]]]")), Print(BI("min", "[[1], [2]]")), Print(BI("max", "[[]]")), Print(BI("min", "[1, [2]]"))} {
		if c.Mine() {
			c17Judge(c, &Case{Gen: "min-max-misuse", Src: Print(`"b"`) + "\n" + src + "\n" + Print(`"after"`) + "\n", X: map[string]string{"fn": "minmax", "nargs": "x"}})
		}
	}
	// 3b. built-ins composed with each other: a built-in call in any argument position of another
	// (directly and through a user function), evaluated several times in one run and in a loop
	{
		r := c.Rand("nested")
		un := []string{"abs", "sqrt", "round", "sin", "cos", "tan"}
		leafs := []string{"-3", "16", "2.5", "0.25", "(-0.5)", "7", "1.5", "100", "2"}
		var ne func(d int) string
		ne = func(d int) string {
			if d == 0 || r.Intn(4) == 0 {
				return leafs[r.Intn(len(leafs))]
			}
			switch r.Intn(7) {
			case 0:
				return BI("pow", ne(d-1), ne(d-1))
			case 1:
				return BI("max", ne(d-1), ne(d-1), ne(d-1))
			case 2:
				return BI("min", ne(d-1), ne(d-1))
			case 3:
				return BI("len", "["+ne(d-1)+", "+ne(d-1)+"]")
			case 4:
				return "via(" + ne(d-1) + ")"
			case 5:
				return BI("max", "["+ne(d-1)+", "+ne(d-1)+"]")
			default:
				return BI(un[r.Intn(len(un))], ne(d-1))
			}
		}
		n := c.N(1500, 150000)
		for k := 0; k < n; k++ {
			e1, e2 := ne(3), ne(3)
			src := Lines(Fun("via", "x", " "+Ret(BI("abs", "x"))+" "), Print(e1), Print(e2), Print(e1), For(Var("i", "0"), "i < 2", "i = i + 1", "{ "+Print(e2)+" }"), Print(BI("pow", "2", BI("abs", "-3"))), Print(BI("max", "1", BI("sqrt", "16"), "2")), Print(BI("min", "7", BI("round", "8.6"), "9")))
			if !c.Mine() {
				continue
			}
			c17Judge(c, &Case{Gen: "nested-builtins", Src: src, X: map[string]string{"fn": "nested", "nargs": "n"}})
		}
	}
	// 3c. long runs: every built-in still computes its function after the run has made 150 000 (quick) /
	// 2 500 000 (thorough) built-in calls
	{
		N := fmt.Sprint(c.N(150000, 2500000))
		tail := Lines(Print(BI("abs", "-3")), Print(BI("sqrt", "16")), Print(BI("pow", "2", "10")), Print(BI("round", "2.5")), Print(BI("min", "3", "1", "2")), Print(BI("max", "[4, 9]")), Print(BI("sin", "0")), Print(BI("cos", "0")), Print(BI("tan", "0")), Print(BI("len", "[1, 2]")))
		for _, body := range []string{"s = s + " + BI("abs", "-1") + ";", "s = s + " + BI("max", "i", "1") + " - " + BI("min", "i", "1") + ";", "s = " + BI("round", "s + 0.6") + ";", "s = s + " + BI("sqrt", "4") + " + " + BI("pow", "1", "i") + ";"} {
			src := Lines(Var("s", "0"), For(Var("i", "0"), "i < "+N, "i = i + 1", "{ "+body+" }"), Print("s")) + tail
			if c.Mine() {
				c17Judge(c, &Case{Gen: "long-runs", Src: src, X: map[string]string{"fn": "long", "nargs": "n"}})
			}
		}
	}
	// 3d. built-ins as values: one call expression `f(x)` executed with f holding one built-in after another
	// (through a parameter, a variable re-assigned in a loop, an array element, an object property)
	{
		uns := []string{"abs", "sqrt", "round", "sin", "cos", "tan", "min", "max"}
		args := []string{"-16", "16", "2.5", "0", "[4, 9, 1]", `"x"`}
		for i, a := range uns {
			for j, b := range uns {
				if i == j {
					continue
				}
				for _, x := range args {
					src := Lines(Fun("apply", "f, x", " "+Ret("f(x)")+" "), Print(`"start"`), Print("apply("+B[a]+", "+x+")"), Print("apply("+B[b]+", "+x+")"), Print("apply("+B[a]+", "+x+")"),
						Var("fs", "["+B[a]+", "+B[b]+", "+B[a]+"]"), For(Var("i", "0"), "i < 3", "i = i + 1", "{ "+Var("f", "fs[i]")+" "+Print("f("+x+")")+" }"), Var("o", "{m: "+B[b]+"}"), Var("g", "o.m"), Print("g("+x+")"), "g = "+B[a]+";", Print("g("+x+")"), Print(`"end"`))
					if c.Mine() {
						c17Judge(c, &Case{Gen: "builtins-as-values", Src: src, X: map[string]string{"fn": "asvalue", "nargs": "1"}})
					}
				}
			}
		}
	}
	// 3e. min / max over long argument lists and long arrays
	for _, n := range []int{2, 100, 255, 256, 257, 300, 1000} {
		el := make([]string, n)
		for i := range el {
			el[i] = fmt.Sprint((i*37)%1009 - 500)
		}
		list := strings.Join(el, ", ")
		src := Lines(Print(B["min"]+"("+list+")"), Print(B["max"]+"("+list+")"), Print(B["min"]+"(["+list+"])"), Print(B["max"]+"(["+list+"])"))
		if c.Mine() {
			c17Judge(c, &Case{Gen: "min-max-long-lists", Src: src, X: map[string]string{"fn": "minmax", "nargs": fmt.Sprint(n)}})
		}
	}
	// the same through the binary with data lines far beyond 64 KiB (a generated list of readings on one physical line)
	for _, n := range []int{1000, 14000, 30000} {
		el := make([]string, n)
		for i := range el {
			el[i] = fmt.Sprintf("%d.%d", (i*37)%1009, i%10)
		}
		list := strings.Join(el, ", ")
		for _, src := range []string{
			Lines(Print(`"first"`), Var("m", "["+list+"]"), Print(BI("len", "m")), Print(BI("max", "m")), Print(BI("min", "m")), Print(BI("sqrt", "16"))),
			Lines(Print(`"first"`), Print(B["max"]+"("+list+")"), Print(B["min"]+"("+list+")"), Print(BI("sqrt", "16"))),
		} {
			if c.Mine() {
				c17Judge(c, &Case{Gen: "min-max-long-lists-cli", Mode: "cli", Src: src, X: map[string]string{"fn": "minmax", "nargs": fmt.Sprint(n)}})
			}
		}
	}
	// 3e3. any expression may be an argument (an assignment included); ঘাত of a power equals the ** chain
	for _, src := range []string{
		Lines(Var("k", "0"), Print(BI("sqrt", "k = 16")), Print("k"), Var("big", "0"), Print(BI("max", "big = 3", "2")), Print(BI("abs", "k = k - 20")), Print(BI("pow", "k = 2", "big = 10")), Print("[k, big]")),
		Lines(Print(BI("abs", "-~5")), Print(BI("sqrt", "-~15")), Print(BI("pow", "2", "~-4")), Print(BI("max", "-~1", "~-1", "- -1")), Print(BI("round", "-~2 + 0.5")), Var("n", "3"), Print(BI("abs", "~-n")+" + "+BI("abs", "-~n")), Print(BI("abs", "!-0"))),
		Lines(Print(BI("pow", BI("pow", "2", "3"), "2")+" == 2 ** 3 ** 2"), Print("2 ** 3 ** 2"), Print(BI("sqrt", "16")+" ** 2 ** 0.5"), Var("q", "2"), Print("q ** 2 ** 3 ** -1"), Print(BI("pow", BI("pow", BI("pow", "q", "2"), "3"), "-1"))),
	} {
		if c.Mine() {
			c17Judge(c, &Case{Gen: "builtin-arity-kinds", Src: src, X: map[string]string{"fn": "argument-forms", "nargs": "1"}})
		}
	}
	// 3e4. built-ins called from loop bodies that skip rounds, from functions and on arrays written over several lines
	for _, src := range []string{
		Lines(Fun("rootsum", "xs", " "+K["var"]+" s = 0, i = 0; "+While("i < "+BI("len", "xs"), "{ "+Var("x", "xs[i]")+" i = i + 1; "+If("x < 0", "{ "+Continue()+" }")+" s = s + "+BI("sqrt", "x")+"; }")+" "+Ret(BI("round", "s"))+" "), Print("rootsum([16, -4, 9, -1, 25])"), Print(BI("pow", "rootsum([4, -4])", "2"))),
		Lines(Var("xs", "[16, -4, 9, -1, 25]"), Var("i", "0"), While("i < "+BI("len", "xs"), "{ "+Var("x", "xs[i]")+" i = i + 1; "+If("x < 0", "{ "+Continue()+" }")+" "+Print(BI("sqrt", "x"))+" }"), Print(BI("max", "xs")), For(Var("j", "0"), "j < 5", "j = j + 1", "{ "+If("xs[j] > 0", Continue())+" "+Print(BI("abs", "xs[j]"))+" }")),
		Lines("// readings, one per line", K["var"]+" m = [\n    12.5,\n    18.25,\n    -3.5,\n    9\n];", Print(BI("max", "m")), Print(BI("min", "m")), Print(BI("abs", BI("min", "m"))), K["var"]+" pt = {\n  x: 3,\n  y: 4\n};", Print(BI("sqrt", BI("pow", "pt.x", "2")+" + "+BI("pow", "pt.y", "2"))), Print(BI("len", "m"))),
		// guard-style value-less returns: what such a call yields is nil, whatever an earlier call returned
		Lines(Fun("avg", "xs", " "+If(BI("len", "xs")+" == 0", "{ "+Ret("")+" }")+" "+Var("t", "0")+" "+For(Var("i", "0"), "i < "+BI("len", "xs"), "i = i + 1", "{ t = t + xs[i]; }")+" "+Ret("t / "+BI("len", "xs"))+" "), Print(BI("round", "avg([2, 4, 9])")), Print(`"before"`), Print(BI("round", "avg([])")), Print(`"AFTER"`)),
		Lines(Fun("safe", "x", " "+If("x < 0", "{ "+Ret("")+" }")+" "+Ret(BI("sqrt", "x"))+" "), Print("safe(16)"), Print("safe(-9)"), Print(`"before"`), Print(BI("max", "1", "safe(-9)", "2")), Print(`"AFTER"`)),
		Lines(Fun("one", "", " "+Ret("1")+" "), Fun("none", "", " "+Ret("")+" "), Print("one()"), Print("none()"), Print("[one(), none(), one()]"), Print(`"before"`), Print(BI("abs", "none()")), Print(`"AFTER"`)),
		Lines(Print(BI("max", "[\n 1,\n 5,\n 2\n]")), Print(BI("min", "\n 4,\n 2\n")), Var("e", "[\n]"), Print(BI("len", "e"))),
	} {
		if c.Mine() {
			c17Judge(c, &Case{Gen: "builtin-arity-kinds", Src: src, X: map[string]string{"fn": "loops-and-layout", "nargs": "1"}})
		}
		if c.Mine() {
			c17Judge(c, &Case{Gen: "builtin-arity-kinds-cli", Mode: "cli", Src: src, X: map[string]string{"fn": "loops-and-layout", "nargs": "1"}})
		}
	}
	// 3e2. a variable declared without a value holds nil, also when it follows an initialised one in a list; a call followed by a comment that ends the text
	for _, src := range []string{
		Lines(K["var"]+" root = "+BI("sqrt", "16")+", res;", Print(`"before"`), Print(BI("abs", "res")), Print(`"AFTER"`)), Lines(K["var"]+" base = 2, ex;", Print(BI("pow", "base", "ex"))), Lines(K["var"]+" best = 9, other, third;", Print(BI("max", "best", "9")), Print(BI("min", "other", "1"))),
		Print(BI("sqrt", "16")) + " // four", Print(BI("max", "1", "2")) + "\n" + Print(BI("pow", "2", "10")) + " //", BI("sqrt", `"x"`) + "; // bad", Print(BI("abs", "-1")) + " /* c */ // d",
	} {
		if c.Mine() {
			c17Judge(c, &Case{Gen: "builtin-arity-kinds", Src: src, X: map[string]string{"fn": "decl-or-ending", "nargs": "1"}})
		}
		if c.Mine() {
			c17Judge(c, &Case{Gen: "builtin-arity-kinds-cli", Mode: "cli", Src: src, X: map[string]string{"fn": "decl-or-ending", "nargs": "1"}})
		}
	}
	// 3f'. interactive mode: what an earlier line assigned to a built-in's name is gone on the next line
	for _, sess := range [][]string{
		{B["max"] + " = 0;", Print(BI("max", "3", "9", "4")), B["pow"] + " = 2; " + Print(B["pow"]), Print(BI("pow", "2", "10")), Print(BI("sqrt", "16")), BI("sqrt", `"k"`) + ";", Print(BI("abs", "-3"))},
		{Fun("brk", "", " "+B["sqrt"]+" = nil; "+B["abs"]+" = 1; ") + " brk();", Print(BI("sqrt", "16")), BI("abs", "-3") + ";", "{ " + B["round"] + " = 0; }", Print(BI("round", "2.5"))},
	} {
		if c.Mine() {
			c17Judge(c, &Case{Gen: "repl-after-misuse", Src: strings.Join(sess, "\n"), X: map[string]string{"final_newline": "1", "all_self": "1"}})
		}
	}
	// 3f. interactive mode: after a line that misuses a built-in, later lines still compute
	for _, bad := range []string{Print(BI("sqrt", `"x"`)), BI("abs") + ";", BI("pow", "1", "nil") + ";", Print(BI("max", "[]")), BI("len", "5") + ";"} {
		lines := []string{Print(BI("sqrt", "16")), bad, Print(BI("sqrt", "16")), BI("abs", "-3") + ";", bad, BI("max", "1", "2") + ";", Print(BI("round", "2.5") + " + " + BI("pow", "2", "3"))}
		if c.Mine() {
			c17Judge(c, &Case{Gen: "repl-after-misuse", Src: strings.Join(lines, "\n"), X: map[string]string{"final_newline": "1", "all_self": "1"}})
		}
	}
	// 4. clock: causal bracket around the child process
	for k := 0; k < 3; k++ {
		if c.Mine() {
			c17Judge(c, &Case{Gen: "clock", Src: Lines(Var("t", BI("clock")), Print("t"), Print("t > 1600000000"), Print(BI("clock")+" >= t"), Print(`(t + "") == ("" + t)`), Print(`t + ""`), Print(`"" + t`), Print(`t - t + 0.5`), Print(`"<" + (t - t) + ">"`))})
		}
	}
}

func init() {
	register(&CheckDef{
		ID:   "C17",
		Rule: "programs: built-ins composed with each other in argument positions (seeded, evaluated repeatedly in one run); every built-in (17) x 0-2 arguments over every combination of 18 argument kinds (nil, boolean, numbers, non-numeric string, text that starts like a number, arrays, objects, user function, built-in) and seeded samples with 3-4 arguments, with prints before and after (value-or-fault, category, line, nothing after a fault, no built-in after a fault: hook event monitor); numeric arguments for abs/sqrt/sin/cos/tan/round over 46 boundary values and seeded random doubles by bit pattern in batches of 80 (abs, sqrt, round exact — sqrt additionally checked against exact squares of the neighbouring midpoints, round against exact big-rational half-away-from-zero; sin/cos/tan within 2 ulp of the platform library); ঘাত(a,b) and a ** b printed side by side and compared byte for byte; min/max over every arrangement of up to 3 (quick) / 4 (thorough) distinct entries of a 10-value pool in list and array call forms; min/max misuse; ক্লক() against a causal wall-clock bracket taken around the child process. Non-trivial = distinct decided program.",
		Assumptions: []string{"sin/cos/tan/pow are compared with Go's math package on the same platform within 2 ulp ('to the accuracy of the platform's math library')", "numeric-looking strings as numeric arguments and NaN / mixed signed zeros in min/max are out of domain", "the clock bracket has 2 s slack; a clock step during the run would make that case wrong (not observed)"},
		Run:         c17Run,
		Judge:       c17Judge,
		MustCount: func(c *Ctx) []string {
			out := []string{"outcome:value", "outcome:fault", "results:abs", "results:sqrt", "results:sin", "results:cos", "results:tan", "results:round", "results:pow", "gen:min-max-permutations", "gen:nested-builtins", "gen:long-runs", "gen:builtins-as-values", "gen:repl-after-misuse", "gen:min-max-long-lists", "clock_in_bracket", "cli_runs", "fault:Arity", "fault:BuiltinFailure"}
			return out
		},
	})
}
