package main

import (
	"fmt"
	"os"
	"path/filepath"
	"sort"
	"strings"

	"golang.org/x/text/unicode/norm"

	"verifharness/ref"
)

// C18 — meaning is invariant under layout, digit script, synonyms, renaming,
// parentheses and dead code.  Transforms are applied on the spec lexer's
// tokens and the reference parser's node spans, never with the code under test.

type tokProg struct {
	lex  []string
	kind []string
	pre  map[int][]string // text chunks inserted before token i (own lines)
}

func tokenise(src string) (*tokProg, []ref.Token, []*ref.Node, bool) {
	toks, lerr := ref.Lex([]rune(src))
	if len(lerr) > 0 {
		return nil, nil, nil, false
	}
	prog, serr := ref.NewParser(toks).ParseProgram()
	if serr != nil {
		return nil, nil, nil, false
	}
	tp := &tokProg{pre: map[int][]string{}}
	for _, t := range toks[:len(toks)-1] {
		tp.lex = append(tp.lex, t.Lexeme)
		tp.kind = append(tp.kind, t.Kind)
	}
	return tp, toks, prog, true
}

// render writes the tokens; sep chooses the separator before token i (given
// whether a line break is allowed there).
func (tp *tokProg) render(sep func(i int, mayBreak bool) string) string {
	var b strings.Builder
	inVar := false
	for i, lx := range tp.lex {
		if chunks, ok := tp.pre[i]; ok && !inVar {
			for _, ch := range chunks {
				b.WriteString("\n" + ch + "\n")
			}
		}
		if i > 0 {
			b.WriteString(sep(i, !inVar))
		}
		b.WriteString(lx)
		if tp.kind[i] == "var" {
			inVar = true
		}
		if tp.kind[i] == ";" {
			inVar = false
		}
	}
	if chunks, ok := tp.pre[len(tp.lex)]; ok {
		for _, ch := range chunks {
			b.WriteString("\n" + ch + "\n")
		}
	}
	b.WriteString("\n")
	return b.String()
}

func (tp *tokProg) canonical() string {
	return tp.render(func(i int, mayBreak bool) string {
		if mayBreak && (tp.kind[i-1] == ";" || tp.kind[i-1] == "{" || tp.kind[i-1] == "}") {
			return "\n"
		}
		return " "
	})
}

func (tp *tokProg) clone() *tokProg {
	c := &tokProg{lex: append([]string{}, tp.lex...), kind: append([]string{}, tp.kind...), pre: map[int][]string{}}
	for k, v := range tp.pre {
		c.pre[k] = append([]string{}, v...)
	}
	return c
}

// walk visits every node.
func walkNodes(ns []*ref.Node, f func(n *ref.Node)) {
	for _, n := range ns {
		if n == nil {
			continue
		}
		f(n)
		walkNodes(n.Kids, f)
	}
}

var exprKinds = map[string]bool{"num": true, "str": true, "bool": true, "nil": true, "ident": true, "group": true, "unary": true, "binary": true, "logical": true, "call": true, "index": true, "prop": true, "array": true, "object": true, "assign": true, "setindex": true, "setprop": true}
var stmtKinds = map[string]bool{"expr": true, "print": true, "var": true, "varlist": true, "block": true, "if": true, "while": true, "for": true, "break": true, "continue": true, "return": true, "fun": true}

type c18Transform struct {
	name  string
	apply func(r *Rng, tp *tokProg, toks []ref.Token, prog []*ref.Node) (string, map[string]string)
}

func c18Layout(r *Rng, tp *tokProg) string {
	body := c18LayoutBody(r, tp)
	// how the text ends is layout too: no final newline, a comment as the very last bytes, blanks
	body = strings.TrimSuffix(body, "\n")
	return body + []string{"\n", "", " /* tail */", "/* tail */", "\n/* tail\n*/", " // tail", "//", "\t", "\r\n", "\n\n\n", " /**/"}[r.Intn(11)]
}

func c18LayoutBody(r *Rng, tp *tokProg) string {
	return tp.render(func(i int, mayBreak bool) string {
		var b strings.Builder
		n := 1 + r.Intn(3)
		for k := 0; k < n; k++ {
			switch r.Intn(9) {
			case 0:
				b.WriteString("\t")
			case 1:
				if k == 0 && n == 1 && !strings.HasSuffix(tp.lex[i-1], "/") && r.Intn(3) == 0 {
					// a comment as the only separator, no blank on either side: it still separates
					b.WriteString([]string{"/**/", "/* c */", "/***/", "/*x*/"}[r.Intn(4)])
					break
				}
				b.WriteString([]string{" /* c */ ", " /*/ slash first */ ", " /***/ ", " /* * / */ ", " /* \" ' */ ", " /*//*/ ", " /* " + K["print"] + " 1; */ ", " /**/ "}[r.Intn(8)])
			case 2:
				if mayBreak && r.Intn(3) == 0 {
					if b.Len() == 0 && strings.HasSuffix(tp.lex[i-1], "/") {
						b.WriteString(" ") // "/" directly followed by "//" would start the comment one character early
					}
					b.WriteString([]string{"//\n", " //\n", "//\r\n", "// \n"}[r.Intn(4)]) // a comment with no text at all
				} else if mayBreak {
					b.WriteString(" // note " + K["print"] + " \"x\";\n")
				} else {
					b.WriteString("  ")
				}
			case 3, 4:
				if mayBreak {
					b.WriteString("\n")
				} else {
					b.WriteString(" ")
				}
			case 5:
				if mayBreak {
					b.WriteString("\r\n")
				} else {
					b.WriteString(" ")
				}
			case 6:
				if mayBreak {
					b.WriteString(" /* multi\nline */ ")
				} else {
					b.WriteString(" /**/ ")
				}
			default:
				b.WriteString(" ")
			}
		}
		return b.String()
	})
}

// c18LongLineCases: one program in three layouts (data table wrapped / on one line of 80-200 KB / everything on one line).
func c18LongLineCases(gen string) []*Case {
	var out []*Case
	for _, n := range []int{14000, 30000} {
		var wrapped, flat strings.Builder
		for i := 0; i < n; i++ {
			v := fmt.Sprint((i*7919)%100003 + 1)
			if i > 0 {
				flat.WriteString(", ")
				if i%20 == 0 {
					wrapped.WriteString(",\n  ")
				} else {
					wrapped.WriteString(", ")
				}
			}
			flat.WriteString(v)
			wrapped.WriteString(v)
		}
		rest := []string{Print(BI("len", "tbl")), Print("tbl[0] + tbl[" + fmt.Sprint(n-1) + "]"), Print("1 + 2 * 3 ** 2"), Var("a", "0"), Var("b", "0"), "a = b = 5;", Print("a + b"), If("a", IfElse("b > 9", Print(`"then"`), Print(`"else"`))), Print(`"end"`)}
		head := Print(`"start"`)
		src := head + "\n" + K["var"] + " tbl = [\n  " + wrapped.String() + "\n];\n" + strings.Join(rest, "\n") + "\n"
		one := head + "\n" + K["var"] + " tbl = [" + flat.String() + "];\n" + strings.Join(rest, "\n") + "\n"
		all := head + " " + K["var"] + " tbl = [" + flat.String() + "]; " + strings.Join(rest, " ")
		out = append(out, &Case{Gen: gen, Mode: "cli", Src: src, Alt: []string{one, all}, X: map[string]string{"t0": "layout", "t1": "layout"}})
	}
	return out
}

func c18Transforms() []c18Transform {
	return []c18Transform{
		{"layout", func(r *Rng, tp *tokProg, toks []ref.Token, prog []*ref.Node) (string, map[string]string) {
			return c18Layout(r, tp), nil
		}},
		{"digit-script", func(r *Rng, tp *tokProg, toks []ref.Token, prog []*ref.Node) (string, map[string]string) {
			t := tp.clone()
			for i := range t.lex {
				if t.kind[i] == "NUMBER" {
					var b strings.Builder
					for _, ch := range t.lex[i] {
						switch {
						case ch >= '0' && ch <= '9' && r.Bool():
							b.WriteRune(0x09E6 + (ch - '0'))
						case ch >= 0x09E6 && ch <= 0x09EF && r.Bool():
							b.WriteRune('0' + (ch - 0x09E6))
						default:
							b.WriteRune(ch)
						}
					}
					t.lex[i] = b.String()
				}
			}
			return t.canonical(), nil
		}},
		{"logical-synonyms", func(r *Rng, tp *tokProg, toks []ref.Token, prog []*ref.Node) (string, map[string]string) {
			t := tp.clone()
			for i := range t.lex {
				if t.kind[i] == "&&" && r.Bool() {
					if t.lex[i] == "&&" {
						t.lex[i] = K["and"]
					} else {
						t.lex[i] = "&&"
					}
				}
				if t.kind[i] == "||" && r.Bool() {
					if t.lex[i] == "||" {
						t.lex[i] = K["or"]
					} else {
						t.lex[i] = "||"
					}
				}
			}
			return t.canonical(), nil
		}},
		{"rename", func(r *Rng, tp *tokProg, toks []ref.Token, prog []*ref.Node) (string, map[string]string) {
			t := tp.clone()
			declared := map[string]bool{}
			walkNodes(prog, func(n *ref.Node) {
				switch n.Kind {
				case "var":
					declared[n.Name] = true
				case "fun":
					declared[n.Name] = true
					for _, p := range n.Keys {
						declared[p] = true
					}
				}
			})
			names := make([]string, 0, len(declared))
			for n := range declared {
				if _, isB := ref.BuiltinByName[n]; !isB {
					names = append(names, n)
				}
			}
			sort.Strings(names)
			mapping := map[string]string{}
			back := map[string]string{}
			for i, n := range names {
				var nn string
				switch r.Intn(7) {
				case 5, 6:
					// words that begin like a keyword or a word operator and go on with a combining mark or a letter
					stem := []string{K["or"] + "\u0982\u09b2\u09be", K["or"] + "\u0981\u09b6\u09bf", K["and"] + "\u09b6", K["for"] + "\u09cd\u09ae\u09c1\u09b2\u09be", K["true"] + "\u09bf", K["var"] + "\u09c7", K["if"] + "\u09cb", K["print"] + "_", "nil\u0981", K["or"] + "\u0983"}[r.Intn(10)]
					nn = fmt.Sprintf("%s%d_%d", stem, i, r.Intn(90))
				case 3:
					nn = fmt.Sprintf("_zq%d_%d", i, r.Intn(90)) // leading underscore
				case 4:
					nn = fmt.Sprintf("__%d", i*97+r.Intn(90)) // underscores and digits only
				case 0:
					nn = fmt.Sprintf("zq%dx%d", i, r.Intn(90))
				case 1:
					nn = fmt.Sprintf("ঙঞ%d_%d", i, r.Intn(90))
				default:
					// code points that Unicode normalisation would rewrite (U+09DF, U+09DC, split vowel sign)
					nn = fmt.Sprintf("ঙ\u09df%d\u09dc_%dক\u09c7\u09be", i, r.Intn(90))
				}
				mapping[n] = nn
				back[nn] = n
			}
			ren := func(idx int) {
				if idx >= 0 && idx < len(t.lex) && t.kind[idx] == "IDENT" {
					if nn, ok := mapping[t.lex[idx]]; ok {
						t.lex[idx] = nn
					}
				}
			}
			walkNodes(prog, func(n *ref.Node) {
				switch n.Kind {
				case "var", "assign", "ident":
					ren(n.NameTok)
				case "fun":
					ren(n.NameTok)
					for _, pt := range n.ParamToks {
						ren(pt)
					}
				}
			})
			return t.canonical(), back
		}},
		{"parentheses", func(r *Rng, tp *tokProg, toks []ref.Token, prog []*ref.Node) (string, map[string]string) {
			var spans [][2]int
			walkNodes(prog, func(n *ref.Node) {
				if exprKinds[n.Kind] && n.End > n.Tok {
					spans = append(spans, [2]int{n.Tok, n.End})
				}
			})
			if len(spans) == 0 {
				return tp.canonical(), nil
			}
			open := map[int]int{}
			cl := map[int]int{}
			for k := 1 + r.Intn(3); k > 0; k-- {
				s := spans[r.Intn(len(spans))]
				d := 1 + r.Intn(2)
				open[s[0]] += d
				cl[s[1]] += d
			}
			t := &tokProg{pre: map[int][]string{}}
			for i := range tp.lex {
				for k := 0; k < cl[i]; k++ {
					t.lex = append(t.lex, ")")
					t.kind = append(t.kind, ")")
				}
				for k := 0; k < open[i]; k++ {
					t.lex = append(t.lex, "(")
					t.kind = append(t.kind, "(")
				}
				t.lex = append(t.lex, tp.lex[i])
				t.kind = append(t.kind, tp.kind[i])
			}
			for k := 0; k < cl[len(tp.lex)]; k++ {
				t.lex = append(t.lex, ")")
				t.kind = append(t.kind, ")")
			}
			return t.canonical(), nil
		}},
		{"dead-code", func(r *Rng, tp *tokProg, toks []ref.Token, prog []*ref.Node) (string, map[string]string) {
			t := tp.clone()
			var starts []int
			var afterReturn []int
			walkNodes(prog, func(n *ref.Node) {
				if stmtKinds[n.Kind] {
					// statements directly inside a program / block / function body
					starts = append(starts, n.Tok)
				}
			})
			// keep only statement starts that are list members (not the single-statement body of if/while/for)
			member := map[int]bool{}
			for _, n := range prog {
				member[n.Tok] = true
			}
			walkNodes(prog, func(n *ref.Node) {
				if n.Kind == "block" || n.Kind == "fun" {
					for _, k := range n.Kids {
						if k != nil {
							member[k.Tok] = true
							if k.Kind == "return" {
								afterReturn = append(afterReturn, k.End)
							}
						}
					}
				}
			})
			var pos []int
			for _, s := range starts {
				if member[s] {
					pos = append(pos, s)
				}
			}
			pos = append(pos, len(t.lex))
			// also the very end of every block and function body (just before its closing brace)
			walkNodes(prog, func(n *ref.Node) {
				if (n.Kind == "block" || n.Kind == "fun") && n.End-1 > 0 && n.End-1 < len(t.lex) && t.lex[n.End-1] == "}" {
					pos = append(pos, n.End-1)
				}
			})
			for k := 1 + r.Intn(3); k > 0; k-- {
				at := pos[r.Intn(len(pos))]
				g := NewPG(r, 2+r.Intn(5))
				g.Faults = true
				g.Names = []string{fmt.Sprintf("dz%d", r.Intn(1000)), fmt.Sprintf("dy%d", r.Intn(1000))}
				g.fnSeq = 900 + r.Intn(50)
				g.loopSeq = 900 + r.Intn(50)
				body := g.Program(2)
				var chunk string
				switch r.Intn(4) {
				case 0:
					chunk = K["if"] + " (" + False() + ") {\n" + body + "}"
				case 1:
					chunk = K["while"] + " (" + False() + ") {\n" + body + "}"
				case 2:
					chunk = K["fun"] + fmt.Sprintf(" dead_fn%d(dp) {\n", r.Intn(100000)) + body + "}"
				default:
					chunk = K["if"] + " (" + True() + ") { } " + K["else"] + " {\n" + body + "}"
				}
				t.pre[at] = append(t.pre[at], chunk)
			}
			for _, at := range afterReturn {
				if r.Intn(2) == 0 {
					t.pre[at] = append(t.pre[at], Print(`"never printed"`)+" "+Print("(1 / 0)"))
				}
			}
			return t.canonical(), nil
		}},
	}
}

type c18Rec struct {
	stdout, diag string
	exit         int
}

// c18Budget: step budget for the in-process runs of one case; the original runs under the default, the
// variants under ten times what the original needed (redundant parentheses and dead code add steps).
var c18Budget int64 = 300000
var c18LastSteps int64

func c18Observe(c *Ctx, src, stdin string, cli bool, back map[string]string) (*c18Rec, bool) {
	var o *Obs
	if cli {
		o = RunCLI(CLIOpts{Bin: c.Bin, Src: src, Stdin: stdin, Dir: c.Scratch})
		c.Count("cli_runs", 1)
		if o.TimedOut {
			c.Inconclusive("CLI watchdog")
			return nil, false
		}
		if o.Exit == 2 {
			o.Panic = firstPanicLine(o.Stderr) + " ||"
		}
	} else {
		o = RunLib(src, RunOpts{MaxSteps: c18Budget, Stdin: stdin})
		c18LastSteps = o.Steps
	}
	if o.Budget != "" {
		return nil, false // unbounded program: says nothing here
	}
	if CheckAbnormal(c, o) {
		return nil, false
	}
	rec := &c18Rec{stdout: o.Stdout, exit: o.Exit}
	if d := ParseDiags(o.Stderr); len(d) > 0 {
		rec.diag = NormDiag(d[0], true)
	}
	// renamed identifiers mapped back (diagnostics and printed function values may quote them)
	if len(back) > 0 {
		keys := make([]string, 0, len(back))
		for k := range back {
			keys = append(keys, k)
		}
		sort.Slice(keys, func(i, j int) bool { return len(keys[i]) > len(keys[j]) })
		for _, k := range keys {
			// printed text is NFC-normalised, so the new name may appear in its NFC form
			for _, form := range []string{k, norm.NFC.String(k)} {
				rec.stdout = strings.ReplaceAll(rec.stdout, form, norm.NFC.String(back[k]))
				rec.diag = strings.ReplaceAll(rec.diag, form, norm.NFC.String(back[k]))
			}
		}
	}
	// compare under canonical equivalence (diagnostics are not normalised by the implementation)
	// (stdout is compared byte for byte: the print statement itself normalises, and whether it does
	// must not depend on the transform)
	rec.diag = norm.NFC.String(rec.diag)
	return rec, true
}

func c18Judge(c *Ctx, cs *Case) {
	c.Begin(cs)
	cli := cs.Mode == "cli"
	c18Budget = 300000
	base, ok := c18Observe(c, cs.Src, cs.Stdin, cli, nil)
	if ok && !cli && 10*c18LastSteps+10000 > c18Budget {
		c18Budget = 10*c18LastSteps + 10000
	}
	if !ok {
		c.Count("skipped_unbounded_or_abnormal", 1)
		return
	}
	for i, alt := range cs.Alt {
		back := map[string]string{}
		if cs.X != nil && cs.X[fmt.Sprintf("back%d", i)] != "" {
			for _, kv := range strings.Split(cs.X[fmt.Sprintf("back%d", i)], "\x1f") {
				p := strings.SplitN(kv, "\x1e", 2)
				if len(p) == 2 {
					back[p[0]] = p[1]
				}
			}
		}
		rec, ok := c18Observe(c, alt, cs.Stdin, cli, back)
		if !ok {
			c.Violate(Violation{Why: "transformed program ran abnormally / without bound while the original did not (transform: " + cs.X[fmt.Sprintf("t%d", i)] + ")", Signature: "transform-abnormal:" + cs.X[fmt.Sprintf("t%d", i)], Case: Case{Gen: cs.Gen, Src: alt, Alt: []string{cs.Src}}})
			return
		}
		if *rec != *base {
			tn := cs.X[fmt.Sprintf("t%d", i)]
			c.Violate(Violation{Why: "meaning changed under transform: " + tn,
				Expected: fmt.Sprintf("original: exit=%d stdout=%q diag=%q", base.exit, trunc(base.stdout, 300), base.diag),
				Observed: fmt.Sprintf("transformed: exit=%d stdout=%q diag=%q", rec.exit, trunc(rec.stdout, 300), rec.diag),
				Signature: "transform:" + tn, Case: Case{Gen: cs.Gen, Src: alt, Stdin: cs.Stdin, Alt: []string{cs.Src}, Note: "Src is the transformed program, Alt[0] the original", X: map[string]string{"t0": "replay-identity"}}})
			return
		}
		c.Count("pairs:"+cs.X[fmt.Sprintf("t%d", i)], 1)
	}
	if base.exit == 0 {
		c.Count("originals_clean", 1)
	} else {
		c.Count("originals_failing", 1)
	}
	c.Nontrivial(cs.Src)
	if len(cs.Alt) > 0 {
		c.Sample(cs.Gen, map[string]string{"original": trunc(cs.Src, 200), "transformed(" + cs.X["t0"] + ")": trunc(cs.Alt[0], 300)})
	}
}

func c18Case(c *Ctx, r *Rng, gen, src, stdin string) *Case {
	tp, toks, prog, ok := tokenise(src)
	if !ok {
		return nil
	}
	cs := &Case{Gen: gen, Src: tp.canonical(), Stdin: stdin, X: map[string]string{}}
	ts := c18Transforms()
	add := func(name, text string, back map[string]string) {
		i := len(cs.Alt)
		cs.Alt = append(cs.Alt, text)
		cs.X[fmt.Sprintf("t%d", i)] = name
		if len(back) > 0 {
			var kv []string
			for k, v := range back {
				kv = append(kv, k+"\x1e"+v)
			}
			sort.Strings(kv)
			cs.X[fmt.Sprintf("back%d", i)] = strings.Join(kv, "\x1f")
		}
	}
	for _, t := range ts {
		for rep := 0; rep < 2; rep++ {
			text, back := t.apply(r, tp, toks, prog)
			add(t.name, text, back)
		}
	}
	// family (e) applied everywhere at once: every composite sub-expression parenthesised
	// as the ladder groups it (printed from the reference tree)
	add("parentheses-full", ref.PrintOpts{Full: true}.Program(prog), nil)
	add("parentheses-full-atoms", ref.PrintOpts{Full: true, Atoms: true}.Program(prog), nil)
	// all six combined: apply token-level transforms in sequence on re-tokenised text
	cur := tp.canonical()
	allBack := map[string]string{}
	okAll := true
	for _, t := range ts[1:] {
		tp2, toks2, prog2, ok := tokenise(cur)
		if !ok {
			okAll = false
			break
		}
		var back map[string]string
		cur, back = t.apply(r, tp2, toks2, prog2)
		for k, v := range back {
			allBack[k] = v
		}
	}
	if okAll {
		if tp3, _, _, ok := tokenise(cur); ok {
			add("all-combined", c18Layout(r, tp3), allBack)
		}
	}
	return cs
}

// c18DeepPrograms: programs that recurse a few thousand calls deep (a transform must not change how deep a program may go)
func c18DeepPrograms() []string {
	el := make([]string, 2200)
	for i := range el {
		el[i] = fmt.Sprint((i*7919)%10007)
	}
	return []string{
		Lines(Fun("sum", "n", " "+If("n == 0", "{ "+Ret("0")+" }")+" "+Ret("n + sum(n - 1)")+" "), Print("sum(3000)"), Print("sum(10)")),
		Lines(Var("xs", "["+strings.Join(el, ", ")+"]"), Fun("mx", "i", " "+If("i == "+BI("len", "xs")+" - 1", "{ "+Ret("xs[i]")+" }")+" "+Var("rest", "mx(i + 1)")+" "+If("xs[i] > rest", "{ "+Ret("xs[i]")+" }")+" "+Ret("rest")+" "), Print("mx(0)")),
		Lines(Fun("down", "n", " "+If("n == 0", "{ "+Ret("1 / 0")+" }")+" "+Ret("1 + down(n - 1) * 1")+" "), Print(`"start"`), Print("down(2300)"), Print(`"AFTER"`)),
		Lines(Fun("even", "n", " "+If("n == 0", "{ "+Ret(True())+" }")+" "+Ret("odd(n - 1)")+" "), Fun("odd", "n", " "+If("n == 0", "{ "+Ret(False())+" }")+" "+Ret("even(n - 1)")+" "), Print("even(3000)"), Print("odd(2999)")),
	}
}

func c18Run(c *Ctx) {
	r := c.Rand("transforms")
	files, _ := filepath.Glob(filepath.Join(c.Repo, "example", "*.bn"))
	for _, f := range files {
		b, err := os.ReadFile(f)
		if err != nil {
			continue
		}
		var keep []string
		for _, ln := range strings.Split(string(b), "\n") {
			if strings.Contains(ln, ref.BI["clock"]) && !strings.HasPrefix(strings.TrimSpace(ln), "//") {
				continue
			}
			keep = append(keep, ln)
		}
		for rep := 0; rep < c.N(3, 20); rep++ {
			cs := c18Case(c, r, "shipped-examples", strings.Join(keep, "\n"), "typed text\nmore\n")
			if cs == nil {
				continue
			}
			cs.Mode = "cli"
			if c.Mine() {
				c18Judge(c, cs)
			}
		}
	}
	hand := append(c03Handwritten(), c04Handwritten()...)
	hand = append(hand, c18DeepPrograms()...)
	hand = append(hand, c11Freshness()...)
	for _, src := range hand {
		cs := c18Case(c, r, "handwritten-programs", src, "")
		if cs == nil {
			continue
		}
		if c.Mine() {
			c18Judge(c, cs)
		}
	}
	// layout at scale, through the binary: the same tokens wrapped every 20 elements, on one physical line far beyond 64 KiB,
	// and the whole program on one line
	for _, cs := range c18LongLineCases("long-line-layout") {
		if c.Mine() {
			c18Judge(c, cs)
		}
	}
	// logical operators among themselves and next to comparisons / arithmetic, both spellings
	for _, o1 := range []string{"||", "&&", K["or"], K["and"], "==", "<", "+", "|", "&"} {
		for _, o2 := range []string{"||", "&&", K["or"], K["and"], "==", "<", "+", "|", "&"} {
			src := Lines(Print("1 "+o1+" 2 "+o2+" 0"), Print("0 "+o1+" 3 "+o2+" 4"), Print("0 "+o1+" 0 "+o2+" 5 "+o1+" 6"), Print("! 0 "+o1+" 1 "+o2+" - 1"))
			cs := c18Case(c, r, "operator-chains", src, "")
			if cs == nil {
				continue
			}
			if c.Mine() {
				c18Judge(c, cs)
			}
		}
	}
	// operator chains: every ordered pair of binary operators over operands for which the two
	// possible groupings usually differ (so a parenthesisation that disagrees with the parser shows)
	for _, o1 := range c02BinOps {
		for _, o2 := range c02BinOps {
			src := Lines(Print("9 "+o1+" 4 "+o2+" 2"), Print("2 "+o1+" 3 "+o2+" 2"), Print("- 2 "+o1+" 64 "+o2+" 3"), Print("100 "+o1+" 7 "+o2+" 2 "+o1+" 3"))
			cs := c18Case(c, r, "operator-chains", src, "")
			if cs == nil {
				continue
			}
			if c.Mine() {
				c18Judge(c, cs)
			}
		}
	}
	n := c.N(2500, 50000)
	for k := 0; k < n; k++ {
		g := NewPG(r, 8+r.Intn(30))
		g.Faults = r.Intn(3) == 0
		src := g.Program(3)
		if k%3 == 0 {
			// expression-heavy originals: operator chains of every level over literals,
			// printed with minimal parentheses (so the parenthesis transform has work to do)
			var lines []string
			for i := 1 + r.Intn(4); i > 0; i-- {
				lines = append(lines, Print(ref.PrintOpts{}.Expr(randTreeExpr(r, 2+r.Intn(3), true), 0)))
			}
			src = Lines(lines...)
		}
		if m := RunModel(src, "", false, 0); m.Res != nil && strings.Contains(m.Res.OOD, "cap") {
			continue // unbounded or memory-exhausting program
		}
		cs := c18Case(c, r, "generated-programs", src, "")
		if cs == nil {
			continue
		}
		if k%8 == 0 {
			cs.Gen, cs.Mode = "generated-programs-cli", "cli"
		}
		if c.Mine() {
			c18Judge(c, cs)
		}
	}
}

func init() {
	register(&CheckDef{
		ID:   "C18",
		Rule: "program groups: the shipped examples, the hand-written scoping/closure programs and seeded generated programs (valid, and with planted runtime faults), each re-rendered from the spec lexer's tokens and paired with 15 transformed variants: two random applications each of (a) layout: blanks, tabs, CR-LF, block and line comments, line breaks between any tokens except inside a ধরি...; span, (b) digits of numeric literals flipped between scripts, (c) && / || exchanged with the word spellings, (d) consistent renaming of declared variables, functions and parameters to fresh Latin or Bangla identifiers (not property keys, not built-ins), (e) 1-3 redundant parenthesis pairs around value-producing sub-expressions taken from the reference parser's node spans (never an assignment target) and, once, every composite sub-expression parenthesised as the ladder groups it, (f) dead code (if(false), while(false), unused functions, else of if(true), statements after a return) containing random possibly-faulting statements; plus all six combined. Original and variant must agree on stdout bytes, exit status and first diagnostic (line numbers deleted, renamed identifiers mapped back, quoted expression renderings deleted). Non-trivial = distinct original program whose variants were all compared.",
		Assumptions: []string{"no expected output is needed (metamorphic); transforms never use the code under test; programs exceeding 300000 evaluation steps are skipped"},
		Run:         c18Run,
		Judge:       c18Judge,
		MustCount:   func(c *Ctx) []string { return []string{"pairs:layout", "pairs:digit-script", "pairs:logical-synonyms", "pairs:rename", "pairs:parentheses", "pairs:dead-code", "pairs:parentheses-full", "pairs:parentheses-full-atoms", "pairs:all-combined", "originals_clean", "originals_failing", "gen:shipped-examples", "gen:operator-chains", "cli_runs"} },
	})
}
