package main

import (
	"fmt"
	"os"
	"os/exec"
	"path/filepath"
	"strings"
)

// C19 — exit status and streams classify every run; ইনপুট reads exactly one line.

const c19Marker = "MARKER-SCRIPT-RAN"

func c19ArgvCase(c *Ctx, cs *Case) {
	// cs.Argv holds file names relative to a scratch dir; cs.X["files"] which of them to create
	dir := filepath.Join(c.Scratch, fmt.Sprintf("argv_%d_%d", os.Getpid(), c.Idx()))
	os.MkdirAll(dir, 0o755)
	defer os.RemoveAll(dir)
	marker := Print(`"`+c19Marker+`"`) + "\n"
	for _, f := range strings.Split(cs.X["create"], "\x1f") {
		if f == "" {
			continue
		}
		if i := strings.Index(f, "->"); i >= 0 {
			// "name->target": a symbolic link (target relative to the link's directory)
			os.Symlink(f[i+2:], filepath.Join(dir, f[:i]))
		} else if strings.HasSuffix(f, "/") {
			os.MkdirAll(filepath.Join(dir, f), 0o755)
		} else {
			os.WriteFile(filepath.Join(dir, f), []byte(marker), 0o644)
		}
	}
	args := []string{}
	cwd := ""
	for _, a := range cs.Argv {
		if strings.HasPrefix(a, "-") {
			cwd = dir // names that begin with a dash are given as they are, relative to the working directory
		}
	}
	for _, a := range cs.Argv {
		if cwd != "" {
			args = append(args, a)
		} else {
			args = append(args, filepath.Join(dir, a))
		}
	}
	o := RunCLI(CLIOpts{Bin: c.Bin, Args: args, Stdin: cs.Stdin, Dir: c.Scratch, Cwd: cwd})
	c.Count("cli_runs", 1)
	if o.TimedOut {
		c.Inconclusive("CLI watchdog")
		return
	}
	if o.Exit == 2 || strings.Contains(o.Stderr, "panic:") {
		c.Violate(Violation{Why: "CLI died abnormally", Observed: describeObs(o), Signature: "cli-abnormal: " + firstPanicLine(o.Stderr)})
		return
	}
	msg := strings.TrimSpace(o.Stdout+o.Stderr) != ""
	ran := strings.Contains(o.Stdout, c19Marker)
	bad := func(why string) {
		c.Violate(Violation{Why: "argv shape " + cs.X["shape"] + ": " + why, Observed: describeObs(o), Signature: "argv:" + cs.X["expect"]})
	}
	switch cs.X["expect"] {
	case "usage64":
		if o.Exit != 64 || !msg || ran {
			bad("expected exit 64 with a message and nothing executed")
			return
		}
	case "unreadable":
		if o.Exit == 0 || !msg || ran {
			bad("expected a non-zero exit with a message and nothing executed")
			return
		}
	case "runs":
		if o.Exit != 0 || o.Stdout != c19Marker+"\n" || o.Stderr != "" {
			bad("expected the script to run (exit 0, marker on stdout, empty stderr)")
			return
		}
	case "repl-empty":
		if o.Exit != 0 || o.Stderr != "" {
			bad("expected the REPL to end with status 0 at end of input")
			return
		}
	}
	c.Count("argv:"+cs.X["expect"], 1)
	c.Nontrivial("argv|" + cs.X["shape"])
	c.Sample(cs.Gen, map[string]string{"shape": cs.X["shape"], "expect": cs.X["expect"]})
}

func c19Judge(c *Ctx, cs *Case) {
	c.Begin(cs)
	switch cs.Gen {
	case "argv-shapes":
		c19ArgvCase(c, cs)
		return
	case "unreadable-strace":
		c19Strace(c, cs)
		return
	}
	budget := 0
	if cs.X != nil && cs.X["model_steps"] != "" {
		budget = 50000000
	}
	m := RunModel(cs.Src, cs.Stdin, false, budget)
	v := cliJudge(c, cs, m)
	if v == "" {
		c.Nontrivial(cs.Src + "|" + cs.Stdin)
		switch {
		case m.Res == nil:
			c.Count("class:static-error", 1)
		case m.Res.Fault != nil:
			c.Count("class:runtime-error", 1)
		default:
			c.Count("class:clean", 1)
		}
		n := strings.Count(cs.Src, B["input"])
		c.Count(fmt.Sprintf("input_calls:%d", n), 1)
		// in-process replay with the hook: exactly one stdin read per executed input call
		if m.Res != nil && n > 0 {
			o := RunLib(cs.Src, RunOpts{MaxSteps: 100000, Stdin: cs.Stdin, Events: "io"})
			reads := 0
			for _, e := range o.Events {
				if e.Kind == "input" {
					reads++
				}
			}
			prompts := 0
			for _, p := range m.Res.Out {
				if p.Kind == "prompt" {
					prompts++
				}
			}
			_ = prompts
			c.Count("hook_stdin_reads", int64(reads))
		}
	}
	c.Sample(cs.Gen, map[string]string{"program": trunc(cs.Src, 200), "stdin": cs.Stdin})
}

// c19Strace: permission failure injected with strace (root ignores file modes).
func c19Strace(c *Ctx, cs *Case) {
	if _, err := exec.LookPath("strace"); err != nil {
		c.Inconclusive("strace not available")
		return
	}
	dir := filepath.Join(c.Scratch, fmt.Sprintf("st_%d_%d", os.Getpid(), c.Idx()))
	os.MkdirAll(dir, 0o755)
	defer os.RemoveAll(dir)
	path := filepath.Join(dir, "secret.bn")
	os.WriteFile(path, []byte(Print(`"`+c19Marker+`"`)+"\n"), 0o644)
	cmd := exec.Command("strace", "-f", "-o", "/dev/null", "-P", path, "-e", "trace=openat", "-e", "inject=openat:error="+cs.X["errno"], c.Bin, path)
	var so, se strings.Builder
	cmd.Stdout, cmd.Stderr = &so, &se
	err := cmd.Run()
	c.Count("cli_runs", 1)
	code := 0
	if ee, ok := err.(*exec.ExitError); ok {
		code = ee.ExitCode()
	} else if err != nil {
		c.Inconclusive("strace failed to run: " + err.Error())
		return
	}
	if code == 0 || strings.Contains(so.String(), c19Marker) || strings.TrimSpace(so.String()+se.String()) == "" {
		c.Violate(Violation{Why: "unreadable script (" + cs.X["errno"] + " injected on open): expected non-zero exit, a message, nothing executed", Observed: fmt.Sprintf("exit=%d stdout=%q stderr=%q", code, so.String(), se.String()), Signature: "unreadable-strace"})
		return
	}
	c.Count("argv:unreadable-injected", 1)
	c.Nontrivial("strace|" + cs.X["errno"])
}

func c19Run(c *Ctx) {
	// 1. argv shapes
	type shape struct {
		name, expect string
		argv         []string
		create       []string
		stdin        string
	}
	shapes := []shape{
		{"no-args-empty-stdin", "repl-empty", nil, nil, ""},
		{"a.bn", "runs", []string{"a.bn"}, []string{"a.bn"}, ""},
		{"dot-bn-only", "runs", []string{".bn"}, []string{".bn"}, ""},
		{"a.b.bn", "runs", []string{"a.b.bn"}, []string{"a.b.bn"}, ""},
		{"name with spaces.bn", "runs", []string{"my script.bn"}, []string{"my script.bn"}, ""},
		{"bangla-name.bn", "runs", []string{"স্ক্রিপ্ট.bn"}, []string{"স্ক্রিপ্ট.bn"}, ""},
		{"dir.with.dots/a.bn", "runs", []string{"d.x/a.bn"}, []string{"d.x/", "d.x/a.bn"}, ""},
		{"a.BN", "usage64", []string{"a.BN"}, []string{"a.BN"}, ""},
		{"a.bn.txt", "usage64", []string{"a.bn.txt"}, []string{"a.bn.txt"}, ""},
		{"no-extension", "usage64", []string{"a"}, []string{"a"}, ""},
		{"a.bnx", "usage64", []string{"a.bnx"}, []string{"a.bnx"}, ""},
		{"a.b", "usage64", []string{"a.b"}, []string{"a.b"}, ""},
		{"trailing-dot", "usage64", []string{"a.bn."}, []string{"a.bn."}, ""},
		{"dir.bn/file-without-ext", "usage64", []string{"d.bn/a"}, []string{"d.bn/", "d.bn/a"}, ""},
		{"two-args", "usage64", []string{"a.bn", "b.bn"}, []string{"a.bn", "b.bn"}, ""},
		{"three-args", "usage64", []string{"a.bn", "b.bn", "c.bn"}, []string{"a.bn", "b.bn", "c.bn"}, ""},
		{"two-args-second-missing", "usage64", []string{"a.bn", "nope.bn"}, []string{"a.bn"}, ""},
		{"two-args-first-bad-ext", "usage64", []string{"a.txt", "b.bn"}, []string{"a.txt", "b.bn"}, ""},
		// the name given on the command line decides, not what it points to
		{"link.bn-to-file.out", "runs", []string{"latest.bn"}, []string{"build/", "build/generated.out", "latest.bn->build/generated.out"}, ""},
		{"link-without-ext-to-file.bn", "usage64", []string{"current"}, []string{"versions/", "versions/v2.bn", "current->versions/v2.bn"}, ""},
		{"link.txt-to-file.bn", "usage64", []string{"notes.txt"}, []string{"prog.bn", "notes.txt->prog.bn"}, ""},
		{"link.bn-to-file.bn", "runs", []string{"l.bn"}, []string{"real.bn", "l.bn->real.bn"}, ""},
		{"link.bn-chain", "runs", []string{"l1.bn"}, []string{"real.txt", "l2->real.txt", "l1.bn->l2"}, ""},
		{"file.bn-in-linked-dir", "runs", []string{"ld/a.bn"}, []string{"rd/", "rd/a.bn", "ld->rd"}, ""},
		{"dangling-link.bn", "unreadable", []string{"dang.bn"}, []string{"dang.bn->nowhere.bn"}, ""},
		{"missing-file", "unreadable", []string{"missing.bn"}, nil, ""},
		{"directory-named-d.bn", "unreadable", []string{"d.bn"}, []string{"d.bn/"}, ""},
		{"missing-dir", "unreadable", []string{"nodir/a.bn"}, nil, ""},
		// arguments are file names, never options: a leading dash changes nothing
		{"double-dash-then-script", "usage64", []string{"--", "a.bn"}, []string{"a.bn"}, ""},
		{"dash-h", "usage64", []string{"-h"}, nil, ""},
		{"double-dash-version", "usage64", []string{"--version"}, nil, ""},
		{"dash-flag-then-script", "usage64", []string{"-v", "a.bn"}, []string{"a.bn"}, ""},
		{"lone-dash", "usage64", []string{"-"}, nil, ""},
		{"lone-double-dash", "usage64", []string{"--"}, nil, ""},
		{"script-named-dash-run.bn", "runs", []string{"-run.bn"}, []string{"-run.bn"}, ""},
		{"script-named-double-dash.bn", "runs", []string{"--x.bn"}, []string{"--x.bn"}, ""},
		{"missing-dash-file.bn", "unreadable", []string{"-help.bn"}, nil, ""},
	}
	for _, s := range shapes {
		if c.Mine() {
			c19Judge(c, &Case{Gen: "argv-shapes", Argv: s.argv, Stdin: s.stdin, X: map[string]string{"shape": s.name, "expect": s.expect, "create": strings.Join(s.create, "\x1f")}})
		}
	}
	if !c.Quick() {
		for _, e := range []string{"EACCES", "EIO", "EMFILE", "ENOMEM"} {
			if c.Mine() {
				c19Judge(c, &Case{Gen: "unreadable-strace", X: map[string]string{"errno": e}})
			}
		}
	}
	// 2. outcome classes x stdin shapes x input calls
	lines := []string{"x", " padded ", "", "১২", "a b", "\ttab\t", "last", strings.Repeat("long ", 1000), strings.Repeat("\u09b2\u09ae\u09cd\u09ac\u09be", 400)}
	r := c.Rand("stdin")
	type prog struct{ name, body string } // %I = input call sites are inside
	inp := func(prompt string) string {
		if prompt == "" {
			return BI("input")
		}
		return BI("input", `"`+prompt+`"`)
	}
	mk := func(ncalls int, prompts bool, tail string) string {
		var b []string
		b = append(b, Print(`"start"`))
		for i := 0; i < ncalls; i++ {
			p := ""
			if prompts && i%2 == 0 {
				p = fmt.Sprintf("P%d> ", i)
			}
			b = append(b, Var(fmt.Sprintf("v%d", i), inp(p)), Print(fmt.Sprintf(`"[" + v%d + "]"`, i)))
		}
		if tail != "" {
			b = append(b, tail)
		}
		b = append(b, Print(`"end"`))
		return Lines(b...)
	}
	tails := []struct{ name, stmt string }{
		{"clean", ""},
		{"runtime-zero-div", Print("1 / 0")},
		{"runtime-undefined", Print("নেই")},
		{"runtime-in-function", Fun("f", "", " "+Ret("nil.k")+" ") + " f();"},
		{"runtime-index-write-fraction", Var("arr", "[1, 2, 3]") + " arr[1.5] = 0;"},
		{"runtime-index-write-string", Var("arr", "[1, 2, 3]") + ` arr["x"] = 0;`},
		{"runtime-index-read-high", Var("arr", "[1, 2, 3]") + " " + Print("arr[3]")},
		{"runtime-index-write-high", Var("arr", "[1, 2, 3]") + " arr[3] = 0;"},
		{"runtime-property-missing", Var("ob", "{k: 1}") + " " + Print("ob.zz")},
		{"runtime-property-on-number", "(5).k = 1;"},
		{"runtime-not-callable", `"s"();`},
		{"runtime-arity", Fun("g2", "a, b", " "+Ret("a")+" ") + " g2(1);"},
		{"runtime-type-mismatch", Print("nil + 1")},
		{"runtime-negative-shift", Print("1 << -1")},
		{"runtime-redeclare", Var("dd", "1") + " " + Var("dd", "2")},
		{"runtime-undefined-assign", "nope = 1;"},
		{"runtime-builtin-len", Print(BI("len", "5"))},
		{"runtime-builtin-remove", Print(BI("remove", "[1]", "4"))},
		{"runtime-builtin-delete", BI("delete", "{}", `"k"`) + ";"},
		{"runtime-stray-break", Break()},
		{"runtime-stray-return", Ret("1")},
		{"runtime-in-loop", For(Var("li", "0"), "li < 3", "li = li + 1", "{ "+Print("li")+" "+Print("1 % 0")+" }")},
		{"runtime-redeclare-nil", VarNil("nv") + " " + Var("nv", "5")},
		{"runtime-redeclare-nil-assigned", Var("nv2", "1") + " nv2 = nil; " + Var("nv2", "5")},
		{"runtime-redeclare-from-nothing", Fun("nothing", "", "") + " " + Var("nv3", "nothing()") + " " + Var("nv3", "1")},
		{"runtime-index-write-nil-high", Var("arr", "[1]") + " arr[3] = nil;"},
		{"syntax-missing-operand", Print("1 +")},
		{"syntax-stray-paren", ")"},
		{"syntax-unclosed-block", "{"},
		{"syntax-unclosed-function", K["fun"] + " g() {"},
		{"syntax-unclosed-if-body", K["if"] + " (" + True() + ") { " + Print(`"in"`)},
		{"syntax-missing-semicolon", Print("1")[:len(Print("1"))-1]},
		{"lexical-stray-char", "@"},
		{"lexical-unterminated-string", `"open`},
		{"input-bad-arg", BI("input", "5") + ";"},
		{"input-two-args", BI("input", `"a"`, `"b"`) + ";"},
		// declarations are not statements: they cannot be the unbraced body of if / else / while / for
		{"syntax-declaration-as-if-body", If("1 < 2", Var("st", `"adult"`))}, {"syntax-function-as-while-body", While(False(), Fun("g3", "", ""))},
		{"syntax-declaration-as-else-body", IfElse("1 > 2", Print("1"), Var("st", "1"))}, {"syntax-declaration-as-for-body", For(";", False(), "", Var("st", "1"))},
		// characters that merely look like blanks start no token
		{"lexical-nbsp", Print("1") + "\u00a0" + Print("2")}, {"lexical-em-space", "\u2003" + Print("1")}, {"lexical-form-feed", Print("1") + "\f" + Print("2")}, {"lexical-nel", Print("1") + "\u0085"}, {"lexical-ideographic-space", Var("q", "1") + "\u3000" + Print("q")},
		// an infinite or fractional operand of a bitwise operator is a runtime error like any other
		{"runtime-bitwise-infinite", Print("(10 ** 400) | 0")}, {"runtime-complement-infinite", Var("h", "0 - 10 ** 400") + " " + Print("~h")}, {"runtime-shift-fraction", Print("1 << 0.5")},
	}
	for _, t := range tails {
		for ncalls := 0; ncalls <= 4; ncalls++ {
			for _, prompts := range []bool{false, true} {
				if ncalls == 0 && prompts {
					continue
				}
				for rep := 0; rep < c.N(10, 200); rep++ {
					nl := ncalls + r.Intn(3)
					if nl > 6 {
						nl = 6
					}
					var sb strings.Builder
					for i := 0; i < nl; i++ {
						sb.WriteString(lines[r.Intn(len(lines))])
						if i < nl-1 || r.Intn(3) > 0 {
							if r.Intn(5) == 0 {
								sb.WriteString("\r\n")
							} else {
								sb.WriteString("\n")
							}
						}
					}
					src := mk(ncalls, prompts, t.stmt)
					if strings.HasPrefix(t.name, "input-") {
						src = mk(ncalls, prompts, t.stmt)
					}
					if !c.Mine() {
						continue
					}
					c19Judge(c, &Case{Gen: "outcome-x-stdin", Src: src, Stdin: sb.String(), X: map[string]string{"tail": t.name}})
				}
			}
		}
	}
	// error position: first / middle / last line of a longer program
	for _, t := range tails[1:34] {
		for _, pos := range []int{0, 5, 10} {
			var b []string
			for i := 0; i < 11; i++ {
				if i == pos {
					b = append(b, t.stmt)
				} else {
					b = append(b, Print(fmt.Sprintf(`"line-%d"`, i)))
				}
			}
			if c.Mine() {
				c19Judge(c, &Case{Gen: "error-position", Src: Lines(b...), Stdin: "a\nb\n", X: map[string]string{"tail": t.name}})
			}
		}
	}
	// clean programs using less common but valid spellings: status 0, empty stderr
	for _, src := range []string{
		Lines(Print("1\u09e8 + \u09e81"), Print("3.\u09e7\u09ea"), Var("\u09a6\u09be\u09ae", "\u09e7\u09e80"), Print("\u09a6\u09be\u09ae * 2")),
		Lines(Var("t", "0"), For(Var("i", "0"), "i < 3", "i = i + 1", "{ t = t + i; }"), Print("t"), "/* block */ // line", Print(`"fin"`)),
		Lines(Fun("f", "", ""), "f();", "{ }", ";", If(False(), Print("1")), Print("nil")),
		// printing a value that is not itself on a cycle but holds members that are
		Lines(Var("dhaka", `{name: "D"}`), Var("khulna", `{name: "K"}`), "dhaka.next = khulna;", "khulna.next = dhaka;", Var("cities", "[dhaka, khulna]"), Print("cities"), Print("{all: cities}"), Var("ring", "[1]"), "ring[0] = ring;", Print("[ring]"), Print(BI("values", "{r: ring}")), Print(`"end"`)),
		// blocks whose only declarations are declaration lists, entered repeatedly and side by side
		Lines(For(Var("i", "0"), "i < 3", "i = i + 1", "{ "+K["var"]+" a = i, b = i * 2; "+Print("a + b")+" }"), Var("n", "0"), While("n < 2", "{ "+K["var"]+" p = n, q; n = n + 1; "+Print("p")+" }"),
			Fun("g", "x", " "+IfElse("x", "{ "+K["var"]+" u = 1, v = 2; "+Ret("u + v")+" }", "{ "+K["var"]+" u = 3, v = 4; "+Ret("u * v")+" }")+" "), Print("g(1) + g(0)"), Var("u", `"outer"`), "{ "+K["var"]+" u = 5, w = 6; "+Print("u + w")+" }", Print("u")),
	} {
		if c.Mine() {
			c19Judge(c, &Case{Gen: "clean-programs", Src: src, Stdin: "a\n", X: map[string]string{"tail": "clean"}})
		}
	}
	// programs from the general generator, fault-free and with one planted fault: every one classified through the binary
	{
		rg := c.Rand("general")
		for k := 0; k < c.N(400, 20000); k++ {
			g := NewPG(rg, 8+rg.Intn(30))
			g.Faults = k%3 == 0
			src := g.Program(3)
			if c.Mine() {
				c19Judge(c, &Case{Gen: "generated-programs", Src: src, Stdin: "a\nb\n", X: map[string]string{"tail": "generated"}})
			}
		}
		for _, src := range []string{
			Lines(For(Var("i", "0"), "i < 4", "i = i + 1", "{ "+Print("1 << i")+" }"), Print("12 >> 0"), Print("0 << 0"), Print("5 % 5"), Print("0 / 1"), Print("0 ** 0"), Print(`"end"`)),
			Lines(Var("nm", BI("input")), Print("!!nm"), Print("- -3"), Print("!-1"), Print("-~5"), Print("~~7"), Print("!!!0"), Print("2 * - - 2"), Print(`"end"`)),
			// a value-less return yields nil whatever earlier calls returned (lookup helpers with a "not found" exit)
		Lines(Var("rows", `[{nm: "a", v: 30}, {nm: "b", v: 40}]`), Fun("find", "w", " "+For(Var("i", "0"), "i < "+BI("len", "rows"), "i = i + 1", "{ "+If("rows[i].nm == w", "{ "+Ret("rows[i]")+" }")+" }")+" "+Ret("")+" "), Print(`find("a").v`), Var("miss", `find("zzz")`), Print("miss"), Print("miss == nil"), IfElse("miss == nil", Print(`"none"`), Print("miss.v")), Print(`find("b").v`), Print(`find("q")`), Print(`"end"`)),
		Lines(Fun("price", "k", " "+If("k == 1", "{ "+Ret("30")+" }")+" "+Ret("")+" "), Print("price(1)"), Print("price(2)"), Print("[price(1), price(2), price(1)]"), Var("p", "price(2)"), IfElse("p", Print(`"has"`), Print(`"no price"`)), Print(`"end"`)),
		// value-less returns in every position of a body: early exit, last statement, inside loops and nested blocks
		Lines(Fun("log", "m", " "+If(`m == ""`, "{ "+Ret("")+" }")+" "+Print("m")+" "+Ret("")+" "), `log("");`, `log("x");`, Fun("scan", "n", " "+While(True(), "{ "+If("n > 2", "{ { "+Ret("")+" } }")+" n = n + 1; }")+" "), "scan(0);", Print("scan(5)"),
			Fun("only", "", Ret("")), Print("only()"), Fun("sp", "", " "+K["return"]+" ; "), Print("sp()"), Fun("nl", "", " "+K["return"]+"\n; "), Print("nl()"), Print(`"end"`)),
		Lines(Fun("m", "a, b", " "+Ret("a % b")+" "), Print("m(7, 2)"), Print("m(7.5, 2)"), Print("m(0 - 7, 3)"), Print("m(1, 0.1)"), Print("m(10 ** 309, 5)"), Print("m(5, 10 ** 309)"), Print("1 / 0.0000000001"), Print(`"end"`)),
		Lines(Var("seen", "0"), Var("i", "0"), While("i < 6", "{ i = i + 1; "+If("i % 2 == 0", "{ "+Continue()+" }")+" seen = seen + i; }"), Print("seen"), Var("w", BI("input")), While(`w == "a"`, "{ w = "+BI("input")+"; "+Continue()+" }"), Print("w")),
		} {
			if c.Mine() {
				c19Judge(c, &Case{Gen: "clean-programs", Src: src, Stdin: "a\nb\n", X: map[string]string{"tail": "clean"}})
			}
		}
	}
	// recursion tens of thousands of calls deep (bounded): clean, and failing at the bottom
	for _, depth := range []int{5000, 40000, 60000} {
		D := fmt.Sprint(depth)
		for _, src := range []string{
			Lines(Fun("sum", "n", " "+If("n == 0", "{ "+Ret("0")+" }")+" "+Ret("n + sum(n - 1)")+" "), Print(`"start"`), Print("sum("+D+")"), Print(`"end"`)),
			Lines(Fun("down", "n", " "+If("n == 0", "{ "+Ret("missing_name")+" }")+" "+Ret("down(n - 1)")+" "), Print(`"start"`), Print("down("+D+")"), Print(`"AFTER"`)),
		} {
			if c.Mine() {
				c19Judge(c, &Case{Gen: "deep-recursion", Src: src, Stdin: "", X: map[string]string{"tail": "deep", "model_steps": "1"}})
			}
		}
	}
	// every runtime fault of C06's pool, at top level and inside a function: status 70, diagnostics on stderr only
	for _, f := range c06Faults() {
		body := Print(f.expr)
		if f.stmt != "" {
			body = f.stmt
		}
		for wi, wrap := range []string{"%s", Fun("wrapf", "", " %s ") + " wrapf();"} {
			if f.stmt != "" && wi == 1 {
				continue
			}
			src := Lines(append(c06Prelude(), Print(`"start"`), fmt.Sprintf(wrap, body), Print(`"end"`))...)
			if c.Mine() {
				c19Judge(c, &Case{Gen: "every-runtime-fault", Src: src, Stdin: "a\nb\n", X: map[string]string{"tail": "runtime-" + f.name}})
			}
		}
	}
	// how the script text ends (no final newline, comment as the very last bytes, blanks, CR)
	for _, body := range []string{Print("1"), Lines(Print(`"a"`), Print("1 / 0")), Lines(Print(`"a"`), "@"), "", Lines(Var("x", BI("input")), Print("x"))} {
		for _, end := range []string{"", "/* done */", " /**/", "// done", "//", "\n/* multi\nline */", "\r\n", "\t ", "\n\n/* a */ /* b */"} {
			src := strings.TrimSuffix(body, "\n") + end
			if c.Mine() {
				c19Judge(c, &Case{Gen: "text-endings", Src: src, Stdin: "typed\n"})
			}
		}
	}
	// input corner cases
	for _, tc := range []struct{ src, stdin string }{
		{Lines(Var("a", BI("input", `"100% sure? "`)), Var("b", BI("input", `"%d %s %v> "`)), Var("cc", BI("input", `"%%"`)), Var("d", BI("input", `"%"`)), Print("a + b + cc + d")), "w\nx\ny\nz\n"},
		{Lines(Print(`"50%"`), Var("a", BI("input", `"rate %!(NOVERB) %5.2f: "`)), Print("a + \"%\"")), "7\n"},
		{Lines(Print(BI("input")), Print(BI("input")), Print(BI("input"))), "l1\nl2\nl3"},
		{Lines(Print(BI("input")), Print(BI("input"))), "l1\r\nl2\r\n"},
		{Lines(Print(`"<" + ` + BI("input") + ` + ">"`)), "   \n"},
		{Lines(Print(`"<" + ` + BI("input") + ` + ">"`)), "\n"},
		{Lines(Print(`"<" + `+BI("input")+` + ">"`), Print(`"<" + `+BI("input")+` + ">"`)), "abc\n   "},
		{Lines(Print(`"<" + ` + BI("input") + ` + ">"`)), " \t x y \t \n"},
		{Lines(Var("a", BI("input", `"নাম: "`)), Print(`"হ্যালো " + a`)), "বিশ্ব\n"},
		{Lines(Var("n", BI("input")), Print("n * 2"), Print("n + 1")), "21\n"},
		{Lines(For(Var("i", "0"), "i < 3", "i = i + 1", "{ "+Print(BI("input", `"? "`))+" }")), "a\nb\nc\nd\n"},
		{Lines(Print(`"out"`), Print("undefined_thing"), Print(BI("input", `"never"`))), "x\n"},
		{strings.Repeat(Print(BI("input"))+"\n", 40), strings.Repeat("row\n", 40)},
		{Lines(Print(BI("input"))), strings.Repeat("long", 3000) + "\nnext\n"},
	} {
		if c.Mine() {
			c19Judge(c, &Case{Gen: "input-corner-cases", Src: tc.src, Stdin: tc.stdin})
		}
	}
}

func init() {
	register(&CheckDef{
		ID:          "C19",
		Rule:        "runs of the plain binary: 28 command-line shapes (symbolic links whose own name and target disagree about .bn; no argument, .bn names incl. '.bn', dotted, spaced and Bangla names, nested directory; .BN, .bn.txt, no extension, near-miss extensions; 2 and 3 arguments whose scripts would print a marker; missing file, directory named d.bn; thorough: open failures injected with strace); every runtime fault of C06's pool at top level and inside a function; programs of every outcome class (clean, runtime error of 21 kinds, syntax error of 6 kinds, lexical error of 2 kinds, failing ইনপুট) with 0-4 ইনপুট calls with and without prompts x seeded stdin contents of 0-6 lines from {x, ' padded ', empty, Bangla digits, 'a b', tabs} with LF/CRLF and with or without a final newline; errors on the first/middle/last line of an 11-line program; ইনপুট corner cases (unterminated last line, blank-only lines, CRLF, 40 consecutive reads, 12 kB line, reads in a loop, read after an error). Each (exit status, stdout, stderr) is compared with the class and output refborno assigns (prompts and trimmed input lines included); in-process replays count stdin reads with the InputRead hook. Non-trivial = distinct decided (program, stdin) or argv shape.",
		Assumptions: []string{"usage / bad-extension messages may go to either stream (the property asks for 'a message')", "ইনপুট at end of stdin is out of domain"},
		Run:         c19Run,
		Judge:       c19Judge,
		MustCount: func(c *Ctx) []string {
			return []string{"argv:usage64", "argv:unreadable", "argv:runs", "argv:repl-empty", "class:clean", "class:runtime-error", "class:static-error", "input_calls:4", "hook_stdin_reads", "gen:input-corner-cases", "gen:text-endings", "gen:every-runtime-fault", "gen:deep-recursion", "gen:clean-programs"}
		},
	})
}
