package main

import (
	"fmt"
	"strings"

	"verifharness/ref"
)

// C20 — REPL: a failed line never affects later lines; expression values echo.

type replLine struct {
	text string
	self bool // self-contained: literals and built-ins only
	kind string
}

func c20Pool() []replLine {
	return []replLine{
		{Print("1 + 2"), true, "print"}, {Print(`"hi"`), true, "print"}, {"1 + 2;", true, "echo"}, {`"s";`, true, "echo"}, {"nil;", true, "echo"}, {True() + ";", true, "echo"},
		{"[1, 2];", true, "echo"}, {"({k: 1});", true, "echo"}, {"{}", true, "empty-block"}, {BI("len", "[1, 2, 3]") + ";", true, "echo"}, {BI("abs", "-2") + ";", true, "echo"}, {BI("round", "2.5") + ";", true, "echo"},
		{"1000000;", true, "echo"}, {`"a" + 1;`, true, "echo"}, {`75 + "%";`, true, "echo"}, {`["10%", "%d %s"];`, true, "echo"}, {`"%%";`, true, "echo"},
		{"@", true, "lexical"}, {`"unterminated`, true, "lexical"}, {"/* open", true, "lexical"}, {Print("1") + " @", true, "lexical"},
		{"1 +;", true, "syntax"}, {Print("1")[:len(Print("1"))-1], true, "syntax"}, {")", true, "syntax"}, {"{", true, "syntax"}, {"1 = 2;", true, "syntax"},
		{"1 / 0;", true, "runtime"}, {"নেই;", true, "runtime"}, {"nil.k;", true, "runtime"}, {BI("len", "5") + ";", true, "runtime"}, {Break(), true, "runtime"}, {Ret("1"), true, "runtime"},
		{Print("1") + " 1 / 0; " + Print("2"), true, "runtime"},
		// equality is total: a container against a scalar, a built-in, nil
		{"[1, 2] == 1;", true, "echo"}, {"[] != 0;", true, "echo"}, {"({k: 1}) == " + True() + ";", true, "echo"}, {"[1] == " + B["len"] + ";", true, "echo"}, {"8 >> -1;", true, "runtime"},
		// a line with a syntax error runs nothing, whatever it would have done
		{Print("nope")[:len(Print("nope"))-1], true, "syntax"}, {"nope + 1", true, "syntax"}, {"{ " + Print("1 / 0"), true, "syntax"},
		// only the line's own bare expressions are echoed, not expression statements inside functions it calls
		{Fun("g", "a", " a = a + 1; a; [a]; "+Ret("a * 2")+" ") + " g(1);", true, "echo"}, {Fun("h", "", " 1; 2; ") + " h(); 3;", true, "echo"},
		// braces and brackets inside strings and comments are text, not structure
		{Print(`"}"`), true, "print"}, {Print(`"{"`), true, "print"}, {Print("1") + " // :-}", true, "print"}, {`"{x}}";`, true, "echo"}, {Print(`"(("`) + " /* }} */", true, "print"}, {`["]", "["];`, true, "echo"},
		// echo of a value that holds a self-containing member
		{Var("ka", "[1]") + " ka[0] = ka; [ka];", true, "echo"}, {Var("pa", "{}") + " " + Var("ch", "{up: pa}") + " pa.down = ch; ({w: pa});", true, "echo"},
		// output produced by a statement that then fails belongs to that line's response
		{"{ " + Print(`"in block"`) + " " + Break() + " }", true, "runtime"}, {If(True(), "{ "+Print("1")+" "+Ret("")+" }"), true, "runtime"}, {While(True(), "{ "+Print(`"in loop"`)+" "+Ret("2")+" }"), true, "runtime"},
		{"7; " + If(True(), "{ 8; "+Continue()+" }"), true, "runtime"}, {For(Var("i", "0"), "i < 2", "i = i + 1", "{ "+Print("i")+" }") + " " + Print("1 / 0"), true, "runtime"}, {B["len"] + " = nil; " + BI("len", "[1]") + ";", true, "runtime"},
		// a failing statement inside a loop that has no condition and no increment ends the line; fractional remainders are values
		{For(";", "", "", "{ "+Print("nope")+" }"), true, "runtime"}, {For(Var("i", "0"), "", "", "{ "+Print("i")+" nil.k; }"), true, "runtime"}, {Fun("lp", "", " "+For(";", "", "", "{ 1 / 0; }")+" ") + " lp();", true, "runtime"},
		{For(";", "", "", "{ "+Print(`"once"`)+" "+Break()+" }"), true, "print"}, {While(True(), "{ [1][3]; }"), true, "runtime"}, {For(";", "", "i = 1", "{ "+Print("1")+" }"), true, "runtime"},
		{"7 % 0.5;", true, "echo"}, {Print("2.75 % 0.5"), true, "print"}, {"1 % 0.1;", true, "echo"}, {"1 / 0.0000000001;", true, "echo"}, {"0.5 % 7;", true, "echo"}, {"5 % 0;", true, "runtime"},
		// built-ins called with no arguments at all are reported misuse, not a crash
		{BI("append") + ";", true, "runtime"}, {BI("min") + ";", true, "runtime"}, {BI("max") + ";", true, "runtime"}, {BI("len") + ";", true, "runtime"}, {BI("remove") + ";", true, "runtime"}, {BI("keys") + ";", true, "runtime"}, {BI("append", "[1]") + ";", true, "runtime"}, {BI("remove", "[]", "0") + ";", true, "runtime"}, {Print("(") , true, "syntax"}, {Var("ka", "["), true, "syntax"}, {B["len"] + "(", true, "syntax"},
		// stacked prefix operators apply from the operand outwards
		{"-~5;", true, "echo"}, {"~-1;", true, "echo"}, {"!-0;", true, "echo"}, {Var("k", "7") + " -~k;", true, "echo"}, {"-!1;", true, "runtime"}, {"!~0;", true, "echo"}, {"1 || 2 && 0;", true, "echo"}, {"0 && 1 || 2;", true, "echo"},
		// a built-in's name cannot be declared, on the first line of a session as on any later one
		{Var(B["len"], "5") + " " + Print(B["len"]+" + 1"), true, "syntax"}, {Fun(B["abs"], "v", " "+Ret("v")+" ") + " " + Print(BI("abs", "-3")), true, "syntax"},
		// comment markers inside a string are text
		{`"http://example.com";`, true, "echo"}, {Print(`"src/*.bn */ x"`), true, "print"}, {`"a /* b */ c" + "//";`, true, "echo"}, {Print(`"//"`) + " // real comment", true, "print"},
		// echo of containers that hold texts under several names
		{`({b: "t", a: 1, c: "u", d: [1, "v"], e: nil});`, true, "echo"}, {`[{y: "p", x: "q", w: "r"}, "s"];`, true, "echo"}, {Var("rec", `{nm: "A", ad: "B", ag: 3, tel: "C"}`) + " rec;", true, "echo"},
		{Var("x", "1"), true, "declaration"}, {"x;", false, "dependent"}, {Print("x"), false, "dependent"},
		{"", true, "empty"}, {"   ", true, "empty"}, {"// comment only", true, "empty"},
		{Print("1") + " " + Print("2"), true, "print"}, {Var("y", "2") + " " + Print("y * 2"), true, "print"}, {"1; 2;", true, "echo"},
		{Fun("f", "a", " "+Ret("a + 1")+" ") + " f(1);", true, "echo"}, {If(True(), Print(`"t"`)), true, "print"},
		// lines that end exactly where the lexer looks ahead
		{"1.", true, "syntax"}, {Print("1."), true, "syntax"}, {"1; /* open *", true, "lexical"}, {"x.", true, "syntax"}, {Print("2") + " /", true, "syntax"}, {"1 /*", true, "lexical"}, {Print("3.5") + " //", true, "print"}, {"/", true, "syntax"}, {"*", true, "syntax"}, {"1.5.", true, "syntax"},
		// a runtime error raised 3000 user-function calls deep (whatever a failing line leaves behind must not accumulate)
		{Fun("dp", "n", " "+If("n == 0", "{ "+Ret("nil.k")+" }")+" "+Ret("dp(n - 1)")+" ") + " dp(3000);", true, "runtime"},
		{Fun("dq", "n", " "+If("n == 0", "{ "+Ret("1")+" }")+" "+Ret("1 + dq(n - 1)")+" ") + " dq(800);", true, "echo"},
		// lines that are not well-formed UTF-8
		{"\xff", true, "lexical"}, {Print(`"a` + "\xc3" + `b"`), true, "print"}, {"// \xe0\xa6 comment", true, "empty"}, {Print("1") + " \xe0\xa6", true, "lexical"}, {"\xed\xa0\x80;", true, "lexical"},
		// a function header that fails to parse, then the same name used for a variable
		{K["fun"] + " গণনা(", true, "syntax"}, {K["fun"] + " গণনা() { " + K["return"] + " 1 }", true, "syntax"}, {Fun("গণনা", "", " "+Ret("1")+" ") + " " + K["var"] + " ;", true, "syntax"},
		{Var("গণনা", "৫") + " " + Print("গণনা + ১"), true, "print"}, {"{ " + Var("গণনা", "2") + " " + Print("গণনা") + " }", true, "print"}, {Fun("গণনা", "", " "+Ret("7")+" ") + " " + Print("গণনা()"), true, "print"},
		// long lines (beyond a 4096-byte buffer, below bufio.Scanner's 64 KiB limit)
		{Print(`"` + strings.Repeat("লম্বা ", 900) + `"`), true, "long"},
		{"1" + strings.Repeat(" + 1", 1999) + ";", true, "long"},
		{`"` + strings.Repeat("x", 5000) + `" + 1;`, true, "long"},
		{Print("1") + " // " + strings.Repeat("comment ", 700), true, "long"},
		{strings.Repeat("@", 150), true, "long"},
		{Print("1 +" + strings.Repeat(" 1 +", 1500)), true, "long"},
		{"নেই" + strings.Repeat("_x", 2500) + ";", true, "long"},
	}
}

// splitTranscript splits the merged stdout+stderr stream at the prompts.
func splitTranscript(merged string) []string {
	parts := strings.Split(merged, ">> ")
	if len(parts) > 0 && parts[0] == "" {
		parts = parts[1:]
	}
	return parts
}

// expectedResponse checks one response against the model for a self-contained line.
func c20CheckResponse(line, resp string) string {
	toks, lerr := ref.Lex([]rune(line))
	var prog []*ref.Node
	var serr *ref.SyntaxError
	if len(lerr) == 0 {
		prog, serr = ref.NewParser(toks).ParseProgram()
	}
	if len(lerr) > 0 || serr != nil {
		d := ParseDiags(resp)
		if len(d) == 0 || d[0].Channel != "static" {
			return "a line with a lexical/syntax error must answer with a static diagnostic only"
		}
		for _, x := range d {
			if x.Channel != "static" {
				return "a rejected line produced something other than static diagnostics"
			}
		}
		return ""
	}
	res := ref.Run(prog, &ref.Interp{Repl: true})
	if res.OOD != "" {
		return ""
	}
	mt, at, why := MatchOutputPrefix(resp, res.Out)
	if why != "" {
		return fmt.Sprintf("response does not start with the expected output (piece %d): %s", at, why)
	}
	rest := resp[mt:]
	if res.Fault == nil {
		if rest != "" {
			return fmt.Sprintf("unexpected extra text in the response: %q", trunc(rest, 100))
		}
		return ""
	}
	d := ParseDiags(rest)
	if len(d) == 0 || d[0].Channel != "runtime" || !DiagMatches(d[0], res.Fault) || d[0].Line != res.Fault.Line {
		return fmt.Sprintf("expected a runtime diagnostic %v at line %d after the output, got %q", res.Fault.Kinds, res.Fault.Line, trunc(rest, 120))
	}
	return ""
}

// MatchOutputPrefix matches pieces against a prefix of s; returns bytes consumed (in s, which is assumed NFC-stable).
func MatchOutputPrefix(s string, pieces []ref.Piece) (int, int, string) {
	m := &Matcher{s: s}
	for i, pc := range pieces {
		switch pc.Kind {
		case "print", "echo":
			if !m.pat(pc.Pat, true) || !m.lit("\n") {
				if m.why == "" {
					m.fail("expected newline")
				}
				return m.pos, i, m.why
			}
		case "prompt":
			if !m.lit(pc.Text) {
				m.fail("expected prompt")
				return m.pos, i, m.why
			}
		}
	}
	return m.pos, len(pieces), ""
}

var c20Fresh = map[string]string{}

func c20Session(c *Ctx, lines []string, finalNewline bool) ([]string, *Obs) {
	stdin := strings.Join(lines, "\n")
	if finalNewline {
		stdin += "\n"
	}
	o := RunCLI(CLIOpts{Bin: c.Bin, Args: []string{}, Stdin: stdin, Dir: c.Scratch, Merge: true})
	c.Count("cli_runs", 1)
	return splitTranscript(o.Merged), o
}

func c20Judge(c *Ctx, cs *Case) {
	c.Begin(cs)
	lines := strings.Split(cs.Src, "\n")
	finalNL := cs.X["final_newline"] == "1"
	pool := map[string]replLine{}
	for _, l := range c20Pool() {
		pool[l.text] = l
	}
	resp, o := c20Session(c, lines, finalNL)
	if o.TimedOut && o.CPUSec >= 10 {
		// not a wall-clock verdict: the session's lines need a few thousand evaluation steps (milliseconds of CPU);
		// a process that has burned ten CPU-seconds on them is computing, not waiting or starved
		c.Violate(Violation{Why: fmt.Sprintf("the session never reached end of input: the process consumed %.0f CPU-seconds on %d short lines and was still running (a line never returned, so no later line was answered)", o.CPUSec, len(lines)), Observed: trunc(o.Merged, 500), Signature: "no-termination:cpu-budget"})
		c.noTermination++
		c.Count("sessions_stopped_on_cpu_budget", 1)
		return
	}
	if o.TimedOut {
		c.Inconclusive("CLI watchdog")
		return
	}
	if o.Exit != 0 {
		c.Violate(Violation{Why: fmt.Sprintf("the session ended with status %d, expected 0 at end of input", o.Exit), Observed: trunc(o.Merged, 500), Signature: fmt.Sprintf("repl-exit-%d", o.Exit)})
		return
	}
	nLines := len(lines)
	if !finalNL && lines[len(lines)-1] == "" {
		nLines-- // a trailing empty fragment without newline is not a line
	}
	if len(resp) != nLines+1 || resp[len(resp)-1] != "" {
		c.Violate(Violation{Why: fmt.Sprintf("%d input lines but %d prompts/responses in the transcript (each line gets its own response, then a final prompt)", nLines, len(resp)), Observed: trunc(o.Merged, 500), Signature: "repl-response-count"})
		return
	}
	for i := 0; i < nLines; i++ {
		info, known := pool[lines[i]]
		if !known && cs.X["all_self"] == "1" {
			info, known = replLine{lines[i], true, "runtime"}, true
		}
		if !known || !info.self {
			c.Count("lines_dependent_or_unknown", 1)
			continue
		}
		if bad := c20CheckResponse(lines[i], resp[i]); bad != "" {
			c.Violate(Violation{Why: fmt.Sprintf("line %d %q: %s", i+1, lines[i], bad), Observed: trunc(o.Merged, 500), Signature: "repl-model:" + info.kind})
			return
		}
		fresh, ok := c20Fresh[lines[i]]
		if !ok {
			fr, fo := c20Session(c, []string{lines[i]}, true)
			if fo.Exit != 0 || len(fr) != 2 {
				c.Violate(Violation{Why: "fresh single-line session misbehaves for " + lines[i], Observed: trunc(fo.Merged, 300), Signature: "repl-fresh"})
				return
			}
			fresh = fr[0]
			c20Fresh[lines[i]] = fresh
		}
		if resp[i] != fresh {
			c.Violate(Violation{Why: fmt.Sprintf("line %d %q answers %q here but %q as the first line of a fresh session", i+1, lines[i], trunc(resp[i], 120), trunc(fresh, 120)), Observed: trunc(o.Merged, 500), Signature: "repl-differs-from-fresh:" + info.kind})
			return
		}
		c.Count("responses_checked", 1)
		c.Count("line_kind:"+info.kind, 1)
	}
	c.Nontrivial(cs.Src)
	c.Sample(cs.Gen, map[string]interface{}{"lines": lines, "transcript": trunc(o.Merged, 300)})
}

func c20Run(c *Ctx) {
	pool := c20Pool()
	maxLen := c.N(2, 3)
	seq := make([]int, 0, 4)
	cnt := 0
	var rec func()
	rec = func() {
		if len(seq) > 0 {
			cnt++
			if c.Mine() {
				ls := make([]string, len(seq))
				for i, s := range seq {
					ls[i] = pool[s].text
				}
				fn := "1"
				if cnt%5 == 0 {
					fn = "0"
				}
				c20Judge(c, &Case{Gen: fmt.Sprintf("sessions-len%d", len(seq)), Src: strings.Join(ls, "\n"), X: map[string]string{"final_newline": fn}})
			}
		}
		if len(seq) == maxLen {
			return
		}
		for i := range pool {
			if pool[i].kind == "long" && len(seq) > 0 {
				continue // long lines: first position only in the exhaustive part
			}
			seq = append(seq, i)
			rec()
			seq = seq[:len(seq)-1]
		}
	}
	rec()
	// every kind of runtime fault as a line of its own (with what it needs declared on the same line),
	// twice in a session, with self-contained lines after each
	pre := strings.Join(c06Prelude(), " ")
	for _, f := range c06Faults() {
		fl := pre + " " + Print(`"before"`) + " " + Print(f.expr) + " " + Print(`"AFTER"`)
		if f.stmt != "" {
			fl = pre + " " + Print(`"before"`) + " " + f.stmt + " " + Print(`"AFTER"`)
		}
		if strings.Contains(fl, B["input"]) {
			continue // the session's stdin is the program text
		}
		if c.Mine() {
			c20Judge(c, &Case{Gen: "runtime-fault-lines", Src: strings.Join([]string{fl, BI("len", "[1, 2, 3]") + ";", fl, Print("1 + 2"), BI("max", "[4, 9]") + ";"}, "\n"), X: map[string]string{"final_newline": "1", "all_self": "1", "fault": f.name}})
		}
	}
	// a line that recurses 150 000 calls deep (bounded) is answered like any other, and so are the lines after it
	for _, deep := range []string{
		Fun("sum", "n", " "+If("n == 0", "{ "+Ret("0")+" }")+" "+Ret("n + sum(n - 1)")+" ") + " sum(150000);",
		Fun("dn", "n", " "+If("n == 0", "{ "+Ret("missing_name")+" }")+" "+Ret("dn(n - 1)")+" ") + " dn(150000);",
	} {
		if c.Mine() {
			c20Judge(c, &Case{Gen: "deep-lines", Src: strings.Join([]string{Print("1 + 2"), deep, BI("len", "[1, 2, 3]") + ";", Print(`"after"`)}, "\n"), X: map[string]string{"final_newline": "1"}})
		}
	}
	// long sessions: hundreds of lines, dominated by failing lines (state that accumulates
	// over a session shows only here)
	rl := c.Rand("long-sessions")
	nlong := c.N(24, 300)
	var failing, other []int
	for i, p := range pool {
		switch p.kind {
		case "lexical", "syntax", "runtime":
			failing = append(failing, i)
		case "long":
		default:
			other = append(other, i)
		}
	}
	for k := 0; k < nlong; k++ {
		l := 120 + rl.Intn(260)
		ls := make([]string, l)
		bias := k % 3 // 0: mostly lexical/syntax, 1: mostly runtime, 2: mixed
		for i := range ls {
			switch {
			case rl.Intn(5) == 0:
				ls[i] = pool[other[rl.Intn(len(other))]].text
			case bias == 0:
				for {
					p := pool[failing[rl.Intn(len(failing))]]
					if p.kind != "runtime" {
						ls[i] = p.text
						break
					}
				}
			case bias == 1:
				for {
					p := pool[failing[rl.Intn(len(failing))]]
					if p.kind == "runtime" {
						ls[i] = p.text
						break
					}
				}
			default:
				ls[i] = pool[failing[rl.Intn(len(failing))]].text
			}
		}
		if rl.Intn(3) == 0 {
			ls[rl.Intn(l/2)] = strings.Repeat("@", 150)
		}
		if !c.Mine() {
			continue
		}
		c20Judge(c, &Case{Gen: "long-sessions", Src: strings.Join(ls, "\n"), X: map[string]string{"final_newline": "1"}})
	}
	// random longer sessions
	r := c.Rand("sessions")
	n := c.N(1500, 100000)
	for k := 0; k < n; k++ {
		l := 3 + r.Intn(38)
		ls := make([]string, l)
		for i := range ls {
			ls[i] = pool[r.Intn(len(pool))].text
		}
		if !c.Mine() {
			continue
		}
		fn := "1"
		if r.Intn(4) == 0 {
			fn = "0"
		}
		c20Judge(c, &Case{Gen: "random-sessions", Src: strings.Join(ls, "\n"), X: map[string]string{"final_newline": fn}})
	}
}

func init() {
	register(&CheckDef{
		ID:   "C20",
		Rule: "interactive sessions of the plain binary (stdout and stderr on one pipe, split at the `>> ` prompts): every sequence of <=2 (quick) / <=3 (thorough) lines over a 72-line pool (prints, bare expressions of every value kind, built-in calls, lexical errors, syntax errors, runtime errors incl. a failing multi-statement line and a line that overwrites a built-in name and then fails, a declaration and dependent lines, empty / blank / comment-only lines, multi-statement lines), with and without a final newline; seeded random sessions of 3-40 lines; long lines (4-12 kB: a long string, a 2000-term sum, a long comment, 150 stray characters, long failing lines); long sessions of 120-380 lines dominated by failing lines; every runtime fault of C06's pool as a line of its own, twice, followed by self-contained lines. Checks: exit status 0; exactly one response per line plus the final prompt; every self-contained line's response equals refborno's REPL-mode expectation (echo of bare expression values included) and is byte-identical to the response the same binary gives to that line alone in a fresh session. Non-trivial = distinct session whose responses were all checked.",
		Assumptions: []string{"the property promises no state carried between lines: lines that depend on earlier lines are only counted", "lines containing the prompt text, ইনপুট/ক্লক lines and lines beyond bufio.Scanner's 64 KiB limit are out of domain"},
		Run:         c20Run,
		Judge:       c20Judge,
		MustCount:   func(c *Ctx) []string { return []string{"responses_checked", "line_kind:echo", "line_kind:lexical", "line_kind:syntax", "line_kind:runtime", "line_kind:empty", "gen:random-sessions", "gen:long-sessions", "gen:runtime-fault-lines", "line_kind:long", "cli_runs"} },
	})
}
