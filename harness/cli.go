package main

// P-cli observation point: the plain `borno` binary built from the working
// tree, one child process per program or session.

import (
	"io"
	"bytes"
	"context"
	"errors"
	"fmt"
	"os"
	"os/exec"
	"path/filepath"
	"syscall"
	"time"
)

type CLIOpts struct {
	Bin     string   // binary path
	Args    []string // full argv after the binary; if nil, a script file is written from Src and passed
	Src     string
	Name    string // script file name (default case.bn)
	Stdin   string
	NoStdin bool // close stdin instead of piping
	Chunks  []string      // if set: stdin is delivered as these pieces, ChunkGap apart (how input arrives must not matter)
	ChunkGap time.Duration
	Merge   bool // stdout and stderr on one pipe (ordering)
	Env     []string
	Timeout time.Duration
	Dir     string // scratch dir for the script file
	Cwd     string // working directory of the child (default: inherited)
}

var cliSeq int

// RunCLI spawns the binary.  A watchdog timeout yields TimedOut (inconclusive).
func RunCLI(o CLIOpts) *Obs {
	obs := &Obs{}
	if o.Timeout == 0 {
		o.Timeout = 20 * time.Second
	}
	args := o.Args
	var tmp string
	if args == nil {
		name := o.Name
		if name == "" {
			name = "case.bn"
		}
		cliSeq++
		d := filepath.Join(o.Dir, fmt.Sprintf("c%d_%d", os.Getpid(), cliSeq))
		os.MkdirAll(d, 0o755)
		tmp = d
		path := filepath.Join(d, name)
		if err := os.WriteFile(path, []byte(o.Src), 0o644); err != nil {
			panic(err)
		}
		args = []string{path}
	}
	ctx, cancel := context.WithTimeout(context.Background(), o.Timeout)
	defer cancel()
	cmd := exec.CommandContext(ctx, o.Bin, args...)
	cmd.Env = append([]string{"PATH=/usr/bin:/bin", "HOME=/tmp", "GOTRACEBACK=single"}, o.Env...)
	if o.Cwd != "" {
		cmd.Dir = o.Cwd
	}
	if len(o.Chunks) > 0 {
		pr, pw := io.Pipe()
		cmd.Stdin = pr
		go func() {
			for _, ch := range o.Chunks {
				time.Sleep(o.ChunkGap)
				if _, err := pw.Write([]byte(ch)); err != nil {
					break
				}
			}
			pw.Close()
		}()
	} else if !o.NoStdin {
		cmd.Stdin = bytes.NewReader([]byte(o.Stdin))
	}
	var so, se limitedBuf
	so.max, se.max = 4<<20, 4<<20
	if o.Merge {
		cmd.Stdout = &so
		cmd.Stderr = &so
	} else {
		cmd.Stdout = &so
		cmd.Stderr = &se
	}
	cmd.SysProcAttr = &syscall.SysProcAttr{Setpgid: true}
	cmd.Cancel = func() error { return syscall.Kill(-cmd.Process.Pid, syscall.SIGKILL) }
	err := cmd.Run()
	if tmp != "" {
		os.RemoveAll(tmp)
	}
	if ctx.Err() != nil {
		obs.TimedOut = true
	}
	if cmd.ProcessState != nil {
		obs.CPUSec = (cmd.ProcessState.UserTime() + cmd.ProcessState.SystemTime()).Seconds()
	}
	obs.Stdout = so.String()
	obs.Stderr = se.String()
	if o.Merge {
		obs.Merged = so.String()
	}
	var ee *exec.ExitError
	if err == nil {
		obs.Exit = 0
	} else if errors.As(err, &ee) {
		obs.Exit = ee.ExitCode()
	} else {
		obs.Exit = -1
		obs.Panic = "spawn: " + err.Error()
	}
	return obs
}

type limitedBuf struct {
	bytes.Buffer
	max int
}

func (b *limitedBuf) Write(p []byte) (int, error) {
	if b.Len() < b.max {
		room := b.max - b.Len()
		if len(p) <= room {
			b.Buffer.Write(p)
		} else {
			b.Buffer.Write(p[:room])
		}
	}
	return len(p), nil
}
