package main

import (
	"crypto/sha256"
	"encoding/hex"
	"encoding/json"
	"fmt"
	"hash/fnv"
	"os"
	"path/filepath"
	"sort"
	"strings"
)

// Case is one unit of workload: a program (plus variants / stdin / argv).
type Case struct {
	Gen   string            `json:"gen"`
	Idx   int64             `json:"idx"`
	Src   string            `json:"src"`
	Stdin string            `json:"stdin,omitempty"`
	Alt   []string          `json:"alt,omitempty"`
	Argv  []string          `json:"argv,omitempty"`
	Mode  string            `json:"mode,omitempty"`
	Note  string            `json:"note,omitempty"`
	X     map[string]string `json:"x,omitempty"`
}

type Violation struct {
	Property  string `json:"property"`
	Case      Case   `json:"case"`
	Why       string `json:"why"`
	Expected  string `json:"expected,omitempty"`
	Observed  string `json:"observed,omitempty"`
	Signature string `json:"signature"`
	Events    string `json:"event_trace_tail,omitempty"`
}

type WorkerResult struct {
	Shard        int              `json:"shard"`
	Evaluations  int64            `json:"evaluations"`
	Counters     map[string]int64 `json:"counters"`
	Distinct     []uint64         `json:"distinct"`
	Samples      []interface{}    `json:"samples"`
	Violations   []Violation      `json:"violations"`
	Inconclusive []string         `json:"inconclusive"`
	Done         bool             `json:"done"`
}

type Ctx struct {
	noTermination int // executions stopped on a CPU budget (see c20Judge)
	Prop       string
	Tier       string
	Seed       int64
	Shard      int
	NShards    int
	Scratch    string
	Bin        string
	BinVerif   string
	Repo       string
	Resume     int64 // skip (do not judge) cases with running index <= Resume
	ReplayMode bool

	idx        int64
	res        WorkerResult
	distinct   map[uint64]struct{}
	sampleSeen map[string]int
	journal    *os.File
	curCase    *Case
	vioSigs    map[string]int
}

func NewCtx() *Ctx {
	c := &Ctx{distinct: map[uint64]struct{}{}, sampleSeen: map[string]int{}, vioSigs: map[string]int{}, Resume: -1}
	c.res.Counters = map[string]int64{}
	return c
}

func (c *Ctx) Quick() bool { return c.Tier != "thorough" }

// N picks a size by tier.
func (c *Ctx) N(quick, thorough int) int {
	if c.Quick() {
		return quick
	}
	return thorough
}

// Mine advances the running case index and says whether this shard owns it.
func (c *Ctx) Mine() bool {
	c.idx++
	if c.idx <= c.Resume || c.noTermination >= 2 {
		// after two executions that burned their CPU budget without ending, the shard stops producing cases
		// (each further one would cost the full budget again); the violations are already recorded
		return false
	}
	return int(c.idx%int64(c.NShards)) == c.Shard
}

func (c *Ctx) Idx() int64 { return c.idx }

func (c *Ctx) Count(key string, n int64) { c.res.Counters[key] += n }

func hash64(s string) uint64 {
	h := fnv.New64a()
	h.Write([]byte(s))
	return h.Sum64()
}

// Nontrivial records a distinct non-trivial case (by content key).
func (c *Ctx) Nontrivial(key string) { c.distinct[hash64(key)] = struct{}{} }

func (c *Ctx) Sample(group string, v interface{}) {
	if c.sampleSeen[group] >= 2 {
		return
	}
	c.sampleSeen[group]++
	c.res.Samples = append(c.res.Samples, map[string]interface{}{"generator": group, "case": v})
}

func (c *Ctx) Inconclusive(why string) {
	if len(c.res.Inconclusive) < 50 {
		c.res.Inconclusive = append(c.res.Inconclusive, why)
	}
	c.Count("inconclusive", 1)
}

// Begin journals the case (for crash attribution) and counts an evaluation.
func (c *Ctx) Begin(cs *Case) {
	cs.Idx = c.idx
	c.curCase = cs
	c.res.Evaluations++
	c.Count("gen:"+cs.Gen, 1)
	if c.journal != nil {
		b, _ := json.Marshal(cs)
		c.journal.Truncate(0)
		c.journal.WriteAt(b, 0)
	}
}

func (c *Ctx) Violate(v Violation) {
	v.Property = c.Prop
	if c.curCase != nil && v.Case.Src == "" && v.Case.Gen == "" {
		v.Case = *c.curCase
	}
	if v.Signature == "" {
		v.Signature = v.Why
	}
	c.Count("violations", 1)
	c.vioSigs[v.Signature]++
	// keep at most 3 witnesses per signature and 200 overall
	if c.vioSigs[v.Signature] <= 3 && len(c.res.Violations) < 200 {
		c.res.Violations = append(c.res.Violations, v)
	}
}

func (c *Ctx) Finish() WorkerResult {
	c.res.Shard = c.Shard
	c.res.Done = true
	for h := range c.distinct {
		c.res.Distinct = append(c.res.Distinct, h)
	}
	return c.res
}

// ---------------------------------------------------------------------------
// Deterministic PRNG (SplitMix64), one stream per (seed, property, name).

type Rng struct{ s uint64 }

func (c *Ctx) Rand(stream string) *Rng {
	return &Rng{s: hash64(fmt.Sprintf("%d|%s|%s", c.Seed, c.Prop, stream))}
}

func (r *Rng) U64() uint64 {
	r.s += 0x9e3779b97f4a7c15
	z := r.s
	z = (z ^ (z >> 30)) * 0xbf58476d1ce4e5b9
	z = (z ^ (z >> 27)) * 0x94d049bb133111eb
	return z ^ (z >> 31)
}
func (r *Rng) Intn(n int) int {
	if n <= 0 {
		return 0
	}
	return int(r.U64() % uint64(n))
}
func (r *Rng) Bool() bool              { return r.U64()&1 == 1 }
func (r *Rng) Chance(p float64) bool   { return float64(r.U64()>>11)/float64(1<<53) < p }
func (r *Rng) Pick(xs []string) string { return xs[r.Intn(len(xs))] }

// ---------------------------------------------------------------------------
// Replays and known findings

func shortHash(s string) string {
	h := sha256.Sum256([]byte(s))
	return hex.EncodeToString(h[:8])
}

func writeReplay(verifDir string, v Violation) string {
	dir := filepath.Join(verifDir, "replays", v.Property)
	os.MkdirAll(dir, 0o755)
	b, _ := json.MarshalIndent(v, "", " ")
	name := shortHash(v.Signature + "|" + v.Case.Src + "|" + strings.Join(v.Case.Alt, "|") + "|" + v.Case.Stdin)
	path := filepath.Join(dir, name+".json")
	os.WriteFile(path, b, 0o644)
	if v.Case.Src != "" {
		os.WriteFile(filepath.Join(dir, name+".bn"), []byte(v.Case.Src), 0o644)
	}
	return path
}

type Finding struct {
	Property  string `json:"property"`
	Status    string `json:"status"` // open | fixed
	Commit    string `json:"commit,omitempty"`
	What      string `json:"what"`
	Signature string `json:"signature,omitempty"` // exact violation signature
	SrcSHA    string `json:"src_sha,omitempty"`   // or exact failing source (short sha256)
	Source    string `json:"source,omitempty"`
}

type Findings struct {
	Findings []Finding `json:"findings"`
}

func loadFindings(verifDir string) Findings {
	var f Findings
	b, err := os.ReadFile(filepath.Join(verifDir, "known_findings.json"))
	if err == nil {
		json.Unmarshal(b, &f)
	}
	return f
}

func (f Findings) match(v Violation) *Finding {
	for i := range f.Findings {
		k := &f.Findings[i]
		if k.Status != "open" || k.Property != v.Property {
			continue
		}
		if k.Signature != "" && k.Signature == v.Signature {
			return k
		}
		if k.SrcSHA != "" && k.SrcSHA == shortHash(v.Case.Src) {
			return k
		}
		if k.Source != "" && k.Source == v.Case.Src {
			return k
		}
	}
	return nil
}

// ---------------------------------------------------------------------------
// Evidence

type Evidence struct {
	PropertyID  string                 `json:"property_id"`
	Tier        string                 `json:"tier"`
	Seed        int64                  `json:"seed"`
	Level       string                 `json:"level"`
	Coverage    map[string]interface{} `json:"coverage"`
	Assumptions []string               `json:"assumptions"`
	WallS       float64                `json:"wall_s"`
	Violations  int                    `json:"violations"`
	Verdict     string                 `json:"verdict"`
}

func sortedCounters(m map[string]int64) map[string]int64 {
	keys := make([]string, 0, len(m))
	for k := range m {
		keys = append(keys, k)
	}
	sort.Strings(keys)
	out := make(map[string]int64, len(m))
	for _, k := range keys {
		out[k] = m[k]
	}
	return out
}
