package main

import (
	"fmt"
	"strings"

	"verifharness/ref"
)

// Front-end oracle (C01, C08): spec lexer + Earley recogniser over the
// published grammar + side conditions.

var (
	gStrict   = ref.BuildGrammar(false, false)
	gRelaxed  = ref.BuildGrammar(true, false)
	gTrailing = ref.BuildGrammar(false, true)
)

type FrontVerdict struct {
	LexErrs   []ref.LexError
	Toks      []ref.Token
	Accept    bool
	FailTok   int   // first non-viable token (when !Accept and no lexical error)
	OKLines   []int // acceptable lines for the first diagnostic
	OOD       string
	Lines     int // number of lines in the text
	Prog      []*ref.Node
	AssignErr bool
}

func countLines(src []rune) int {
	n := 1
	for _, r := range src {
		if r == '\n' {
			n++
		}
	}
	return n
}

// paramOverflow returns the index of the token that makes a parameter list
// exceed 255 entries, or -1.
func paramOverflow(toks []ref.Token) int {
	for i := 0; i+2 < len(toks); i++ {
		if toks[i].Kind == "fun" && toks[i+1].Kind == "IDENT" && toks[i+2].Kind == "(" {
			n := 0
			j := i + 3
			for j < len(toks) && toks[j].Kind == "IDENT" {
				n++
				if n > 255 {
					return j
				}
				j++
				if j < len(toks) && toks[j].Kind == "," {
					j++
				} else {
					break
				}
			}
		}
	}
	return -1
}

func FrontOracle(src string) *FrontVerdict {
	runes := []rune(src)
	v := &FrontVerdict{Lines: countLines(runes)}
	v.Toks, v.LexErrs = ref.Lex(runes)
	for _, t := range v.Toks {
		if t.Kind == "IDENT" && t.Lexeme == "input" {
			v.OOD = "identifier `input` (undocumented reserved word)"
		}
	}
	if len(v.LexErrs) > 0 {
		v.Accept = false
		v.FailTok = -1
		return v
	}
	kinds := ref.EarleyKinds(v.Toks)
	ok, at := gStrict.Recognise(kinds)
	paramFail := false
	if po := paramOverflow(v.Toks); po >= 0 && (ok || po < at) {
		ok, at, paramFail = false, po, true
	}
	v.Accept, v.FailTok = ok, at
	// ধরি declarations spanning a line break: out of domain
	limit := len(v.Toks)
	if !ok {
		limit = at
	}
	for i := 0; i < limit; i++ {
		if v.Toks[i].Kind != "var" {
			continue
		}
		depth := 0
		end := -1
		for j := i + 1; j < limit; j++ {
			k := v.Toks[j].Kind
			if k == "(" || k == "[" || k == "{" {
				depth++
			} else if k == ")" || k == "]" || k == "}" {
				depth--
			} else if k == ";" && depth <= 0 {
				end = j
				break
			}
		}
		last := end
		if last < 0 {
			last = limit - 1
		}
		if last >= len(v.Toks) {
			last = len(v.Toks) - 1
		}
		if v.Toks[last].Kind == "EOF" && last > i {
			last--
		}
		spans := false
		for _, r := range runes[v.Toks[i].Start:v.Toks[last].End] {
			if r == '\n' {
				spans = true
			}
		}
		// in domain after all: one variable whose initialiser is an array / object literal, with every
		// line break strictly inside that literal and the ';' right after its closing bracket (the way
		// tables and records are written; grammar and implementation agree on accepting these)
		if spans && end > 0 && i+4 < end && v.Toks[i+1].Kind == "IDENT" && v.Toks[i+2].Kind == "=" && (v.Toks[i+3].Kind == "[" || v.Toks[i+3].Kind == "{") &&
			(v.Toks[end-1].Kind == "]" || v.Toks[end-1].Kind == "}") && v.Toks[i].Line == v.Toks[i+3].Line && v.Toks[end-1].Line == v.Toks[end].Line {
			d, closesAt := 0, -1
			for j := i + 3; j < end; j++ {
				switch v.Toks[j].Kind {
				case "(", "[", "{":
					d++
				case ")", "]", "}":
					d--
					if d == 0 && closesAt < 0 {
						closesAt = j
					}
				}
			}
			if closesAt == end-1 {
				spans = false
			}
		}
		if spans {
			v.OOD = "a ধরি declaration spans a line break"
		}
	}
	if !ok && paramFail {
		v.OKLines = []int{v.Toks[at].Line}
	} else if !ok {
		if t, tat := gTrailing.Recognise(kinds); t {
			v.OOD = "only departure from the grammar is a trailing comma in an object literal"
		} else if tat > at {
			// the first departure is a trailing comma in an object literal (the
			// documented undocumented rule) and a further error follows: which of
			// the two is diagnosed first is not pinned
			v.OOD = "first departure from the grammar is a trailing comma in an object literal"
		}
		if at < len(v.Toks) {
			v.OKLines = []int{v.Toks[at].Line}
			if v.Toks[at].Kind == "=" {
				// possibly an invalid assignment target: the diagnostic may also sit
				// at the first error found when the target is tolerated
				rok, rat := gRelaxed.Recognise(kinds)
				if rok || rat > at {
					// "diagnosed at, or to the right of, its `=`": any line from the
					// `=` up to where the text fails even with the target tolerated
					v.AssignErr = true
					hi := v.Toks[len(v.Toks)-1].Line
					if !rok && rat < len(v.Toks) {
						hi = v.Toks[rat].Line
					}
					for l := v.Toks[at].Line + 1; l <= hi; l++ {
						v.OKLines = append(v.OKLines, l)
					}
				}
			}
		}
	} else {
		p := ref.NewParser(v.Toks)
		prog, serr := p.ParseProgram()
		if serr != nil {
			// the two reference front ends disagree: refuse to judge
			v.OOD = fmt.Sprintf("oracle self-disagreement (Earley accepts, reference parser fails at token %d)", serr.Tok)
		}
		v.Prog = prog
	}
	return v
}

func containsInt(xs []int, x int) bool {
	for _, y := range xs {
		if y == x {
			return true
		}
	}
	return false
}

// frontJudge decides C08's clauses (and optionally C01's tree equality) for one text.
func frontJudge(c *Ctx, cs *Case, wantTree bool) bool {
	src := cs.Src
	v := FrontOracle(src)
	if v.Accept && len(v.LexErrs) == 0 {
		o := RunLib(src, RunOpts{ParseOnly: true, KeepAST: wantTree})
		if CheckAbnormal(c, o) {
			return false
		}
		if v.OOD != "" {
			c.Count("skipped_out_of_domain", 1)
			c.Count("ood:"+oodClass(v.OOD), 1)
			return false
		}
		if !o.Accepted || o.Stderr != "" {
			c.Violate(Violation{Why: "text derivable from the published grammar was rejected", Observed: describeObs(o), Signature: "false-reject"})
			return false
		}
		c.Count("accepted", 1)
		if wantTree {
			got, unk := ImplSexpList(o.Stmts)
			if unk != "" {
				c.Inconclusive("unknown AST node type " + unk)
				return false
			}
			want := ref.SexpList(v.Prog)
			if got != want {
				c.Violate(Violation{Why: "syntax tree differs from the tree the precedence ladder prescribes", Expected: trunc(want, 600), Observed: trunc(got, 600), Signature: "tree"})
				return false
			}
			c.Count("trees_compared", 1)
		}
		return true
	}
	// expected: rejected.  Run the whole pipeline to see that nothing executes.
	o := RunLib(src, RunOpts{MaxSteps: 200000})
	if CheckAbnormal(c, o) {
		return false
	}
	if v.OOD == "" && (o.Stdout != "" || o.Steps > 0) {
		c.Violate(Violation{Why: fmt.Sprintf("part of a rejected text was executed (%d evaluation steps, stdout %q)", o.Steps, trunc(o.Stdout, 80)), Observed: describeObs(o), Signature: "rejected-text-ran"})
		return false
	}
	diags := ParseDiags(o.Stderr)
	if v.OOD != "" {
		if o.Accepted {
			// the implementation accepts this out-of-domain text and ran it: nothing to judge
			c.Count("skipped_out_of_domain", 1)
			c.Count("ood:"+oodClass(v.OOD), 1)
			return false
		}
		if o.Stdout != "" || o.Steps > 0 {
			c.Violate(Violation{Why: "a text the implementation itself rejected was partly executed", Observed: describeObs(o), Signature: "rejected-text-ran"})
			return false
		}
		c.Count("skipped_out_of_domain", 1)
		c.Count("ood:"+oodClass(v.OOD), 1)
		// whatever the classification, diagnostics must name lines inside the text
		for _, d := range diags {
			if d.Line < 1 || d.Line > v.Lines {
				c.Violate(Violation{Why: fmt.Sprintf("diagnostic names line %d, the text has %d line(s)", d.Line, v.Lines), Observed: describeObs(o), Signature: "diag-line-outside"})
			}
		}
		return false
	}
	if o.Accepted || o.Exit != 65 {
		why := "text not derivable from the published grammar was accepted"
		if len(v.LexErrs) > 0 {
			why = "text with a lexical error was accepted"
		}
		exp := ""
		if v.FailTok >= 0 && v.FailTok < len(v.Toks) {
			exp = fmt.Sprintf("first non-viable token: #%d %s %q on line %d", v.FailTok, v.Toks[v.FailTok].Kind, v.Toks[v.FailTok].Lexeme, v.Toks[v.FailTok].Line)
		}
		c.Violate(Violation{Why: why, Expected: exp, Observed: describeObs(o), Signature: "false-accept"})
		return false
	}
	if len(diags) == 0 {
		c.Violate(Violation{Why: "rejected text without any diagnostic on stderr", Observed: describeObs(o), Signature: "reject-no-diag"})
		return false
	}
	for _, d := range diags {
		if d.Channel == "runtime" {
			c.Violate(Violation{Why: "rejection produced a runtime diagnostic", Observed: describeObs(o), Signature: "reject-diag-channel"})
			return false
		}
		if d.Line < 1 || d.Line > v.Lines {
			c.Violate(Violation{Why: fmt.Sprintf("diagnostic names line %d, the text has %d line(s)", d.Line, v.Lines), Observed: describeObs(o), Signature: "diag-line-outside"})
			return false
		}
	}
	if len(v.LexErrs) == 0 {
		if !containsInt(v.OKLines, diags[0].Line) {
			t := v.Toks[v.FailTok]
			c.Violate(Violation{Why: fmt.Sprintf("first diagnostic names line %d; the text stops being a valid beginning at token #%d %s %q on line %v", diags[0].Line, v.FailTok, t.Kind, t.Lexeme, v.OKLines), Observed: describeObs(o), Signature: "syntax-diag-line"})
			return false
		}
		c.Count("rejected_syntax", 1)
		if v.AssignErr {
			c.Count("rejected_assign_target", 1)
		}
	} else {
		c.Count("rejected_lexical", 1)
	}
	return true
}

// renderTokens writes a token sequence one token per line, except that a
// ধরি ... ; span stays on one line (the documented out-of-domain rule).
func renderTokens(lexemes []string, kinds []string) string {
	var b strings.Builder
	inVar := false
	for i, lx := range lexemes {
		b.WriteString(lx)
		if kinds[i] == "var" {
			inVar = true
		}
		if kinds[i] == ";" {
			inVar = false
		}
		if i+1 < len(lexemes) {
			if inVar {
				b.WriteByte(' ')
			} else {
				b.WriteByte('\n')
			}
		}
	}
	return b.String()
}
