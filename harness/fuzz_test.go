package main

import (
	"os"
	"path/filepath"
	"testing"

	"verifharness/ref"
)

// FuzzInterp is the coverage-guided tier of C07 (thorough): any input that is
// a syntactically valid program must end normally or with a reported runtime
// error; a recovered Go panic fails the fuzz target.  Inputs outside the
// domain (lexical / syntax errors) are ignored; evaluation is cut off by a
// step budget, which is not a failure here.
func FuzzInterp(f *testing.F) {
	repo := envOr("VERIF_REPO", "/repo")
	files, _ := filepath.Glob(filepath.Join(repo, "example", "*.bn"))
	for _, p := range files {
		if b, err := os.ReadFile(p); err == nil {
			f.Add(string(b))
		}
	}
	for _, s := range c04Handwritten() {
		f.Add(s)
	}
	for _, s := range c03Handwritten() {
		f.Add(s)
	}
	f.Add(Print("[1, 2][0] + ({k: 1}).k") + "\n")
	f.Fuzz(func(t *testing.T, src string) {
		if len(src) > 4000 {
			return
		}
		toks, lerr := ref.Lex([]rune(src))
		if len(lerr) > 0 {
			return
		}
		if _, serr := ref.NewParser(toks).ParseProgram(); serr != nil {
			return
		}
		o := RunLib(src, RunOpts{MaxSteps: 20000, Stdin: "fuzz\n"})
		if o.Panic != "" {
			t.Fatalf("abnormal termination: %s\nprogram:\n%s", o.Panic, src)
		}
	})
}
