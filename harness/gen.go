package main

import (
	"math"
	"strconv"
	"strings"

	"verifharness/ref"
)

// Keyword / built-in spellings come from the reference tables only (escaped
// code points there); nothing in the harness spells a keyword by hand.
var K = ref.KW
var B = ref.BI

func Print(e string) string  { return K["print"] + " " + e + ";" }
func Var(n, e string) string { return K["var"] + " " + n + " = " + e + ";" }
func VarNil(n string) string { return K["var"] + " " + n + ";" }
func Fun(name, params, body string) string {
	return K["fun"] + " " + name + "(" + params + ") {" + body + "}"
}
func If(c, t string) string        { return K["if"] + " (" + c + ") " + t }
func IfElse(c, t, e string) string { return K["if"] + " (" + c + ") " + t + " " + K["else"] + " " + e }
func While(c, b string) string     { return K["while"] + " (" + c + ") " + b }
func For(i, c, n, b string) string { return K["for"] + " (" + i + " " + c + "; " + n + ") " + b }
func Ret(e string) string {
	if e == "" {
		return K["return"] + ";"
	}
	return K["return"] + " " + e + ";"
}
func Break() string    { return K["break"] + ";" }
func Continue() string { return K["continue"] + ";" }
func Call(f string, args ...string) string {
	return f + "(" + strings.Join(args, ", ") + ")"
}
func BI(nick string, args ...string) string { return Call(B[nick], args...) }
func True() string                          { return K["true"] }
func False() string                         { return K["false"] }

func Lines(ss ...string) string { return strings.Join(ss, "\n") + "\n" }

// NumLit writes a finite double as a plain decimal literal of the language
// (digits, optional fraction); negative values get a leading unary minus in
// parentheses.  Non-finite values are produced by expressions.
func NumLit(f float64) string {
	switch {
	case math.IsNaN(f):
		return "((10 ** 400) - (10 ** 400))"
	case math.IsInf(f, 1):
		return "(10 ** 400)"
	case math.IsInf(f, -1):
		return "(-(10 ** 400))"
	}
	neg := math.Signbit(f)
	s := strconv.FormatFloat(math.Abs(f), 'f', -1, 64)
	if neg {
		return "(-" + s + ")"
	}
	return s
}

// BanglaDigits respells ASCII digits with Bangla digits where mask bit set.
func BanglaDigits(s string, r *Rng) string {
	var b strings.Builder
	for _, c := range s {
		if c >= '0' && c <= '9' && (r == nil || r.Bool()) {
			b.WriteRune(0x09E6 + (c - '0'))
		} else {
			b.WriteRune(c)
		}
	}
	return b.String()
}

// RandDouble draws a double stratified over sign / exponent class / mantissa.
func RandDouble(r *Rng) float64 {
	switch r.Intn(10) {
	case 0:
		return float64(int64(r.Intn(2001)) - 1000)
	case 1:
		return float64(r.Intn(1<<20)) / 1024
	case 2: // subnormal / tiny
		return math.Float64frombits(r.U64() & 0x000fffffffffffff)
	case 3: // huge
		return math.Float64frombits((r.U64() & 0x800fffffffffffff) | (uint64(0x7fe-r.Intn(40)) << 52))
	case 4: // around 2^53 / 2^63
		base := []float64{9007199254740992, 9223372036854775808, 4294967296, 1e6, 1e15, 1e21, 1e-5, 1e-7}[r.Intn(8)]
		return math.Float64frombits(math.Float64bits(base) + uint64(r.Intn(5)) - 2)
	case 5:
		return []float64{0, math.Copysign(0, -1), 1, -1, 0.5, -0.5, 1.5, 2.5, -2.5, 63, 64, 65, 1e308, 5e-324, 0.1, 0.2, 0.3}[r.Intn(17)]
	default:
		for {
			f := math.Float64frombits(r.U64())
			if !math.IsNaN(f) && !math.IsInf(f, 0) {
				return f
			}
		}
	}
}

// stdRun runs a program through P-lib and the model and compares.
func stdJudge(c *Ctx, cs *Case, ro RunOpts, jo JudgeOpts) (string, *ModelOut, *Obs) {
	m := RunModel(cs.Src, cs.Stdin, ro.Repl, 0)
	if m.Res != nil && m.Res.OOD != "" {
		c.Count("skipped_out_of_domain", 1)
		c.Count("ood:"+oodClass(m.Res.OOD), 1)
		if strings.Contains(m.Res.OOD, "model's cap") {
			return "skip", m, &Obs{} // memory-exhausting program: do not run it at all
		}
		// still run the real code: abnormal termination is a violation regardless
		o := RunLib(cs.Src, withBudget(ro, 3000)) // small budget: unbounded recursion is out of domain and must not exhaust the host stack
		if o.Panic != "" {
			CheckAbnormal(c, o)
		}
		return "skip", m, o
	}
	steps := 0
	if m.Res != nil {
		steps = m.Res.Steps
	}
	ro.Stdin = cs.Stdin
	if ro.MaxSteps == 0 {
		ro.MaxSteps = int64(100*steps + 10000)
	}
	if jo.Events && ro.Events == "" {
		ro.Events = "io"
	}
	o := RunLib(cs.Src, ro)
	return CompareModel(c, m, o, jo), m, o
}

func withBudget(ro RunOpts, n int64) RunOpts {
	ro.MaxSteps = n
	return ro
}

// cliJudge runs the same case through the real binary and compares with the model.
func cliJudge(c *Ctx, cs *Case, m *ModelOut) string {
	if m.Res != nil && m.Res.OOD != "" {
		return "skip"
	}
	o := RunCLI(CLIOpts{Bin: c.Bin, Src: cs.Src, Stdin: cs.Stdin, Dir: c.Scratch})
	c.Count("cli_runs", 1)
	if o.Exit == 2 || strings.Contains(o.Stderr, "panic:") || strings.Contains(o.Stderr, "fatal error:") || strings.Contains(o.Stderr, "goroutine ") {
		c.Violate(Violation{Why: "CLI process died abnormally (Go panic / fatal error banner)", Observed: describeObs(o), Signature: "cli-abnormal: " + firstPanicLine(o.Stderr)})
		return "violated"
	}
	return CompareModel(c, m, o, JudgeOpts{CLI: true})
}

func firstPanicLine(s string) string {
	for _, ln := range strings.Split(s, "\n") {
		if strings.HasPrefix(ln, "panic:") || strings.HasPrefix(ln, "fatal error:") {
			return trunc(ln, 90)
		}
	}
	return ""
}
