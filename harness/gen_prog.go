package main

import (
	"fmt"
	"strings"
)

// Grammar-directed random program generator with a static scope tracker, so
// that programs are mostly valid; deliberately colliding names; unique values
// ("tags") everywhere so that a wrong value identifies the operation that
// went wrong.  Loops are bounded by construction.

type gvar struct {
	name string
	kind string // num str bool arr obj fn any
	ar   int    // fn arity
}

type PG struct {
	r       *Rng
	scopes  [][]gvar
	tag     int
	b       strings.Builder
	indent  int
	inLoop  int
	inFun   int
	budget  int // remaining statements
	Faults  bool // allow planted runtime faults
	fnSeq   int
	loopSeq int
	Names   []string
	Stdin   int // number of input() calls allowed
	usedIn  int
	Pure    bool // no input / no clock
}

func NewPG(r *Rng, budget int) *PG {
	return &PG{r: r, scopes: [][]gvar{{}}, budget: budget, tag: 100, Names: []string{"ক", "খ", "a", "গ", "b"}}
}

func (g *PG) fresh() int { g.tag++; return g.tag }

func (g *PG) line(s string) {
	g.b.WriteString(strings.Repeat("  ", g.indent))
	g.b.WriteString(s)
	g.b.WriteByte('\n')
}

func (g *PG) push() { g.scopes = append(g.scopes, []gvar{}) }
func (g *PG) pop()  { g.scopes = g.scopes[:len(g.scopes)-1] }
func (g *PG) declare(v gvar) {
	top := &g.scopes[len(g.scopes)-1]
	for i := range *top {
		if (*top)[i].name == v.name {
			(*top)[i] = v
			return
		}
	}
	*top = append(*top, v)
}
func (g *PG) inTop(name string) bool {
	for _, v := range g.scopes[len(g.scopes)-1] {
		if v.name == name {
			return true
		}
	}
	return false
}

// visible returns the visible variables (innermost binding per name) of a kind ("" = any).
func (g *PG) visible(kind string) []gvar {
	seen := map[string]bool{}
	var out []gvar
	for i := len(g.scopes) - 1; i >= 0; i-- {
		for _, v := range g.scopes[i] {
			if seen[v.name] {
				continue
			}
			seen[v.name] = true
			if kind == "" || v.kind == kind {
				out = append(out, v)
			}
		}
	}
	return out
}

func (g *PG) pickVar(kind string) (gvar, bool) {
	vs := g.visible(kind)
	if len(vs) == 0 {
		return gvar{}, false
	}
	return vs[g.r.Intn(len(vs))], true
}

// ---- expressions ----------------------------------------------------------

func (g *PG) numExpr(d int) string {
	r := g.r
	if d <= 0 || r.Intn(3) == 0 {
		if v, ok := g.pickVar("num"); ok && r.Intn(2) == 0 {
			return v.name
		}
		return fmt.Sprint(g.fresh())
	}
	switch r.Intn(12) {
	case 0, 1, 2:
		return "(" + g.numExpr(d-1) + " " + []string{"+", "-", "*"}[r.Intn(3)] + " " + g.numExpr(d-1) + ")"
	case 3:
		return "(" + g.numExpr(d-1) + " % " + fmt.Sprint(2+r.Intn(5)) + ")"
	case 4:
		return "(" + g.numExpr(d-1) + " / " + []string{"2", "4", "8"}[r.Intn(3)] + ")"
	case 5:
		return "(-" + g.numExpr(d-1) + ")"
	case 6:
		if v, ok := g.pickVar("arr"); ok {
			return BI("len", v.name)
		}
		return BI("len", g.arrExpr(d-1))
	case 7:
		return BI([]string{"abs", "round"}[r.Intn(2)], g.numExpr(d-1))
	case 8:
		return BI([]string{"max", "min"}[r.Intn(2)], g.numExpr(d-1), g.numExpr(d-1))
	case 9:
		if v, ok := g.pickVar("fn"); ok && g.inFun < 3 {
			return g.callOf(v, d-1)
		}
		return fmt.Sprint(g.fresh())
	case 10:
		return "(" + fmt.Sprint(r.Intn(64)) + " " + []string{"&", "|", "^", "<<", ">>"}[r.Intn(5)] + " " + fmt.Sprint(r.Intn(8)) + ")"
	default:
		return "(" + g.boolExpr(d-1) + " " + []string{"&&", "||", K["and"], K["or"]}[r.Intn(4)] + " " + g.numExpr(d-1) + ")"
	}
}

func (g *PG) callOf(v gvar, d int) string {
	args := make([]string, v.ar)
	for i := range args {
		args[i] = g.anyExpr(d)
	}
	return Call(v.name, args...)
}

func (g *PG) strExpr(d int) string {
	r := g.r
	if d <= 0 || r.Intn(3) == 0 {
		if v, ok := g.pickVar("str"); ok && r.Intn(2) == 0 {
			return v.name
		}
		return fmt.Sprintf(`"s%d"`, g.fresh())
	}
	switch r.Intn(4) {
	case 0:
		return "(" + g.strExpr(d-1) + " + " + g.strExpr(d-1) + ")"
	case 1:
		return "(" + g.strExpr(d-1) + " + " + g.numExpr(d-1) + ")"
	case 2:
		return "(" + g.numExpr(d-1) + " + " + g.strExpr(d-1) + ")"
	default:
		if r.Intn(3) == 0 {
			// text that Unicode normalisation would rewrite (precomposed U+09DF / U+09DC, e + combining acute)
			return fmt.Sprintf("\"\u09b8\u09ae\u09df%d\u09ac\u09dc e\u0301\"", g.fresh())
		}
		return fmt.Sprintf(`"কথা%d"`, g.fresh())
	}
}

func (g *PG) boolExpr(d int) string {
	r := g.r
	if d <= 0 || r.Intn(4) == 0 {
		return []string{True(), False()}[r.Intn(2)]
	}
	switch r.Intn(5) {
	case 0:
		return "(" + g.numExpr(d-1) + " " + []string{"<", "<=", ">", ">=", "==", "!="}[r.Intn(6)] + " " + g.numExpr(d-1) + ")"
	case 1:
		return "(!" + g.anyExpr(d-1) + ")"
	case 2:
		return "(" + g.strExpr(d-1) + " " + []string{"==", "!="}[r.Intn(2)] + " " + g.strExpr(d-1) + ")"
	case 3:
		return "(" + g.boolExpr(d-1) + " == " + g.boolExpr(d-1) + ")"
	default:
		return []string{True(), False()}[r.Intn(2)]
	}
}

func (g *PG) arrExpr(d int) string {
	r := g.r
	if v, ok := g.pickVar("arr"); ok && r.Intn(3) == 0 {
		return v.name
	}
	n := r.Intn(4)
	el := make([]string, n)
	for i := range el {
		if d > 0 && r.Intn(5) == 0 {
			el[i] = g.anyExpr(d - 1)
		} else {
			el[i] = fmt.Sprint(g.fresh())
		}
	}
	return "[" + strings.Join(el, ", ") + "]"
}

func (g *PG) objExpr(d int) string {
	r := g.r
	if v, ok := g.pickVar("obj"); ok && r.Intn(3) == 0 {
		return v.name
	}
	keys := []string{"k", "ক", "x1", "মান"}
	n := r.Intn(4)
	parts := []string{}
	for i := 0; i < n; i++ {
		val := fmt.Sprint(g.fresh())
		if d > 0 && r.Intn(4) == 0 {
			val = g.anyExpr(d - 1)
		}
		parts = append(parts, keys[i]+": "+val)
	}
	return "{" + strings.Join(parts, ", ") + "}"
}

func (g *PG) anyExpr(d int) string {
	switch g.r.Intn(10) {
	case 0, 1, 2, 3:
		return g.numExpr(d)
	case 4, 5:
		return g.strExpr(d)
	case 6:
		return g.boolExpr(d)
	case 7:
		return g.arrExpr(d)
	case 8:
		return g.objExpr(d)
	default:
		if g.r.Intn(3) == 0 {
			return "nil"
		}
		if v, ok := g.pickVar(""); ok {
			return v.name
		}
		return g.numExpr(d)
	}
}

func kindOfExprGen(g *PG, d int) (string, string) {
	switch g.r.Intn(10) {
	case 0, 1, 2, 3:
		return g.numExpr(d), "num"
	case 4, 5:
		return g.strExpr(d), "str"
	case 6:
		return g.boolExpr(d), "bool"
	case 7:
		return g.arrExpr(d), "arr"
	case 8:
		return g.objExpr(d), "obj"
	}
	return "nil", "any"
}

// faultExpr yields an expression that raises a runtime fault when evaluated.
func (g *PG) faultExpr() string {
	r := g.r
	switch r.Intn(12) {
	case 0:
		return "নেই" + fmt.Sprint(g.fresh())
	case 1:
		return "(" + g.numExpr(1) + " / 0)"
	case 2:
		return "(" + g.numExpr(1) + " % 0)"
	case 3:
		return "(nil + 1)"
	case 4:
		return "(" + True() + " * 2)"
	case 5:
		return "[1, 2][" + []string{"2", "-1", "1.5", "nil", `"x"`}[r.Intn(5)] + "]"
	case 6:
		return "({k: 1}).zz"
	case 7:
		return "(5).k"
	case 8:
		return `"s"(1)`
	case 9:
		return BI("len", "5")
	case 10:
		return BI("sqrt", "nil")
	default:
		return "(1 << -1)"
	}
}

// ---- statements -----------------------------------------------------------

func (g *PG) stmt(depth int) {
	if g.budget <= 0 {
		return
	}
	g.budget--
	r := g.r
	choice := r.Intn(24)
	switch {
	case choice < 5: // declaration
		name := g.Names[r.Intn(len(g.Names))]
		if g.inTop(name) && !(g.Faults && r.Intn(12) == 0) {
			// avoid accidental same-scope redeclaration: assign instead
			e, k := kindOfExprGen(g, 2)
			g.line(name + " = " + e + ";")
			g.setKind(name, k)
			return
		}
		e, k := kindOfExprGen(g, 2)
		if r.Intn(4) == 0 {
			// several variables in one declaration
			n2 := g.Names[r.Intn(len(g.Names))]
			if n2 != name && !g.inTop(n2) {
				e2, k2 := kindOfExprGen(g, 1)
				extra := ""
				if r.Bool() {
					g.tag++
					extra = fmt.Sprintf(", t%d", g.tag)
				}
				g.line(K["var"] + " " + name + " = " + e + ", " + n2 + " = " + e2 + extra + ";")
				g.declare(gvar{name: name, kind: k})
				g.declare(gvar{name: n2, kind: k2})
				return
			}
		}
		g.line(Var(name, e))
		g.declare(gvar{name: name, kind: k})
	case choice < 8: // assignment
		if v, ok := g.pickVar(""); ok && v.kind != "fn" && !isLoopVar(v.name) {
			e, k := kindOfExprGen(g, 2)
			g.line(v.name + " = " + e + ";")
			g.setKind(v.name, k)
		} else {
			g.line(Print(g.anyExpr(2)))
		}
	case choice < 13: // print
		if g.Faults && r.Intn(25) == 0 {
			g.line(Print(g.faultExpr()))
			return
		}
		g.line(Print(g.anyExpr(3)))
	case choice < 15 && depth > 0: // if / else
		g.line(K["if"] + " (" + g.condExpr() + ") {")
		g.block(depth-1, 1+r.Intn(3))
		if r.Bool() {
			g.line("} " + K["else"] + " {")
			g.block(depth-1, 1+r.Intn(3))
		}
		g.line("}")
	case choice < 17 && depth > 0: // for
		g.loopSeq++
		iv := fmt.Sprintf("i%d", g.loopSeq)
		n := 1 + r.Intn(3)
		g.line(K["for"] + " (" + Var(iv, "0") + " " + iv + " < " + fmt.Sprint(n) + "; " + iv + " = " + iv + " + 1) {")
		g.push()
		g.declare(gvar{name: iv, kind: "num"})
		g.inLoop++
		g.block(depth-1, 1+r.Intn(3))
		g.inLoop--
		g.pop()
		g.line("}")
	case choice < 18 && depth > 0: // while with its own counter
		g.loopSeq++
		iv := fmt.Sprintf("w%d", g.loopSeq)
		g.line(Var(iv, "0"))
		g.declare(gvar{name: iv, kind: "num"})
		n := 1 + r.Intn(3)
		g.line(K["while"] + " (" + iv + " < " + fmt.Sprint(n) + ") {")
		g.indent++
		g.line(iv + " = " + iv + " + 1;")
		g.indent--
		g.inLoop++
		g.block(depth-1, 1+r.Intn(3))
		g.inLoop--
		g.line("}")
	case choice < 19 && depth > 0: // bare block
		g.line("{")
		g.block(depth-1, 1+r.Intn(3))
		g.line("}")
	case choice < 21 && depth > 0 && g.inFun < 2: // function declaration (+ maybe closure factory)
		g.fnSeq++
		name := fmt.Sprintf("f%d", g.fnSeq)
		ar := r.Intn(3)
		params := []string{}
		for i := 0; i < ar; i++ {
			params = append(params, []string{"p", "q", "ক"}[i])
		}
		g.line(K["fun"] + " " + name + "(" + strings.Join(params, ", ") + ") {")
		g.push()
		for _, p := range params {
			g.declare(gvar{name: p, kind: "any"})
		}
		g.inFun++
		savedLoop := g.inLoop
		g.inLoop = 0
		g.indent++
		for i := 1 + r.Intn(3); i > 0; i-- {
			g.stmt(depth - 1)
		}
		if r.Intn(3) > 0 {
			g.line(Ret(g.numExpr(1)))
		}
		g.indent--
		g.inLoop = savedLoop
		g.inFun--
		g.pop()
		g.line("}")
		g.declare(gvar{name: name, kind: "fn", ar: ar}) // after the body: no unbounded self-recursion
	case choice < 22: // call statement
		if v, ok := g.pickVar("fn"); ok && g.inFun < 3 {
			g.line(g.callOf(v, 1) + ";")
		} else {
			g.line(Print(g.numExpr(2)))
		}
	case choice < 23 && g.inLoop > 0: // break / continue, guarded
		kw := Break()
		if r.Bool() {
			kw = Continue()
		}
		g.line(K["if"] + " (" + g.condExpr() + ") " + kw)
	default: // container mutation
		if v, ok := g.pickVar("obj"); ok {
			g.line(v.name + "." + []string{"k", "ক", "z"}[r.Intn(3)] + " = " + fmt.Sprint(g.fresh()) + ";")
		} else if v, ok := g.pickVar("arr"); ok {
			g.line(v.name + " = " + BI("append", v.name, fmt.Sprint(g.fresh())) + ";")
		} else {
			g.line(Print(g.strExpr(2)))
		}
	}
}

func (g *PG) setKind(name, kind string) {
	for i := len(g.scopes) - 1; i >= 0; i-- {
		for j := range g.scopes[i] {
			if g.scopes[i][j].name == name {
				g.scopes[i][j].kind = kind
				return
			}
		}
	}
}

func (g *PG) condExpr() string {
	if g.r.Intn(3) == 0 {
		return g.anyExpr(1)
	}
	return g.boolExpr(2)
}

func (g *PG) block(depth, n int) {
	g.push()
	g.indent++
	for i := 0; i < n; i++ {
		g.stmt(depth)
	}
	g.indent--
	g.pop()
}

// Program generates a whole program.
func (g *PG) Program(depth int) string {
	for g.budget > 0 {
		g.stmt(depth)
	}
	return g.b.String()
}

// isLoopVar: generated loop counters (i<N>, w<N>) are never reassigned by
// random statements, so that every generated loop stays bounded.
func isLoopVar(name string) bool {
	if len(name) < 2 || (name[0] != 'i' && name[0] != 'w') {
		return false
	}
	for _, c := range name[1:] {
		if c < '0' || c > '9' {
			return false
		}
	}
	return true
}
