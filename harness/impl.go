package main

// Adapter to the code under test (P-lib observation point): runs the real
// lexer / parser / interpreter in-process exactly as main.run does, with
// os.Stdout / os.Stderr / os.Stdin redirected and the global flags reset.

import (
	"bytes"
	"fmt"
	"os"
	"runtime/debug"
	"strings"
	"sync"

	"github.com/ah-naf/borno/ast"
	"github.com/ah-naf/borno/interpreter"
	"github.com/ah-naf/borno/lexer"
	"github.com/ah-naf/borno/parser"
	"github.com/ah-naf/borno/token"
	"github.com/ah-naf/borno/utils"
	"github.com/ah-naf/borno/vhook"
)

type Obs struct {
	Stdout     string
	Stderr     string
	Exit       int
	Panic      string // recovered Go panic (message + borno frames)
	Budget     string // step budget exhausted: eval / lex / parse
	TimedOut   bool   // wall-clock watchdog (CLI only): inconclusive
	CPUSec     float64 // CLI only: user+system CPU time the child consumed
	Events     []vhook.Event
	Steps      int64
	LexSteps   int64
	ParseSteps int64
	Accepted   bool
	Tokens     []token.Token
	Stmts      []ast.Stmt
	Merged     string // CLI: stdout+stderr on one pipe, when requested
}

// stream is a persistent pipe replacing os.Stdout or os.Stderr, drained by a
// goroutine; sync() waits until everything written so far has been drained.
type stream struct {
	r, w *os.File
	mu   sync.Mutex
	buf  bytes.Buffer
	cond *sync.Cond
	seq  int
}

func newStream() *stream {
	r, w, err := os.Pipe()
	if err != nil {
		panic(err)
	}
	s := &stream{r: r, w: w}
	s.cond = sync.NewCond(&s.mu)
	go func() {
		b := make([]byte, 65536)
		for {
			n, err := r.Read(b)
			if n > 0 {
				s.mu.Lock()
				s.buf.Write(b[:n])
				s.cond.Broadcast()
				s.mu.Unlock()
			}
			if err != nil {
				return
			}
		}
	}()
	return s
}

// take returns everything written since the last take.
func (s *stream) take() string {
	s.seq++
	mark := fmt.Sprintf("\x00<<sync %d>>\x00", s.seq)
	s.w.WriteString(mark)
	s.mu.Lock()
	defer s.mu.Unlock()
	for !bytes.HasSuffix(s.buf.Bytes(), []byte(mark)) {
		s.cond.Wait()
	}
	out := string(s.buf.Bytes()[:s.buf.Len()-len(mark)])
	s.buf.Reset()
	return out
}

var (
	capOut, capErr *stream
	realStdout     = os.Stdout
	realStderr     = os.Stderr
	realStdin      = os.Stdin
	devNull        *os.File
)

func initCapture() {
	if capOut == nil {
		capOut = newStream()
		capErr = newStream()
	}
}

type RunOpts struct {
	Stdin     string
	Repl      bool
	MaxSteps  int64
	Events    string // which hook events to record: "" none, "io" (stdout/diag/call/input), "env", "all"
	TraceStep bool
	KeepAST   bool
	KeepToks  bool
	ParseOnly bool
	LexOnly   bool
}

func bornoFrames(stack string) string {
	var out []string
	lines := strings.Split(stack, "\n")
	for i := 0; i+1 < len(lines); i++ {
		if strings.HasPrefix(lines[i], "github.com/ah-naf/borno/") && !strings.Contains(lines[i], "/vhook.") {
			fn := lines[i]
			if j := strings.Index(fn, "("); j > 0 {
				fn = fn[:j]
			}
			loc := strings.TrimSpace(lines[i+1])
			if j := strings.Index(loc, " +0x"); j > 0 {
				loc = loc[:j]
			}
			if j := strings.LastIndex(loc, "/"); j >= 0 {
				loc = loc[j+1:]
			}
			out = append(out, strings.TrimPrefix(fn, "github.com/ah-naf/borno/")+"@"+loc)
			if len(out) >= 4 {
				break
			}
		}
	}
	return strings.Join(out, " < ")
}

// RunLib executes one source text through the real pipeline, in-process.
func RunLib(src string, o RunOpts) (obs *Obs) {
	initCapture()
	obs = &Obs{}
	utils.HadError = false
	utils.HadRuntimeError = false
	vhook.Reset()
	lexMax := int64(0)
	parseMax := int64(0)
	runes := []rune(src)
	lexMax = 4*int64(len(runes)) + 100
	vhook.SetMaxSteps(o.MaxSteps, lexMax, 0)
	vhook.TraceStep = o.TraceStep
	if o.Events != "" {
		want := o.Events
		vhook.Sink = func(e vhook.Event) {
			switch e.Kind {
			case "stdout", "diag", "call", "input":
				if want == "io" || want == "all" {
					obs.Events = append(obs.Events, e)
				}
			case "step":
				obs.Events = append(obs.Events, e)
			default:
				if want == "env" || want == "all" {
					obs.Events = append(obs.Events, e)
				}
			}
		}
	} else {
		vhook.Sink = nil
	}
	var stdinR *os.File
	if o.Stdin == "" {
		if devNull == nil {
			devNull, _ = os.Open("/dev/null")
		}
		os.Stdin = devNull
	} else {
		r, w, err := os.Pipe()
		if err != nil {
			panic(err)
		}
		if len(o.Stdin) > 60000 {
			panic("stdin too large for pipe buffer")
		}
		w.WriteString(o.Stdin)
		w.Close()
		stdinR = r
		os.Stdin = r
	}
	os.Stdout = capOut.w
	os.Stderr = capErr.w
	func() {
		defer func() {
			if r := recover(); r != nil {
				if b, ok := r.(vhook.Budget); ok {
					obs.Budget = b.What
					return
				}
				obs.Panic = fmt.Sprintf("%v || %s", r, bornoFrames(string(debug.Stack())))
			}
		}()
		sc := lexer.NewScanner(runes)
		toks := sc.ScanTokens()
		if o.KeepToks {
			obs.Tokens = toks
		}
		if o.LexOnly {
			return
		}
		parseMax = 400*int64(len(toks)) + 2000
		vhook.SetMaxSteps(o.MaxSteps, lexMax, parseMax)
		p := parser.NewParser(toks)
		stmts, _ := p.Parse()
		if o.KeepAST {
			obs.Stmts = stmts
		}
		if utils.HadError {
			return
		}
		obs.Accepted = true
		if o.ParseOnly {
			return
		}
		in := interpreter.NewInterpreter()
		in.Interpret(stmts, o.Repl)
	}()
	os.Stdout = realStdout
	os.Stderr = realStderr
	os.Stdin = realStdin
	if stdinR != nil {
		stdinR.Close()
	}
	vhook.Sink = nil
	obs.Stdout = capOut.take()
	obs.Stderr = capErr.take()
	obs.Steps, obs.LexSteps, obs.ParseSteps = vhook.Steps, vhook.LexSteps, vhook.ParseSteps
	switch {
	case obs.Panic != "":
		obs.Exit = 2
	case obs.Budget != "":
		obs.Exit = 97
	case utils.HadError:
		obs.Exit = 65
	case utils.HadRuntimeError:
		obs.Exit = 70
	}
	utils.HadError = false
	utils.HadRuntimeError = false
	return obs
}
