package main

import (
	"fmt"
	"strings"
	"unicode/utf8"

	"verifharness/ref"
)

// Model runs refborno on a source text.
type ModelOut struct {
	Toks    []ref.Token
	LexErrs []ref.LexError
	Prog    []*ref.Node
	SynErr  *ref.SyntaxError
	Res     *ref.Result
}

func splitStdin(stdin string) []string {
	if stdin == "" {
		return nil
	}
	lines := strings.Split(stdin, "\n")
	if lines[len(lines)-1] == "" {
		lines = lines[:len(lines)-1]
	}
	return lines
}

func RunModel(src string, stdin string, repl bool, maxSteps int) *ModelOut {
	m := &ModelOut{}
	m.Toks, m.LexErrs = ref.Lex([]rune(src))
	p := ref.NewParser(m.Toks)
	m.Prog, m.SynErr = p.ParseProgram()
	if len(m.LexErrs) > 0 || m.SynErr != nil {
		return m
	}
	in := &ref.Interp{Stdin: splitStdin(stdin), Repl: repl, MaxSteps: maxSteps}
	if maxSteps >= 1000000 {
		in.MaxDepth = 200000 // callers that budget for long runs also get deep (bounded) recursion
	}
	m.Res = ref.Run(m.Prog, in)
	return m
}

type JudgeOpts struct {
	Events    bool // check the io-event order monitor (needs RunOpts.Events "io")
	SkipDiag  bool // do not compare the diagnostic category (only presence, line, exit)
	CLI       bool // observation came from the CLI (no events, no step counts)
	StrictNFC bool
}

func trunc(s string, n int) string {
	if len(s) > n {
		for n > 0 && !utf8.RuneStart(s[n]) {
			n--
		}
		return s[:n] + "…"
	}
	return s
}

func describeExpected(r *ref.Result) string {
	var b strings.Builder
	for _, p := range r.Out {
		if p.Kind == "prompt" {
			fmt.Fprintf(&b, "prompt %q; ", p.Text)
		} else {
			fmt.Fprintf(&b, "%s %s; ", p.Kind, descPat(p.Pat))
		}
		if b.Len() > 600 {
			b.WriteString("…")
			break
		}
	}
	if r.Fault != nil {
		fmt.Fprintf(&b, "then runtime fault %v at line %d %s, exit 70", r.Fault.Kinds, r.Fault.Line, r.Fault.Name)
	} else {
		b.WriteString("exit 0, empty stderr")
	}
	return b.String()
}

func descPat(p *ref.Pat) string {
	switch p.Kind {
	case "nil":
		return "nil"
	case "bool":
		return fmt.Sprint(p.Bool)
	case "num":
		return fmt.Sprintf("num(%v)", p.Num)
	case "text":
		var b strings.Builder
		b.WriteByte('"')
		for _, g := range p.Segs {
			if g.IsNum {
				fmt.Fprintf(&b, "{num %v}", g.Num)
			} else {
				b.WriteString(g.Text)
			}
		}
		b.WriteByte('"')
		return b.String()
	case "fn":
		return "<function>"
	case "backref":
		return "<back-reference>"
	case "arr", "listing":
		xs := []string{}
		for _, e := range p.Elems {
			xs = append(xs, descPat(e))
		}
		pre := ""
		if p.Kind == "listing" {
			pre = "anyorder"
		}
		return pre + "[" + strings.Join(xs, " ") + "]"
	case "obj":
		xs := []string{}
		for i, e := range p.Elems {
			xs = append(xs, p.Keys[i]+":"+descPat(e))
		}
		return "{" + strings.Join(xs, " ") + "}"
	}
	return "?"
}

func describeObs(o *Obs) string {
	s := fmt.Sprintf("exit=%d stdout=%q stderr=%q", o.Exit, trunc(o.Stdout, 500), trunc(o.Stderr, 300))
	if o.Panic != "" {
		s += " PANIC=" + trunc(o.Panic, 300)
	}
	if o.Budget != "" {
		s += " BUDGET=" + o.Budget
	}
	return s
}

func eventTail(o *Obs) string {
	var b strings.Builder
	ev := o.Events
	if len(ev) > 12 {
		ev = ev[len(ev)-12:]
	}
	for _, e := range ev {
		fmt.Fprintf(&b, "%s/%s/%s/%d ", e.Kind, e.A, e.Name, e.N)
	}
	return b.String()
}

// panicSig gives a stable signature for an abnormal termination.
func panicSig(p string) string {
	if i := strings.Index(p, "||"); i >= 0 {
		msg := strings.TrimSpace(p[:i])
		frames := strings.TrimSpace(p[i+2:])
		if j := strings.Index(frames, " < "); j >= 0 {
			frames = frames[:j]
		}
		if k := strings.Index(frames, "@"); k >= 0 {
			frames = frames[:k]
		}
		// strip variable parts of the message
		if k := strings.Index(msg, " ["); k > 0 && strings.Contains(msg, "index out of range") {
			msg = msg[:k]
		}
		return "panic: " + msg + " in " + frames
	}
	return "panic: " + trunc(p, 80)
}

// CheckAbnormal reports panics / budget exhaustion common to every check.
func CheckAbnormal(c *Ctx, o *Obs) bool {
	if o.Panic != "" {
		c.Violate(Violation{Why: "abnormal termination: host-runtime panic", Observed: describeObs(o), Signature: panicSig(o.Panic)})
		return true
	}
	if o.Budget != "" {
		c.Violate(Violation{Why: "evaluation step budget exhausted (does not finish in bounded time): " + o.Budget, Observed: describeObs(o), Signature: "budget:" + o.Budget})
		return true
	}
	if o.TimedOut {
		c.Inconclusive("wall-clock watchdog fired")
		return true
	}
	return false
}

// CompareModel compares one observation with the model's expectation.
// Returns "" (held), "skip" (out of domain) or "violated".
func CompareModel(c *Ctx, m *ModelOut, o *Obs, jo JudgeOpts) string {
	if CheckAbnormal(c, o) {
		return "violated"
	}
	if m.Res == nil {
		// front-end rejection expected
		if o.Exit != 65 {
			c.Violate(Violation{Why: "model rejects the text (lexical/syntax error) but the run did not exit 65", Observed: describeObs(o), Signature: "frontend-reject-expected"})
			return "violated"
		}
		if o.Stdout != "" {
			c.Violate(Violation{Why: "rejected text produced stdout", Observed: describeObs(o), Signature: "rejected-text-ran"})
			return "violated"
		}
		return ""
	}
	r := m.Res
	if r.OOD != "" {
		c.Count("skipped_out_of_domain", 1)
		c.Count("ood:"+oodClass(r.OOD), 1)
		return "skip"
	}
	exp := describeExpected(r)
	mt, at, why := MatchOutput(o.Stdout, r.Out)
	if why != "" {
		sig := "stdout-mismatch"
		if at >= len(r.Out) {
			sig = "stdout-extra"
			if r.Fault != nil {
				sig = "stdout-after-fault"
			}
		}
		c.Violate(Violation{Why: why, Expected: exp, Observed: describeObs(o), Signature: sig, Events: eventTail(o)})
		return "violated"
	}
	if bad := listingConsistency(mt); bad != "" {
		c.Violate(Violation{Why: bad, Expected: exp, Observed: describeObs(o), Signature: "listing-inconsistent"})
		return "violated"
	}
	diags := ParseDiags(o.Stderr)
	if r.Fault == nil {
		if o.Exit != 0 || len(diags) > 0 || o.Stderr != "" {
			c.Violate(Violation{Why: "program performs no invalid operation but a diagnostic / non-zero exit was observed", Expected: exp, Observed: describeObs(o), Signature: "spurious-error"})
			return "violated"
		}
		return ""
	}
	if o.Exit != 70 {
		c.Violate(Violation{Why: fmt.Sprintf("runtime fault expected (exit 70) but exit status is %d", o.Exit), Expected: exp, Observed: describeObs(o), Signature: fmt.Sprintf("exit-%d-want-70", o.Exit)})
		return "violated"
	}
	if len(diags) == 0 {
		c.Violate(Violation{Why: "runtime fault expected but stderr carries no diagnostic", Expected: exp, Observed: describeObs(o), Signature: "no-diagnostic"})
		return "violated"
	}
	d := diags[0]
	if d.Channel == "static" {
		c.Violate(Violation{Why: "first diagnostic is a lexical/syntax diagnostic, a runtime diagnostic was expected", Expected: exp, Observed: describeObs(o), Signature: "diag-channel"})
		return "violated"
	}
	if d.Line != r.Fault.Line {
		c.Violate(Violation{Why: fmt.Sprintf("first diagnostic names line %d, the invalid operation is on line %d", d.Line, r.Fault.Line), Expected: exp, Observed: describeObs(o), Signature: "diag-line:" + r.Fault.Kinds[0]})
		return "violated"
	}
	if !jo.SkipDiag && !DiagMatches(d, r.Fault) {
		c.Violate(Violation{Why: fmt.Sprintf("first diagnostic %q does not describe the invalid operation (%v %s)", d.Msg, r.Fault.Kinds, r.Fault.Name), Expected: exp, Observed: describeObs(o), Signature: "diag-category:" + r.Fault.Kinds[0]})
		return "violated"
	}
	if jo.Events {
		if bad := afterFaultMonitor(o); bad != "" {
			c.Violate(Violation{Why: bad, Expected: exp, Observed: describeObs(o), Signature: "event-after-fault", Events: eventTail(o)})
			return "violated"
		}
	}
	c.Count("fault:"+r.Fault.Kinds[0], 1)
	return ""
}

func oodClass(s string) string {
	if i := strings.IndexAny(s, "0123456789\"("); i > 0 {
		s = s[:i]
	}
	return strings.TrimSpace(s)
}

// afterFaultMonitor: X-never-after-Y on the hook event order: after the first
// runtime diagnostic no stdout write, no built-in invocation, no input read.
func afterFaultMonitor(o *Obs) string {
	seen := false
	for _, e := range o.Events {
		switch e.Kind {
		case "diag":
			if e.A == "runtime" {
				seen = true
			}
		case "stdout":
			if seen {
				return "stdout write (" + e.A + ") after the first runtime diagnostic"
			}
		case "input":
			if seen {
				return "stdin read after the first runtime diagnostic"
			}
		case "call":
			if seen && strings.Contains(e.A, "Native") {
				return "built-in " + e.Name + " invoked after the first runtime diagnostic"
			}
		}
	}
	return ""
}

// listingConsistency: all listings of one object version must agree in order
// (keys with keys, values with values, and keys with values position-wise).
func listingConsistency(m *Matcher) string {
	if m == nil {
		return ""
	}
	type key struct {
		o *ref.Obj
		v int
	}
	first := map[key][]int{}
	for _, l := range m.Listings {
		if l.L == nil || l.L.Obj == nil {
			continue
		}
		k := key{l.L.Obj, l.L.Version}
		if prev, ok := first[k]; ok {
			for i := range prev {
				// the earlier order, applied to this listing's entries, must give the same text
				if i >= len(l.Order) || l.Descs[prev[i]] != l.Descs[l.Order[i]] {
					return fmt.Sprintf("key/value listings of one unmodified object disagree in order: %v vs %v (indexes into the object's entries)", prev, l.Order)
				}
			}
		} else {
			first[k] = l.Order
		}
	}
	return ""
}
