package main

import (
	"encoding/json"
	"flag"
	"fmt"
	"os"
	"os/exec"
	"path/filepath"
	"runtime"
	"sort"
	"strconv"
	"strings"
	"sync"
	"time"
)

type CheckDef struct {
	ID          string
	Rule        string // how cases are generated and what makes one non-trivial
	Assumptions []string
	Run         func(c *Ctx)
	Judge       func(c *Ctx, cs *Case) // re-judges a single case (replay)
	// MustCount lists counters that must be non-zero, otherwise the run is inconclusive.
	MustCount  func(c *Ctx) []string
	Exhaustive func(tier string) bool
}

var registry = map[string]*CheckDef{}

func register(d *CheckDef) { registry[d.ID] = d }

func envOr(k, d string) string {
	if v := os.Getenv(k); v != "" {
		return v
	}
	return d
}

func main() {
	if len(os.Args) < 3 {
		fmt.Fprintln(os.Stderr, "usage: vharness check|worker|selftest <ID> [flags]")
		os.Exit(2)
	}
	mode, id := os.Args[1], os.Args[2]
	fs := flag.NewFlagSet("vharness", flag.ExitOnError)
	tier := fs.String("tier", envOr("VERIF_TIER", "quick"), "quick|thorough")
	seedS := fs.String("seed", envOr("VERIF_SEED", "1"), "seed")
	shard := fs.Int("shard", 0, "")
	nshards := fs.Int("nshards", 1, "")
	scratch := fs.String("scratch", "", "")
	resume := fs.Int64("resume", -1, "")
	replay := fs.String("replay", "", "replay file")
	workers := fs.Int("workers", 0, "")
	fs.Parse(os.Args[3:])
	seed, _ := strconv.ParseInt(*seedS, 10, 64)
	if *tier != "thorough" {
		*tier = "quick"
	}
	if mode == "selftest" {
		os.Exit(selftest())
	}
	if mode == "fuzzcase" {
		// converts a Go fuzz crasher file into a replay file for C07 and prints the VIOLATION line
		b, err := os.ReadFile(id)
		if err != nil {
			fmt.Fprintln(os.Stderr, err)
			os.Exit(2)
		}
		src := ""
		for _, ln := range strings.Split(string(b), "\n") {
			if strings.HasPrefix(ln, "string(") && strings.HasSuffix(ln, ")") {
				if s, err := strconv.Unquote(ln[len("string(") : len(ln)-1]); err == nil {
					src = s
				}
			}
		}
		v := Violation{Property: "C07", Case: Case{Gen: "coverage-guided-fuzz", Src: src}, Why: "coverage-guided fuzzing found a valid program that makes the interpreter panic", Signature: "fuzz-crash"}
		path := writeReplay(envOr("VERIF_DIR", "/verif"), v)
		fmt.Printf("VIOLATION property=C07 replay=%s\n  source: %s\n", path, trunc(strings.ReplaceAll(src, "\n", "⏎"), 300))
		os.Exit(1)
	}
	def, ok := registry[id]
	if !ok {
		fmt.Fprintf(os.Stderr, "unknown check %q\n", id)
		os.Exit(2)
	}
	switch mode {
	case "worker":
		c := NewCtx()
		c.Prop, c.Tier, c.Seed, c.Shard, c.NShards, c.Scratch, c.Resume = id, *tier, seed, *shard, *nshards, *scratch, *resume
		c.Bin, c.BinVerif, c.Repo = os.Getenv("BORNO_BIN"), os.Getenv("BORNO_VERIF_BIN"), envOr("VERIF_REPO", "/repo")
		jf, err := os.OpenFile(filepath.Join(*scratch, fmt.Sprintf("journal.%d", *shard)), os.O_CREATE|os.O_RDWR|os.O_TRUNC, 0o644)
		if err == nil {
			c.journal = jf
		}
		def.Run(c)
		res := c.Finish()
		b, _ := json.Marshal(res)
		if err := os.WriteFile(filepath.Join(*scratch, fmt.Sprintf("result.%d.json", *shard)), b, 0o644); err != nil {
			fmt.Fprintln(os.Stderr, err)
			os.Exit(3)
		}
		os.Exit(0)
	case "check":
		if *replay != "" {
			os.Exit(runReplay(def, *replay, *tier, seed, *scratch))
		}
		os.Exit(runParent(def, *tier, seed, *scratch, *workers))
	}
	os.Exit(2)
}

func runReplay(def *CheckDef, path, tier string, seed int64, scratch string) int {
	b, err := os.ReadFile(path)
	if err != nil {
		fmt.Fprintln(os.Stderr, err)
		return 2
	}
	var v Violation
	if err := json.Unmarshal(b, &v); err != nil {
		fmt.Fprintln(os.Stderr, err)
		return 2
	}
	c := NewCtx()
	c.Prop, c.Tier, c.Seed, c.NShards, c.Scratch, c.ReplayMode = def.ID, tier, seed, 1, scratch, true
	c.Bin, c.BinVerif, c.Repo = os.Getenv("BORNO_BIN"), os.Getenv("BORNO_VERIF_BIN"), envOr("VERIF_REPO", "/repo")
	cs := v.Case
	c.idx = cs.Idx
	c.Begin(&cs)
	def.Judge(c, &cs)
	if len(c.res.Violations) > 0 {
		for _, vv := range c.res.Violations {
			fmt.Printf("VIOLATION property=%s replay=%s\n  why: %s\n  expected: %s\n  observed: %s\n", def.ID, path, vv.Why, vv.Expected, vv.Observed)
		}
		return 1
	}
	fmt.Printf("replay %s: property held on this case\n", path)
	return 0
}

func runParent(def *CheckDef, tier string, seed int64, scratch string, nw int) int {
	start := time.Now()
	verifDir := envOr("VERIF_DIR", "/verif")
	if nw <= 0 {
		nw = runtime.NumCPU()
		if nw > 16 {
			nw = 16
		}
	}
	self, _ := os.Executable()
	limit := 12 * time.Minute
	cpuBudget := int64(100)
	if tier == "thorough" {
		limit = 90 * time.Minute
		cpuBudget = 900
	}
	type wstate struct {
		res      WorkerResult
		crashes  []Violation
		timedOut bool
		broken   string
		notes    []string
	}
	states := make([]wstate, nw)
	var wg sync.WaitGroup
	for k := 0; k < nw; k++ {
		wg.Add(1)
		go func(k int) {
			defer wg.Done()
			st := &states[k]
			cpuKills := 0
			killedNoBanner := 0
			_ = killedNoBanner
			resume := int64(-1)
			deadline := time.Now().Add(limit)
			for attempt := 0; attempt < 40; attempt++ {
				resFile := filepath.Join(scratch, fmt.Sprintf("result.%d.json", k))
				os.Remove(resFile)
				logPath := filepath.Join(scratch, fmt.Sprintf("worker.%d.log", k))
				lf, _ := os.Create(logPath)
				cmd := exec.Command(self, "worker", def.ID, "--tier", tier, "--seed", fmt.Sprint(seed), "--shard", fmt.Sprint(k), "--nshards", fmt.Sprint(nw), "--scratch", scratch, "--resume", fmt.Sprint(resume))
				cmd.Stdout = lf
				cmd.Stderr = lf
				cmd.Env = append(os.Environ(), "GOTRACEBACK=single")
				if err := cmd.Start(); err != nil {
					st.broken = err.Error()
					return
				}
				done := make(chan error, 1)
				go func() { done <- cmd.Wait() }()
				var werr error
				// CPU-time watchdog per case: a loop in the code under test that never reaches a hook cannot be
				// stopped by the step budgets; if the worker burns cpuBudget seconds of its own CPU time on one
				// journalled case (load-independent, unlike wall clock) it is killed and that case is reported
				cpuKilled := false
				lastIdx, cpuAtStart := int64(-2), int64(0)
				tick := time.NewTicker(2 * time.Second)
			waitLoop:
				for {
					select {
					case werr = <-done:
						break waitLoop
					case <-time.After(time.Until(deadline)):
						cmd.Process.Kill()
						<-done
						st.timedOut = true
						lf.Close()
						tick.Stop()
						return
					case <-tick.C:
						cpu := procCPUSeconds(cmd.Process.Pid)
						var jc Case
						if jb, err := os.ReadFile(filepath.Join(scratch, fmt.Sprintf("journal.%d", k))); err == nil && json.Unmarshal(jb, &jc) == nil {
							if jc.Idx != lastIdx {
								lastIdx, cpuAtStart = jc.Idx, cpu
							} else if cpu >= 0 && cpu-cpuAtStart > cpuBudget {
								cpuKilled = true
								cmd.Process.Kill()
							}
						}
					}
				}
				tick.Stop()
				lf.Close()
				if b, err := os.ReadFile(resFile); err == nil && werr == nil {
					var r WorkerResult
					if json.Unmarshal(b, &r) == nil && r.Done {
						// merge with what earlier attempts of this shard could not report (nothing)
						st.res = r
						return
					}
				}
				// abnormal worker death: attribute to the journalled case
				jb, _ := os.ReadFile(filepath.Join(scratch, fmt.Sprintf("journal.%d", k)))
				var cs Case
				if json.Unmarshal(jb, &cs) != nil {
					lb, _ := os.ReadFile(logPath)
					st.broken = "worker died before journalling a case: " + trunc(string(lb), 2000)
					return
				}
				lb, _ := os.ReadFile(logPath)
				logs := string(lb)
				if harnessFault(logs) {
					st.broken = "harness fault (not attributed to the code under test): " + trunc(logs, 1500)
					return
				}
				sig := "worker-death"
				for _, ln := range strings.Split(logs, "\n") {
					if strings.HasPrefix(ln, "fatal error:") || strings.HasPrefix(ln, "panic:") {
						sig = "worker-death: " + trunc(ln, 100)
						break
					}
				}
				if cpuKilled {
					cpuKills++
					st.crashes = append(st.crashes, Violation{Property: def.ID, Case: cs, Why: fmt.Sprintf("no termination: the interpreter used more than %d s of CPU time on this one case without reaching any step budget (a loop that makes no progress)", cpuBudget), Observed: trunc(logs, 600), Signature: "no-termination:cpu-budget"})
				} else if sig == "worker-death" {
					// no Go panic / fatal-error banner: the worker was killed from outside
					// (memory pressure, watchdog) — a resource matter, never a violation
					st.notes = append(st.notes, fmt.Sprintf("worker of shard %d was killed without a Go failure banner while running case #%d (%s); skipped", k, cs.Idx, cs.Gen))
					killedNoBanner++
				} else {
					st.crashes = append(st.crashes, Violation{Property: def.ID, Case: cs, Why: "interpreter killed the process (unrecoverable host-runtime failure)", Observed: trunc(logs, 1500), Signature: sig})
				}
				resume = cs.Idx
				if cpuKills >= 2 {
					st.notes = append(st.notes, fmt.Sprintf("shard %d stopped after two cases exhausted the CPU budget", k))
					return
				}
			}
			st.broken = "worker restarted too many times"
		}(k)
	}
	wg.Wait()

	// aggregate
	counters := map[string]int64{}
	distinct := map[uint64]struct{}{}
	var samples []interface{}
	var violations []Violation
	inconclusive := []string{}
	var evals int64
	for k := range states {
		st := &states[k]
		if st.broken != "" {
			inconclusive = append(inconclusive, fmt.Sprintf("shard %d broken: %s", k, st.broken))
		}
		if st.timedOut {
			inconclusive = append(inconclusive, fmt.Sprintf("shard %d hit the wall-clock watchdog", k))
		}
		evals += st.res.Evaluations
		for key, v := range st.res.Counters {
			counters[key] += v
		}
		for _, h := range st.res.Distinct {
			distinct[h] = struct{}{}
		}
		if len(samples) < 12 {
			samples = append(samples, st.res.Samples...)
		}
		violations = append(violations, st.res.Violations...)
		violations = append(violations, st.crashes...)
		inconclusive = append(inconclusive, st.res.Inconclusive...)
		inconclusive = append(inconclusive, st.notes...)
		if len(st.crashes) > 0 {
			counters["worker_restarts"] += int64(len(st.crashes))
		}
	}
	if len(samples) > 12 {
		samples = samples[:12]
	}
	// mandatory coverage counters
	if def.MustCount != nil {
		c := NewCtx()
		c.Tier = tier
		for _, key := range def.MustCount(c) {
			if counters[key] == 0 {
				inconclusive = append(inconclusive, "mandatory coverage counter is zero: "+key)
			}
		}
	}
	if evals == 0 {
		inconclusive = append(inconclusive, "the run observed nothing")
	}
	if sk := counters["skipped_out_of_domain"]; evals > 0 && sk*2 > evals {
		inconclusive = append(inconclusive, fmt.Sprintf("more than half of the cases were out of domain (%d of %d)", sk, evals))
	}

	// known findings and violation lines
	findings := loadFindings(verifDir)
	sort.SliceStable(violations, func(i, j int) bool { return violations[i].Signature < violations[j].Signature })
	newV := 0
	printedKnown := map[string]bool{}
	printed := 0
	perSig := map[string]int{}
	for _, v := range violations {
		if k := findings.match(v); k != nil {
			if !printedKnown[k.What] {
				fmt.Printf("KNOWN-FINDING: property=%s %s\n", def.ID, k.What)
				printedKnown[k.What] = true
			}
			continue
		}
		newV++
		perSig[v.Signature]++
		if perSig[v.Signature] > 2 || printed >= 30 {
			continue
		}
		printed++
		path := writeReplay(verifDir, v)
		fmt.Printf("VIOLATION property=%s replay=%s\n", def.ID, path)
		fmt.Printf("  signature: %s\n  why: %s\n  source: %s\n", v.Signature, trunc(v.Why, 400), trunc(strings.ReplaceAll(v.Case.Src, "\n", "⏎"), 300))
		if v.Expected != "" {
			fmt.Printf("  expected: %s\n", trunc(v.Expected, 300))
		}
		if v.Observed != "" {
			fmt.Printf("  observed: %s\n", trunc(v.Observed, 400))
		}
	}
	totalViol := counters["violations"] + counters["worker_restarts"]
	verdict := "held"
	code := 0
	if newV > 0 {
		verdict, code = "violated", 1
	} else if len(inconclusive) > 0 {
		verdict, code = "inconclusive", 2
	}
	exh := false
	if def.Exhaustive != nil {
		exh = def.Exhaustive(tier)
	}
	cov := map[string]interface{}{
		"evaluations":           evals,
		"distinct_nontrivial":   len(distinct),
		"rule":                  def.Rule,
		"samples":               samples,
		"observed":              sortedCounters(counters),
		"exhaustive":            exh,
		"skipped_out_of_domain": counters["skipped_out_of_domain"],
		"inconclusive_cases":    inconclusive,
		"workers":               nw,
	}
	if fs := os.Getenv("VERIF_FUZZ_SUMMARY"); fs != "" {
		var v interface{}
		if json.Unmarshal([]byte(fs), &v) == nil {
			cov["coverage_guided_fuzzing"] = v
		}
	}
	if rs := os.Getenv("VERIF_RACE_SUMMARY"); rs != "" {
		var v interface{}
		if json.Unmarshal([]byte(rs), &v) == nil {
			cov["race_detector_tripwire"] = v
		}
	}
	ev := Evidence{PropertyID: def.ID, Tier: tier, Seed: seed, Level: "exploration", Coverage: cov,
		Assumptions: def.Assumptions, WallS: time.Since(start).Seconds(), Violations: int(totalViol), Verdict: verdict}
	if newV == 0 && totalViol > 0 {
		ev.Violations = 0
		cov["known_finding_hits"] = totalViol
	}
	os.MkdirAll(filepath.Join(verifDir, "evidence"), 0o755)
	b, _ := json.MarshalIndent(ev, "", " ")
	os.WriteFile(filepath.Join(verifDir, "evidence", def.ID+".json"), b, 0o644)
	fmt.Printf("%s tier=%s seed=%d: %s — %d evaluations, %d distinct non-trivial, %d skipped out of domain, %d violation(s) (%d not in known findings), %.1fs\n",
		def.ID, tier, seed, verdict, evals, len(distinct), counters["skipped_out_of_domain"], totalViol, newV, time.Since(start).Seconds())
	for _, s := range inconclusive {
		fmt.Printf("INCONCLUSIVE: %s\n", trunc(s, 300))
	}
	return code
}

// harnessFault: did the worker die in harness code rather than in the code under test?
func harnessFault(logs string) bool {
	i := strings.Index(logs, "goroutine ")
	if i < 0 {
		return false
	}
	for _, ln := range strings.Split(logs[i:], "\n")[1:] {
		ln = strings.TrimSpace(ln)
		if ln == "" || strings.HasPrefix(ln, "/") || strings.HasPrefix(ln, "panic(") || strings.HasPrefix(ln, "runtime.") || strings.HasPrefix(ln, "[") {
			continue
		}
		return strings.HasPrefix(ln, "main.") || strings.HasPrefix(ln, "verifharness/")
	}
	return false
}


// procCPUSeconds: user+system CPU time consumed so far by the process itself (not its children), or -1.
func procCPUSeconds(pid int) int64 {
	b, err := os.ReadFile(fmt.Sprintf("/proc/%d/stat", pid))
	if err != nil {
		return -1
	}
	str := string(b)
	i := strings.LastIndex(str, ")")
	if i < 0 {
		return -1
	}
	f := strings.Fields(str[i+1:])
	if len(f) < 14 {
		return -1
	}
	var ut, stt int64
	fmt.Sscan(f[11], &ut)
	fmt.Sscan(f[12], &stt)
	return (ut + stt) / 100
}
