package main

// Observation equivalence: matching real stdout against the model's expected
// pieces, exactly as strict as the property statements (DESIGN §2.6).

import (
	"fmt"
	"math"
	"regexp"
	"strconv"
	"strings"
	"unicode/utf8"

	"golang.org/x/text/unicode/norm"

	"verifharness/ref"
)

type NumObs struct {
	Text string
	Want float64
}

type ListObs struct {
	L     *ref.Listing
	Order []int // observed order as indexes into the model's element list
	Descs []string
}

type Matcher struct {
	s        string
	pos      int
	Numerals []NumObs
	Listings []ListObs
	why      string
}

var numeralRe = regexp.MustCompile(`^[+-]?(Inf|NaN|[0-9]+(\.[0-9]+)?([eE][+-]?[0-9]+)?)`)

func sameFloat(a, b float64) bool {
	if math.IsNaN(a) || math.IsNaN(b) {
		return math.IsNaN(a) && math.IsNaN(b)
	}
	return math.Float64bits(a) == math.Float64bits(b)
}

func (m *Matcher) fail(format string, a ...interface{}) bool {
	if m.why == "" {
		rest := m.s[m.pos:]
		if len(rest) > 60 {
			rest = rest[:60] + "…"
		}
		m.why = fmt.Sprintf(format, a...) + fmt.Sprintf(" at offset %d, actual continues %q", m.pos, rest)
	}
	return false
}

func (m *Matcher) lit(t string) bool {
	if strings.HasPrefix(m.s[m.pos:], t) {
		m.pos += len(t)
		return true
	}
	return false
}

// numCandidates lists the lengths of the prefixes at the current position
// that are numerals denoting want, longest first.
func (m *Matcher) numCandidates(want float64) []int {
	greedy := numeralRe.FindString(m.s[m.pos:])
	var out []int
	for l := len(greedy); l >= 1; l-- {
		loc := greedy[:l]
		if numeralRe.FindString(loc) != loc {
			continue
		}
		got, err := strconv.ParseFloat(loc, 64)
		if err != nil {
			continue
		}
		if sameFloat(got, want) {
			out = append(out, l)
		}
	}
	return out
}

func (m *Matcher) num(want float64) bool {
	c := m.numCandidates(want)
	if len(c) == 0 {
		greedy := numeralRe.FindString(m.s[m.pos:])
		if greedy == "" {
			return m.fail("expected a numeral denoting %v", want)
		}
		got, _ := strconv.ParseFloat(greedy, 64)
		return m.fail("numeral %q denotes %v, expected %v (bits %x)", greedy, got, want, math.Float64bits(want))
	}
	m.Numerals = append(m.Numerals, NumObs{m.s[m.pos : m.pos+c[0]], want})
	m.pos += c[0]
	return true
}

// segs matches text with embedded open numerals; a numeral directly followed
// by expected text starting with digits is ambiguous ("25.75"+"0"), so the
// numeral candidates are tried longest first with backtracking.
func (m *Matcher) segs(segs []ref.Seg) bool {
	if len(segs) == 0 {
		return true
	}
	g := segs[0]
	if !g.IsNum {
		t := norm.NFC.String(g.Text)
		if !m.lit(t) {
			return m.fail("expected text %q", t)
		}
		return m.segs(segs[1:])
	}
	cands := m.numCandidates(g.Num)
	if len(cands) == 0 {
		return m.num(g.Num) // records the failure reason
	}
	save, saveN, saveWhy := m.pos, len(m.Numerals), m.why
	for _, l := range cands {
		m.pos = save + l
		m.Numerals = append(m.Numerals[:saveN], NumObs{m.s[save : save+l], g.Num})
		m.why = saveWhy
		if m.segs(segs[1:]) {
			return true
		}
	}
	why := m.why
	m.pos, m.Numerals = save, m.Numerals[:saveN]
	m.why = why
	return false
}

func (m *Matcher) pat(p *ref.Pat, top bool) bool {
	switch p.Kind {
	case "nil":
		if m.lit("nil") {
			return true
		}
		if !top && m.lit("<nil>") {
			return true
		}
		return m.fail("expected nil")
	case "bool":
		if p.Bool && m.lit("true") || !p.Bool && m.lit("false") {
			return true
		}
		return m.fail("expected %v", p.Bool)
	case "num":
		return m.num(p.Num)
	case "text":
		return m.segs(p.Segs)
	case "backref":
		for _, mark := range []string{"[...]", "map[...]", "{...}", "<...>", "...", "<cycle>", "<circular>", "<recursive>"} {
			if m.lit(mark) {
				return true
			}
		}
		return m.fail("expected a back-reference marker for a self-containing value")
	case "fn":
		if !m.lit("<") {
			return m.fail("expected a function value rendering <...>")
		}
		i := strings.IndexAny(m.s[m.pos:], ">\n")
		if i < 0 || m.s[m.pos+i] != '>' {
			return m.fail("unterminated function value rendering")
		}
		m.pos += i + 1
		return true
	case "arr":
		if !m.lit("[") {
			return m.fail("expected '[' opening an array")
		}
		for i, e := range p.Elems {
			if i > 0 && !m.sep() {
				return m.fail("expected element separator")
			}
			if !m.pat(e, false) {
				return false
			}
		}
		if !m.lit("]") {
			return m.fail("expected ']' closing an array of %d elements", len(p.Elems))
		}
		return true
	case "obj":
		closer := "]"
		if m.lit("map[") {
		} else if m.lit("{") {
			closer = "}"
		} else {
			return m.fail("expected an object rendering")
		}
		used := make([]bool, len(p.Keys))
		for n := 0; n < len(p.Keys); n++ {
			if n > 0 && !m.sep() {
				return m.fail("expected property separator (object shows %d of %d properties)", n, len(p.Keys))
			}
			best := -1
			for i, k := range p.Keys {
				if used[i] {
					continue
				}
				nk := norm.NFC.String(k)
				if strings.HasPrefix(m.s[m.pos:], nk+":") && (best < 0 || len(nk) > len(norm.NFC.String(p.Keys[best]))) {
					best = i
				}
			}
			if best < 0 {
				return m.fail("expected one of the remaining property keys")
			}
			used[best] = true
			m.pos += len(norm.NFC.String(p.Keys[best])) + 1
			// "key:value" or "key: value"; an empty string value makes the
			// optional blank ambiguous with the property separator
			save, saveN, saveWhy := m.pos, len(m.Numerals), m.why
			ok := m.pat(p.Elems[best], false)
			if ok {
				rest := m.s[m.pos:]
				last := n == len(p.Keys)-1
				if (last && !strings.HasPrefix(rest, closer)) || (!last && !strings.HasPrefix(rest, " ") && !strings.HasPrefix(rest, ",")) {
					ok = false
				}
			}
			if !ok {
				m.pos, m.Numerals, m.why = save, m.Numerals[:saveN], saveWhy
				if !m.lit(" ") || !m.pat(p.Elems[best], false) {
					return false
				}
			}
		}
		if !m.lit(closer) {
			return m.fail("expected %q closing an object of %d properties", closer, len(p.Keys))
		}
		return true
	case "listing":
		if !m.lit("[") {
			return m.fail("expected '[' opening a listing")
		}
		order, ok := m.perm(p.Elems, make([]bool, len(p.Elems)), nil)
		if !ok {
			return m.fail("listing is not a permutation of the object's %d current entries", len(p.Elems))
		}
		if !m.lit("]") {
			return m.fail("expected ']' closing a listing")
		}
		descs := make([]string, len(p.Elems))
		for i, e := range p.Elems {
			descs[i] = descPat(e)
		}
		m.Listings = append(m.Listings, ListObs{p.Listing, order, descs})
		return true
	}
	return m.fail("unknown pattern kind %s", p.Kind)
}

// perm matches the remaining elements in any order (depth-first).
func (m *Matcher) perm(elems []*ref.Pat, used []bool, order []int) ([]int, bool) {
	if len(order) == len(elems) {
		if !strings.HasPrefix(m.s[m.pos:], "]") {
			return nil, false
		}
		return order, true
	}
	save := m.pos
	saveN := len(m.Numerals)
	saveWhy := m.why
	if len(order) > 0 && !m.sep() {
		return nil, false
	}
	afterSep := m.pos
	for i, e := range elems {
		if used[i] {
			continue
		}
		m.pos = afterSep
		m.why = saveWhy
		if m.pat(e, false) {
			// element texts must be followed by a separator or the closer
			used[i] = true
			if o, ok := m.perm(elems, used, append(order, i)); ok {
				return o, true
			}
			used[i] = false
		}
		m.Numerals = m.Numerals[:saveN]
	}
	m.pos = save
	m.why = saveWhy
	return nil, false
}

func (m *Matcher) sep() bool {
	return m.lit(", ") || m.lit(",") || m.lit(" ")
}

// MatchOutput matches the whole stdout against the expected pieces.
// When partial is true the expected pieces may be only a prefix requirement:
// everything in stdout must still be consumed.
func MatchOutput(stdout string, pieces []ref.Piece) (*Matcher, int, string) {
	if !utf8.ValidString(stdout) {
		return nil, 0, "stdout is not valid UTF-8"
	}
	m := &Matcher{s: norm.NFC.String(stdout)}
	for i, pc := range pieces {
		switch pc.Kind {
		case "print", "echo":
			if !m.pat(pc.Pat, true) {
				return m, i, fmt.Sprintf("output piece %d (%s from line %d): %s", i, pc.Kind, pc.Line, m.why)
			}
			if !m.lit("\n") {
				m.fail("expected exactly one newline after the printed value")
				return m, i, fmt.Sprintf("output piece %d (%s from line %d): %s", i, pc.Kind, pc.Line, m.why)
			}
		case "prompt":
			if !m.lit(norm.NFC.String(pc.Text)) {
				m.fail("expected prompt %q", pc.Text)
				return m, i, fmt.Sprintf("output piece %d (prompt from line %d): %s", i, pc.Line, m.why)
			}
		}
	}
	if m.pos != len(m.s) {
		m.fail("unexpected extra output after the %d expected pieces", len(pieces))
		return m, len(pieces), m.why
	}
	return m, len(pieces), ""
}

// ---------------------------------------------------------------------------
// Diagnostics

type Diag struct {
	Channel string // static / runtime
	Line    int
	Msg     string
	Raw     string
}

var (
	staticRe  = regexp.MustCompile(`^\[line (-?\d+)\] Error(.*)$`)
	rtLineRe  = regexp.MustCompile(`^\[line (-?\d+)\]$`)
	anyLineRe = regexp.MustCompile(`\[?[Ll]ine:? (-?\d+)\]?`)
)

// ParseDiags splits stderr into diagnostic records.
func ParseDiags(stderr string) []Diag {
	var out []Diag
	lines := strings.Split(strings.TrimRight(stderr, "\n"), "\n")
	if len(lines) == 1 && lines[0] == "" {
		return nil
	}
	for i := 0; i < len(lines); i++ {
		ln := lines[i]
		if mm := staticRe.FindStringSubmatch(ln); mm != nil {
			n, _ := strconv.Atoi(mm[1])
			out = append(out, Diag{"static", n, mm[2], ln})
			continue
		}
		// runtime: message line(s) followed by [line N]
		j := i
		for j < len(lines) && j < i+4 && !rtLineRe.MatchString(lines[j]) && !staticRe.MatchString(lines[j]) {
			j++
		}
		if j < len(lines) && j > i && rtLineRe.MatchString(lines[j]) {
			n, _ := strconv.Atoi(rtLineRe.FindStringSubmatch(lines[j])[1])
			out = append(out, Diag{"runtime", n, strings.Join(lines[i:j], "\n"), strings.Join(lines[i:j+1], "\n")})
			i = j
			continue
		}
		// a static diagnostic quoting a multi-line lexeme continues on this line
		if len(out) > 0 && out[len(out)-1].Channel == "static" && strings.Count(out[len(out)-1].Raw, "'")%2 == 1 {
			out[len(out)-1].Raw += "\n" + ln
			out[len(out)-1].Msg += "\n" + ln
			continue
		}
		// unknown shape: keep it, try to find a line number inside
		d := Diag{"unknown", -1, ln, ln}
		if mm := anyLineRe.FindStringSubmatch(ln); mm != nil {
			d.Line, _ = strconv.Atoi(mm[1])
		}
		out = append(out, d)
	}
	return out
}

type catRule struct {
	must    *regexp.Regexp
	mustNot *regexp.Regexp
	name    bool
}

func cr(must, mustNot string, name bool) catRule {
	r := catRule{must: regexp.MustCompile("(?i)" + must), name: name}
	if mustNot != "" {
		r.mustNot = regexp.MustCompile("(?i)" + mustNot)
	}
	return r
}

var catRules = map[string]catRule{
	"UndefinedName":   cr(`not defined|undefined|undeclared|unknown (variable|name|identifier)|no such variable`, `redeclare|property`, true),
	"Redeclare":       cr(`redeclar|already (defined|declared|exists)|redefin|duplicate`, ``, true),
	"TypeMismatch":    cr(`must be|expected|operand|cannot|unsupported|invalid (operand|type)|type`, `zero|not defined|undefined|bounds|argument`, false),
	"ZeroDivisor":     cr(`zero`, ``, false),
	"NegativeShift":   cr(`negative|shift`, `zero`, false),
	"BadIndex":        cr(`index|bounds|out of range`, `not an array|argument|zero`, false),
	"NotAnArray":      cr(`array`, `bounds|must be an integer|out of range|zero`, false),
	"MissingProperty": cr(`does not exist|not found|no such|missing|has no|undefined property|unknown property`, `not an object`, true),
	"NotAnObject":     cr(`object`, `does not exist|not found`, false),
	"NotCallable":     cr(`call`, `argument|failed`, false),
	"Arity":           cr(`argument|arity|parameter`, `must be a|only works`, false),
	"BuiltinFailure":  cr(`fail|expects|only works|must be|argument|not found|index|invalid|cannot`, `zero|not defined`, false),
	"StrayBreak":      cr(`break`, ``, false),
	"StrayContinue":   cr(`continue`, ``, false),
	"StrayReturn":     cr(`return`, ``, false),
}

// DiagMatches: does the message fit one of the acceptable categories?
func DiagMatches(d Diag, f *ref.Fault) bool {
	for _, k := range f.Kinds {
		r, ok := catRules[k]
		if !ok {
			continue
		}
		if !r.must.MatchString(d.Msg) {
			continue
		}
		if r.mustNot != nil && r.mustNot.MatchString(d.Msg) {
			continue
		}
		if r.name && f.Name != "" && !strings.Contains(norm.NFC.String(d.Msg), norm.NFC.String(f.Name)) {
			continue
		}
		return true
	}
	return false
}

var quotedRe = regexp.MustCompile(`'[^'\n]*'`)
var lineTagRe = regexp.MustCompile(`\[line -?\d+\]`)

// NormDiag normalises a diagnostic for metamorphic comparison: line numbers
// removed, quoted renderings removed.
func NormDiag(d Diag, dropQuoted bool) string {
	s := d.Channel + "|" + lineTagRe.ReplaceAllString(d.Msg, "")
	if dropQuoted {
		s = quotedRe.ReplaceAllString(s, "'…'")
	}
	return s
}
