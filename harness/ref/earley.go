package ref

import (
	"strings"
)

// The published grammar (grammer.txt / README "Core Grammar") as data, with
// exactly the amendments property C08 states:
//   - call rule = any chain of ( ), [ ] and .name suffixes;
//   - a '{' at the start of a statement opens a block (the *N non-terminals
//     are the "no leading brace" copies of the expression ladder);
//   - assignment target = identifier, or a suffix chain ending in [ ] / .name;
//   - built-in names (terminal RIDENT) are barred as declared variable or
//     function names, allowed everywhere else an identifier may appear;
//   - the 255-parameter limit is a side condition checked outside the grammar.
//
// Terminals are token kinds; everything that appears on a left side is a
// non-terminal.  "name" is IDENT | RIDENT.
const grammarText = `
program   : decls EOF
decls     : | decls decl
decl      : funDecl | varDecl | stmt
funDecl   : fun IDENT ( ) block | fun IDENT ( params ) block
params    : name | params , name
varDecl   : var vars ;
vars      : variable | vars , variable
variable  : IDENT | IDENT = expr
stmt      : exprStmtN | ifStmt | whileStmt | forStmt | printStmt | block | break ; | continue ; | return ; | return expr ;
exprStmtN : exprN ;
exprStmt  : expr ;
ifStmt    : if ( expr ) stmt | if ( expr ) stmt else stmt
whileStmt : while ( expr ) stmt
forStmt   : for ( forInit forCond ; forInc ) stmt
forInit   : varDecl | exprStmt | ;
forCond   : | expr
forInc    : | expr
printStmt : print expr ;
block     : { decls }
expr      : assign
assign    : target = assign | L1 @RELAXED L1 = assign
L1        : L1 || L2 | L2
L2        : L2 && L3 | L3
L3        : L3 PIPE L4 | L4
L4        : L4 ^ L5 | L5
L5        : L5 & L6 | L6
L6        : L6 == L7 | L6 != L7 | L7
L7        : L7 < L8 | L7 <= L8 | L7 > L8 | L7 >= L8 | L8
L8        : L8 << L9 | L8 >> L9 | L9
L9        : L9 + L10 | L9 - L10 | L10
L10       : L10 * L11 | L10 / L11 | L10 % L11 | L11
L11       : L11 ** unary | unary
unary     : ! unary | - unary | ~ unary | call
call      : primary | call ( ) | call ( args ) | call [ expr ] | call . name
target    : name | call [ expr ] | call . name
args      : expr | args , expr
primary   : primaryN | object
primaryN  : NUMBER | STRING | true | false | nil | ( expr ) | name | array
array     : [ ] | [ args ]
object    : { } | { props } @TRAILING { props , }
props     : prop | props , prop
prop      : name : expr
name      : IDENT | RIDENT
exprN     : assignN
assignN   : targetN = assign | L1N @RELAXED L1N = assign
L1N       : L1N || L2 | L2N
L2N       : L2N && L3 | L3N
L3N       : L3N PIPE L4 | L4N
L4N       : L4N ^ L5 | L5N
L5N       : L5N & L6 | L6N
L6N       : L6N == L7 | L6N != L7 | L7N
L7N       : L7N < L8 | L7N <= L8 | L7N > L8 | L7N >= L8 | L8N
L8N       : L8N << L9 | L8N >> L9 | L9N
L9N       : L9N + L10 | L9N - L10 | L10N
L10N      : L10N * L11 | L10N / L11 | L10N % L11 | L11N
L11N      : L11N ** unary | unaryN
unaryN    : ! unary | - unary | ~ unary | callN
callN     : primaryN | callN ( ) | callN ( args ) | callN [ expr ] | callN . name
targetN   : name | callN [ expr ] | callN . name
`

type rule struct {
	lhs int
	rhs []int
}

type Grammar struct {
	syms     []string
	symID    map[string]int
	isNT     []bool
	rules    []rule
	byLHS    [][]int
	nullable []bool
	start    int
}

// BuildGrammar parses grammarText.  Alternatives preceded by @RELAXED /
// @TRAILING are included only when the corresponding flag is set.
func BuildGrammar(relaxed, trailing bool) *Grammar {
	g := &Grammar{symID: map[string]int{}}
	id := func(s string) int {
		if s == "PIPE" {
			s = "|"
		}
		if n, ok := g.symID[s]; ok {
			return n
		}
		g.symID[s] = len(g.syms)
		g.syms = append(g.syms, s)
		g.isNT = append(g.isNT, false)
		return len(g.syms) - 1
	}
	for _, ln := range strings.Split(grammarText, "\n") {
		ln = strings.TrimSpace(ln)
		if ln == "" {
			continue
		}
		i := strings.Index(ln, ":")
		lhs := id(strings.TrimSpace(ln[:i]))
		g.isNT[lhs] = true
		body := ln[i+1:]
		// the first ':' splits; the "prop" rule contains a ':' terminal later, fine
		include := true
		var cur []int
		flush := func() {
			if include {
				g.rules = append(g.rules, rule{lhs, append([]int(nil), cur...)})
			}
			cur = cur[:0]
			include = true
		}
		fields := strings.Fields(body)
		for _, f := range fields {
			switch f {
			case "|":
				flush()
			case "@RELAXED":
				flush()
				include = relaxed
			case "@TRAILING":
				flush()
				include = trailing
			default:
				cur = append(cur, id(f))
			}
		}
		flush()
	}
	g.byLHS = make([][]int, len(g.syms))
	for i, r := range g.rules {
		g.byLHS[r.lhs] = append(g.byLHS[r.lhs], i)
	}
	g.nullable = make([]bool, len(g.syms))
	for changed := true; changed; {
		changed = false
		for _, r := range g.rules {
			if g.nullable[r.lhs] {
				continue
			}
			all := true
			for _, s := range r.rhs {
				if !g.nullable[s] {
					all = false
					break
				}
			}
			if all {
				g.nullable[r.lhs] = true
				changed = true
			}
		}
	}
	g.start = g.symID["program"]
	return g
}

type item struct {
	rule, dot, origin int32
}

// Recognise runs Earley over token kinds.  It returns (accepted, failIndex):
// failIndex is the index of the first token that no viable prefix can be
// extended with (len(kinds) if every token was consumed).
func (g *Grammar) Recognise(kinds []string) (bool, int) {
	n := len(kinds)
	tok := make([]int, n)
	for i, k := range kinds {
		if id, ok := g.symID[k]; ok && !g.isNT[id] {
			tok[i] = id
		} else {
			tok[i] = -1
		}
	}
	sets := make([][]item, n+1)
	seen := make([]map[item]struct{}, n+1)
	add := func(i int, it item) {
		if seen[i] == nil {
			seen[i] = map[item]struct{}{}
		}
		if _, ok := seen[i][it]; ok {
			return
		}
		seen[i][it] = struct{}{}
		sets[i] = append(sets[i], it)
	}
	for _, r := range g.byLHS[g.start] {
		add(0, item{int32(r), 0, 0})
	}
	for i := 0; i <= n; i++ {
		for j := 0; j < len(sets[i]); j++ {
			it := sets[i][j]
			r := g.rules[it.rule]
			if int(it.dot) < len(r.rhs) {
				s := r.rhs[it.dot]
				if g.isNT[s] {
					for _, pr := range g.byLHS[s] {
						add(i, item{int32(pr), 0, int32(i)})
					}
					if g.nullable[s] {
						add(i, item{it.rule, it.dot + 1, it.origin})
					}
				} else if i < n && tok[i] == s {
					add(i+1, item{it.rule, it.dot + 1, it.origin})
				}
			} else {
				o := int(it.origin)
				for k := 0; k < len(sets[o]); k++ {
					p := sets[o][k]
					pr := g.rules[p.rule]
					if int(p.dot) < len(pr.rhs) && pr.rhs[p.dot] == r.lhs {
						add(i, item{p.rule, p.dot + 1, p.origin})
					}
				}
			}
		}
		if i < n && len(sets[i+1]) == 0 {
			return false, i
		}
		seen[i] = nil
	}
	for _, it := range sets[n] {
		r := g.rules[it.rule]
		if r.lhs == g.start && int(it.dot) == len(r.rhs) && it.origin == 0 {
			return true, n
		}
	}
	return false, n
}

// EarleyKinds maps tokens to the grammar's terminal alphabet.
func EarleyKinds(toks []Token) []string {
	out := make([]string, len(toks))
	for i, t := range toks {
		k := t.Kind
		if k == "IDENT" && reserved(t.Lexeme) {
			k = "RIDENT"
		}
		out[i] = k
	}
	return out
}
