package ref

import (
	"fmt"
	"math"
	"strconv"
	"strings"
)

// ---------------------------------------------------------------------------
// Values

type Seg struct {
	Text  string
	IsNum bool // an "open" numeral: spelling not pinned by the properties
	Num   float64
}

// Str is a string value: a list of segments.  Only numbers whose spelling the
// properties do not pin (non-integers, |v| >= 1e6, -0, Inf, NaN) stay open.
type Str struct{ Segs []Seg }

type Arr struct {
	Elems []Value
	// Listing marks the result of a key/value listing whose order the
	// properties leave open.
	Listing *Listing
}

type Listing struct {
	Obj     *Obj
	Version int
	Values  bool // false: keys, true: values
}

type Obj struct {
	Keys    []string // insertion order (model-internal only)
	M       map[string]Value
	Version int
	ID      int
}

type Closure struct {
	Decl *Node
	Env  *Env
}

type Builtin struct{ Nick string }

// Unspec is a value the properties do not specify (e.g. what কি_রিমুভ returns,
// what ক্লক returns); using it in an observable way makes the case out of domain.
type Unspec struct{ Why string }

type Nil struct{}

type Value interface{}

func MkStr(s string) *Str {
	if s == "" {
		return &Str{}
	}
	return &Str{Segs: []Seg{{Text: s}}}
}

func (s *Str) Open() bool {
	for _, g := range s.Segs {
		if g.IsNum {
			return true
		}
	}
	return false
}

// Plain returns the text of a string without open numerals.
func (s *Str) Plain() string {
	var b strings.Builder
	for _, g := range s.Segs {
		b.WriteString(g.Text)
	}
	return b.String()
}

func (s *Str) Empty() bool {
	for _, g := range s.Segs {
		if g.IsNum || g.Text != "" {
			return false
		}
	}
	return true
}

// NumSegs renders a number the way the properties pin it: integers of
// magnitude below one million as plain digits, anything else left open.
func NumSegs(v float64) []Seg {
	if v == math.Trunc(v) && math.Abs(v) < 1e6 && !(v == 0 && math.Signbit(v)) {
		return []Seg{{Text: strconv.FormatInt(int64(v), 10)}}
	}
	return []Seg{{IsNum: true, Num: v}}
}

// MaxStringLen bounds the strings the model will build: programs that grow a
// string exponentially exhaust memory (a resource limit, like unbounded
// recursion, not a subject of the properties).
const MaxStringLen = 200000

func concat(a, b []Seg) *Str {
	total := 0
	for _, s := range a {
		total += len(s.Text) + 8
	}
	for _, s := range b {
		total += len(s.Text) + 8
	}
	if total > MaxStringLen {
		ood("string longer than the model's cap of %d bytes (resource exhaustion is out of scope)", MaxStringLen)
	}
	out := make([]Seg, 0, len(a)+len(b))
	for _, s := range append(append([]Seg{}, a...), b...) {
		if !s.IsNum && len(out) > 0 && !out[len(out)-1].IsNum {
			out[len(out)-1].Text += s.Text
		} else {
			out = append(out, s)
		}
	}
	return &Str{Segs: out}
}

// ---------------------------------------------------------------------------
// Expected output

type Pat struct {
	Kind    string // text num nil bool arr obj fn listing
	Segs    []Seg
	Num     float64
	Bool    bool
	Elems   []*Pat
	Keys    []string
	Listing *Listing
	LKeys   []string // listing: the object's keys at that moment
	LVals   []*Pat   // listing: the matching value patterns
}

type Piece struct {
	Kind string // "print" (pattern + newline), "prompt" (text, no newline)
	Pat  *Pat
	Text string
	Line int
}

type Fault struct {
	Kinds []string // acceptable categories
	Line  int
	Name  string // variable / property name when relevant
	Msg   string
}

type Result struct {
	Out    []Piece
	Fault  *Fault
	OOD    string // non-empty: out of domain (reason)
	Steps  int
	Stats  Stats
	Events []string // optional model trace (probe tags, scope ops)
}

type Stats struct {
	MaxCallDepth   int
	Calls          int
	NativeCalls    int
	ShadowDecls    int // declarations that shadow a visible outer binding
	FarResolutions int // reads/assignments resolved at chain distance >= 1 (not globals)
	ReturnInWhile  int
	ReturnInFor    int
	Closures       int
	Breaks         int
	Continues      int
	LoopIters      int
	IfTaken        int
	ElseTaken      int
	MaxDist        int
}

// ---------------------------------------------------------------------------
// Environments

type Env struct {
	Vars    map[string]*Value
	Parent  *Env
	Kind    string // globals program block for call
	Mention map[string]bool
	Params  map[string]bool // call scopes: the function's own name and its parameters
}

func newEnv(parent *Env, kind string) *Env {
	return &Env{Vars: map[string]*Value{}, Parent: parent, Kind: kind}
}

func (e *Env) lookup(name string) (*Value, int, *Env) {
	d := 0
	for s := e; s != nil; s = s.Parent {
		if v, ok := s.Vars[name]; ok {
			return v, d, s
		}
		d++
	}
	return nil, -1, nil
}

// ---------------------------------------------------------------------------
// Interpreter

type Interp struct {
	Stdin     []string // remaining input lines (already split, without newline)
	StdinEOF  bool     // true: reading past the end is out of domain
	Repl      bool
	MaxSteps  int
	MaxDepth  int
	res       *Result
	globals   *Env
	depth     int
	loopDepth []int // per activation: current loop nesting
	objSeq    int
	whileNest int
	forNest   int
	patPath   map[interface{}]bool
}

type faultP struct{ f *Fault }
type oodP struct{ why string }

const (
	sigNone = iota
	sigBreak
	sigContinue
	sigReturn
)

type signal struct {
	kind int
	val  Value
	line int
}

func (in *Interp) fault(line int, name string, kinds ...string) {
	panic(faultP{&Fault{Kinds: kinds, Line: line, Name: name}})
}
func ood(format string, a ...interface{}) { panic(oodP{fmt.Sprintf(format, a...)}) }

// Run executes a program.
func Run(prog []*Node, in *Interp) (res *Result) {
	res = &Result{}
	in.res = res
	if in.MaxSteps == 0 {
		in.MaxSteps = 200000
	}
	if in.MaxDepth == 0 {
		in.MaxDepth = 1500
	}
	in.globals = newEnv(nil, "globals")
	for nick := range BI {
		var v Value = &Builtin{Nick: nick}
		in.globals.Vars[BI[nick]] = &v
	}
	env := newEnv(in.globals, "program")
	in.loopDepth = []int{0}
	defer func() {
		if r := recover(); r != nil {
			switch p := r.(type) {
			case faultP:
				res.Fault = p.f
			case oodP:
				res.OOD = p.why
			default:
				panic(r)
			}
		}
	}()
	for _, st := range prog {
		sig := in.exec(st, env, in.Repl)
		switch sig.kind {
		case sigBreak:
			in.fault(sig.line, "", "StrayBreak")
		case sigContinue:
			in.fault(sig.line, "", "StrayContinue")
		case sigReturn:
			in.fault(sig.line, "", "StrayReturn")
		}
	}
	return res
}

func (in *Interp) step() {
	in.res.Steps++
	if in.res.Steps > in.MaxSteps {
		ood("model step cap %d exceeded", in.MaxSteps)
	}
}

// FreeNames returns the names a function body uses that are not bound, at
// the point of use, by a declaration inside the function itself (parameters,
// the function's own name, earlier declarations in enclosing static scopes of
// the body).  Nested function bodies are walked with the scopes extended.
func FreeNames(fn *Node) map[string]bool {
	free := map[string]bool{}
	var scopes []map[string]bool
	bound := func(name string) bool {
		for i := len(scopes) - 1; i >= 0; i-- {
			if scopes[i][name] {
				return true
			}
		}
		return false
	}
	var walk func(n *Node)
	var walkFun func(f *Node)
	walkFun = func(f *Node) {
		sc := map[string]bool{f.Name: true}
		for _, p := range f.Keys {
			sc[p] = true
		}
		scopes = append(scopes, sc)
		for _, st := range f.Kids {
			walk(st)
		}
		scopes = scopes[:len(scopes)-1]
	}
	walk = func(n *Node) {
		if n == nil {
			return
		}
		switch n.Kind {
		case "ident":
			if !bound(n.Name) {
				free[n.Name] = true
			}
			return
		case "assign":
			walk(n.Kids[0])
			if !bound(n.Name) {
				free[n.Name] = true
			}
			return
		case "var":
			walk(n.Kids[0])
			scopes[len(scopes)-1][n.Name] = true
			return
		case "fun":
			scopes[len(scopes)-1][n.Name] = true
			walkFun(n)
			return
		case "block":
			scopes = append(scopes, map[string]bool{})
			for _, k := range n.Kids {
				walk(k)
			}
			scopes = scopes[:len(scopes)-1]
			return
		case "for":
			scopes = append(scopes, map[string]bool{})
			for _, k := range n.Kids {
				walk(k)
			}
			scopes = scopes[:len(scopes)-1]
			return
		}
		for _, k := range n.Kids {
			walk(k)
		}
	}
	walkFun(fn)
	return free
}

func (in *Interp) exec(n *Node, env *Env, echo bool) signal {
	in.step()
	switch n.Kind {
	case "expr":
		v := in.eval(n.Kids[0], env)
		if echo {
			in.res.Out = append(in.res.Out, Piece{Kind: "echo", Pat: in.pattern(v, true), Line: n.Line})
		}
		return signal{}
	case "print":
		v := in.eval(n.Kids[0], env)
		in.res.Out = append(in.res.Out, Piece{Kind: "print", Pat: in.pattern(v, true), Line: n.Line})
		return signal{}
	case "var":
		in.declare(n, env)
		return signal{}
	case "varlist":
		for _, d := range n.Kids {
			in.step()
			in.declare(d, env)
		}
		return signal{}
	case "fun":
		names := FreeNames(n)
		if _, exists := env.Vars[n.Name]; exists {
			ood("function declaration redefines %q in the same scope", n.Name)
		}
		seenP := map[string]bool{}
		for _, p := range n.Keys {
			if seenP[p] {
				ood("duplicate parameter %q", p)
			}
			seenP[p] = true
		}
		for k := range names {
			if k == n.Name {
				continue
			}
			for s := env; s != nil; s = s.Parent {
				if _, has := s.Vars[k]; has {
					break
				}
				if s.Mention == nil {
					s.Mention = map[string]bool{}
				}
				s.Mention[k] = true
			}
		}
		var v Value = &Closure{Decl: n, Env: env}
		env.Vars[n.Name] = &v
		in.res.Stats.Closures++
		return signal{}
	case "block":
		scope := newEnv(env, "block")
		for _, st := range n.Kids {
			if sig := in.exec(st, scope, echo); sig.kind != sigNone {
				return sig
			}
		}
		return signal{}
	case "if":
		c := in.eval(n.Kids[0], env)
		if Truthy(c) {
			in.res.Stats.IfTaken++
			return in.exec(n.Kids[1], env, echo)
		} else if n.Kids[2] != nil {
			in.res.Stats.ElseTaken++
			return in.exec(n.Kids[2], env, echo)
		}
		return signal{}
	case "while":
		in.whileNest++
		defer func() { in.whileNest-- }()
		for {
			c := in.eval(n.Kids[0], env)
			if !Truthy(c) {
				return signal{}
			}
			in.res.Stats.LoopIters++
			sig := in.exec(n.Kids[1], env, echo)
			switch sig.kind {
			case sigBreak:
				in.res.Stats.Breaks++
				return signal{}
			case sigContinue:
				in.res.Stats.Continues++
			case sigReturn:
				in.res.Stats.ReturnInWhile++
				return sig
			}
		}
	case "for":
		in.forNest++
		defer func() { in.forNest-- }()
		scope := newEnv(env, "for")
		if n.Kids[0] != nil {
			if sig := in.exec(n.Kids[0], scope, echo); sig.kind != sigNone {
				return sig
			}
		}
		for {
			if n.Kids[1] != nil {
				c := in.eval(n.Kids[1], scope)
				if !Truthy(c) {
					return signal{}
				}
			}
			in.res.Stats.LoopIters++
			sig := in.exec(n.Kids[3], scope, echo)
			switch sig.kind {
			case sigBreak:
				in.res.Stats.Breaks++
				return signal{}
			case sigContinue:
				in.res.Stats.Continues++
			case sigReturn:
				in.res.Stats.ReturnInFor++
				return sig
			}
			if n.Kids[2] != nil {
				in.eval(n.Kids[2], scope)
			}
		}
	case "break":
		return signal{kind: sigBreak, line: n.Line}
	case "continue":
		return signal{kind: sigContinue, line: n.Line}
	case "return":
		var v Value = Nil{}
		if n.Kids[0] != nil {
			v = in.eval(n.Kids[0], env)
		}
		return signal{kind: sigReturn, val: v, line: n.Line}
	}
	panic("ref: unknown statement kind " + n.Kind)
}

func (in *Interp) declare(n *Node, env *Env) {
	var v Value = Nil{}
	if n.Kids[0] != nil {
		if _, exists := env.Vars[n.Name]; exists && !env.Params[n.Name] && !pure(n.Kids[0], env) {
			// like a wrong-arity call with impure arguments: whether the initialiser runs before the error is not pinned
			ood("redeclaration of %q whose initialiser has effects", n.Name)
		}
		v = in.eval(n.Kids[0], env)
	}
	if _, exists := env.Vars[n.Name]; exists {
		if env.Params[n.Name] {
			ood("declaration of %q at function-body level collides with the function's own name or a parameter", n.Name)
		}
		in.fault(n.Line, n.Name, "Redeclare")
	}
	if env.Mention[n.Name] {
		ood("declaration of %q after a closure mentioning it was created beneath this scope", n.Name)
	}
	if env.Parent != nil {
		if pv, _, where := env.Parent.lookup(n.Name); pv != nil && where.Kind != "globals" {
			in.res.Stats.ShadowDecls++
		}
	}
	env.Vars[n.Name] = &v
}

func Truthy(v Value) bool {
	switch x := v.(type) {
	case Nil:
		return false
	case bool:
		return x
	case float64:
		return x != 0
	case *Str:
		return !x.Empty()
	case *Unspec:
		ood("truthiness of unspecified value (%s)", x.Why)
	}
	return true
}

func (in *Interp) eval(n *Node, env *Env) Value {
	in.step()
	switch n.Kind {
	case "num":
		return n.Num
	case "str":
		return MkStr(n.Str)
	case "bool":
		return n.Bool
	case "nil":
		return Nil{}
	case "group":
		return in.eval(n.Kids[0], env)
	case "ident":
		p, d, where := env.lookup(n.Name)
		if p == nil {
			in.fault(n.Line, n.Name, "UndefinedName")
		}
		in.noteDist(where, d)
		return *p
	case "assign":
		v := in.eval(n.Kids[0], env)
		p, d, where := env.lookup(n.Name)
		if p == nil {
			in.fault(n.Line, n.Name, "UndefinedName")
		}
		in.noteDist(where, d)
		*p = v
		return v
	case "unary":
		v := in.eval(n.Kids[0], env)
		return in.unary(n, v)
	case "binary":
		l := in.eval(n.Kids[0], env)
		r := in.eval(n.Kids[1], env)
		return in.binary(n, l, r)
	case "logical":
		l := in.eval(n.Kids[0], env)
		if n.Op == "||" {
			if Truthy(l) {
				return l
			}
		} else if !Truthy(l) {
			return l
		}
		return in.eval(n.Kids[1], env)
	case "array":
		a := &Arr{}
		for _, k := range n.Kids {
			a.Elems = append(a.Elems, in.eval(k, env))
		}
		return a
	case "object":
		in.objSeq++
		o := &Obj{M: map[string]Value{}, ID: in.objSeq}
		seen := map[string]bool{}
		for _, k := range n.Keys {
			if seen[k] {
				ood("duplicate key %q in object literal", k)
			}
			seen[k] = true
		}
		for i, k := range n.Keys {
			o.Keys = append(o.Keys, k)
			o.M[k] = in.eval(n.Kids[i], env)
		}
		return o
	case "index":
		av := in.eval(n.Kids[0], env)
		iv := in.eval(n.Kids[1], env)
		a, ok := av.(*Arr)
		if !ok {
			in.unspecCheck(av)
			in.fault(n.Line, "", "NotAnArray")
		}
		i := in.index(n, a, iv)
		return a.Elems[i]
	case "setindex":
		av := in.eval(n.Kids[0], env)
		iv := in.eval(n.Kids[1], env)
		v := in.eval(n.Kids[2], env)
		a, ok := av.(*Arr)
		if !ok {
			in.unspecCheck(av)
			in.fault(n.Line, "", "NotAnArray")
		}
		i := in.index(n, a, iv)
		a.Elems[i] = v
		return v
	case "prop":
		ov := in.eval(n.Kids[0], env)
		o, ok := ov.(*Obj)
		if !ok {
			in.unspecCheck(ov)
			in.fault(n.Line, n.Name, "NotAnObject")
		}
		v, ok := o.M[n.Name]
		if !ok {
			in.fault(n.Line, n.Name, "MissingProperty")
		}
		return v
	case "setprop":
		ov := in.eval(n.Kids[0], env)
		o, ok := ov.(*Obj)
		if !ok {
			in.unspecCheck(ov)
			if !pure(n.Kids[1], env) {
				ood("property store on a non-object with an impure value expression")
			}
			in.fault(n.Line, n.Name, "NotAnObject")
		}
		v := in.eval(n.Kids[1], env)
		if _, ok := o.M[n.Name]; !ok {
			o.Keys = append(o.Keys, n.Name)
		}
		o.M[n.Name] = v
		o.Version++
		return v
	case "call":
		return in.call(n, env)
	}
	panic("ref: unknown expression kind " + n.Kind)
}

func (in *Interp) noteDist(where *Env, d int) {
	// distance counted in scopes; resolutions that land in globals are built-ins
	if where.Kind == "globals" {
		return
	}
	if d > in.res.Stats.MaxDist {
		in.res.Stats.MaxDist = d
	}
	if d >= 1 {
		in.res.Stats.FarResolutions++
	}
}

func (in *Interp) unspecCheck(v Value) {
	if u, ok := v.(*Unspec); ok {
		ood("use of unspecified value (%s)", u.Why)
	}
	if a, ok := v.(*Arr); ok && a.Listing != nil {
		_ = a
	}
}

// pure: evaluation has no observable side effect and cannot fault.
func pure(n *Node, env *Env) bool {
	if n == nil {
		return true
	}
	switch n.Kind {
	case "num", "str", "bool", "nil":
		return true
	case "ident":
		p, _, _ := env.lookup(n.Name)
		return p != nil
	case "group":
		return pure(n.Kids[0], env)
	case "array", "object":
		for _, k := range n.Kids {
			if !pure(k, env) {
				return false
			}
		}
		return true
	case "unary":
		// negation / logical not of a numeric literal cannot fault
		return (n.Op == "-" || n.Op == "!") && n.Kids[0].Kind == "num"
	}
	return false
}

func (in *Interp) indexOK(a *Arr, iv Value) (int, bool) {
	f, ok := iv.(float64)
	if !ok || f != math.Trunc(f) || math.IsNaN(f) || math.IsInf(f, 0) || f < 0 || f >= float64(len(a.Elems)) {
		return 0, true
	}
	return int(f), false
}

func (in *Interp) index(n *Node, a *Arr, iv Value) int {
	if a.Listing != nil {
		ood("indexing a key/value listing (order not specified)")
	}
	f, ok := iv.(float64)
	if !ok {
		if s, isStr := iv.(*Str); isStr {
			if s.Open() || LooksNumeric(s.Plain()) {
				ood("numeric-looking string used as index")
			}
		}
		in.unspecCheck(iv)
		in.fault(n.Line, "", "BadIndex")
	}
	if f != math.Trunc(f) || math.IsNaN(f) || math.IsInf(f, 0) {
		in.fault(n.Line, "", "BadIndex")
	}
	if f < 0 || f >= float64(len(a.Elems)) {
		in.fault(n.Line, "", "BadIndex")
	}
	return int(f)
}

// LooksNumeric: could a coercion plausibly read this string as a number?
// Deliberately broad (anything strconv-like after digit transliteration and
// trimming), so that only clearly non-numeric strings are required to fault.
func LooksNumeric(s string) bool {
	t := strings.TrimSpace(ToASCIIDigits(s))
	if t == "" {
		return false
	}
	if _, err := strconv.ParseFloat(t, 64); err == nil {
		return true
	}
	// a string containing a character that occurs in no numeral notation at all
	// (decimal, exponent, hexadecimal, digit separators, inf / nan) is not a
	// number however leniently it is read: "16cm", "9 apples", "12 টাকা"
	for _, r := range strings.ToLower(t) {
		if !strings.ContainsRune("0123456789+-.,_ \t'abcdefxponiyt", r) {
			return false
		}
	}
	// strings starting with a digit / sign+digit / dot+digit could be read
	// leniently by some coercions; treat them as numeric-looking as well.
	c := t[0]
	if c >= '0' && c <= '9' {
		return true
	}
	if (c == '-' || c == '+' || c == '.') && len(t) > 1 && t[1] >= '0' && t[1] <= '9' {
		return true
	}
	l := strings.ToLower(t)
	for _, w := range []string{"inf", "+inf", "-inf", "nan", "infinity", "+infinity", "-infinity"} {
		if l == w {
			return true
		}
	}
	return false
}

// num coerces an operand for an arithmetic-like operator.
func (in *Interp) num(n *Node, v Value, kinds ...string) (float64, bool) {
	switch x := v.(type) {
	case float64:
		return x, true
	case *Str:
		if x.Open() || LooksNumeric(x.Plain()) {
			ood("numeric-looking string as operand of %s", n.Op)
		}
	case *Unspec:
		ood("unspecified value as operand (%s)", x.Why)
	}
	return 0, false
}

func (in *Interp) unary(n *Node, v Value) Value {
	switch n.Op {
	case "!":
		return !Truthy(v)
	case "-":
		f, ok := in.num(n, v)
		if !ok {
			in.fault(n.Line, "", "TypeMismatch")
		}
		return -f
	case "~":
		f, ok := in.num(n, v)
		if !ok {
			in.fault(n.Line, "", "TypeMismatch")
		}
		i := in.toInt(n, f)
		return in.fromInt(^i)
	}
	panic("ref: unary " + n.Op)
}

// toInt converts an integral double inside the int64 range; non-integral is a
// fault, integral values outside int64 are out of domain.
func (in *Interp) toInt(n *Node, f float64) int64 {
	if math.IsNaN(f) || math.IsInf(f, 0) || f != math.Trunc(f) {
		in.fault(n.Line, "", "TypeMismatch")
	}
	if f >= 9223372036854775808.0 || f < -9223372036854775808.0 {
		ood("integral operand outside the 64-bit range")
	}
	return int64(f)
}

func (in *Interp) fromInt(i int64) Value {
	f := float64(i)
	if f >= 9223372036854775808.0 || int64(f) != i {
		ood("bitwise result %d not exactly representable as a double", i)
	}
	return f
}

func (in *Interp) binary(n *Node, l, r Value) Value {
	switch n.Op {
	case "==":
		return in.equal(l, r)
	case "!=":
		return !in.equal(l, r)
	case "+":
		lf, lnum := l.(float64)
		rf, rnum := r.(float64)
		ls, lstr := l.(*Str)
		rs, rstr := r.(*Str)
		switch {
		case lnum && rnum:
			return lf + rf
		case lstr && rstr:
			return concat(ls.Segs, rs.Segs)
		case lstr && rnum:
			return concat(ls.Segs, NumSegs(rf))
		case lnum && rstr:
			return concat(NumSegs(lf), rs.Segs)
		}
		in.unspecCheck(l)
		in.unspecCheck(r)
		in.fault(n.Line, "", "TypeMismatch")
	case "-", "*", "/", "%", "**", "<", "<=", ">", ">=":
		lf, lok := in.num(n, l)
		rf, rok := in.num(n, r)
		if !lok || !rok {
			if (n.Op == "/" || n.Op == "%") && rok && rf == 0 {
				in.fault(n.Line, "", "TypeMismatch", "ZeroDivisor")
			}
			in.fault(n.Line, "", "TypeMismatch")
		}
		switch n.Op {
		case "-":
			return lf - rf
		case "*":
			return lf * rf
		case "/":
			if rf == 0 {
				in.fault(n.Line, "", "ZeroDivisor")
			}
			return lf / rf
		case "%":
			if rf == 0 {
				in.fault(n.Line, "", "ZeroDivisor")
			}
			return math.Mod(lf, rf)
		case "**":
			return math.Pow(lf, rf)
		case "<":
			return lf < rf
		case "<=":
			return lf <= rf
		case ">":
			return lf > rf
		case ">=":
			return lf >= rf
		}
	case "&", "|", "^", "<<", ">>":
		lf, lok := in.num(n, l)
		rf, rok := in.num(n, r)
		if !lok || !rok {
			in.fault(n.Line, "", "TypeMismatch")
		}
		lfrac := math.IsNaN(lf) || math.IsInf(lf, 0) || lf != math.Trunc(lf)
		rfrac := math.IsNaN(rf) || math.IsInf(rf, 0) || rf != math.Trunc(rf)
		if lfrac || rfrac {
			in.fault(n.Line, "", "TypeMismatch")
		}
		li := in.toInt(n, lf)
		ri := in.toInt(n, rf)
		switch n.Op {
		case "&":
			return in.fromInt(li & ri)
		case "|":
			return in.fromInt(li | ri)
		case "^":
			return in.fromInt(li ^ ri)
		case "<<":
			if ri < 0 {
				in.fault(n.Line, "", "NegativeShift", "TypeMismatch")
			}
			if ri >= 64 {
				return in.fromInt(0)
			}
			return in.fromInt(li << uint(ri))
		case ">>":
			if ri < 0 {
				in.fault(n.Line, "", "NegativeShift", "TypeMismatch")
			}
			if ri >= 64 {
				if li < 0 {
					return in.fromInt(-1)
				}
				return in.fromInt(0)
			}
			return in.fromInt(li >> uint(ri))
		}
	}
	panic("ref: binary " + n.Op)
}

func (in *Interp) equal(l, r Value) bool {
	in.unspecCheck(l)
	in.unspecCheck(r)
	switch a := l.(type) {
	case Nil:
		_, ok := r.(Nil)
		return ok
	case bool:
		b, ok := r.(bool)
		return ok && a == b
	case float64:
		b, ok := r.(float64)
		return ok && a == b
	case *Str:
		b, ok := r.(*Str)
		if !ok {
			return false
		}
		if a.Open() || b.Open() {
			if a == b {
				return true
			}
			ood("equality of strings containing numerals whose spelling is not pinned")
		}
		return a.Plain() == b.Plain()
	case *Arr:
		b, ok := r.(*Arr)
		if !ok {
			return false
		}
		if a == b {
			return true
		}
		ood("equality of two distinct arrays")
	case *Obj:
		b, ok := r.(*Obj)
		if !ok {
			return false
		}
		if a == b {
			return true
		}
		ood("equality of two distinct objects")
	case *Closure:
		b, ok := r.(*Closure)
		if !ok {
			return false
		}
		if a == b {
			return true
		}
		ood("equality of two distinct function values")
	case *Builtin:
		b, ok := r.(*Builtin)
		if !ok {
			return false
		}
		return a.Nick == b.Nick
	}
	panic("ref: equal")
}

func (in *Interp) call(n *Node, env *Env) Value {
	cv := in.eval(n.Kids[0], env)
	args := n.Kids[1:]
	switch f := cv.(type) {
	case *Closure:
		if len(args) != len(f.Decl.Keys) {
			for _, a := range args {
				if !pure(a, env) {
					ood("arity fault with impure arguments")
				}
			}
			in.fault(n.Line, "", "Arity")
		}
		vals := make([]Value, len(args))
		for i, a := range args {
			vals[i] = in.eval(a, env)
		}
		return in.invoke(f, vals)
	case *Builtin:
		ar := builtinArity[f.Nick]
		if ar >= 0 && len(args) != ar {
			for _, a := range args {
				if !pure(a, env) {
					ood("arity fault with impure arguments")
				}
			}
			in.fault(n.Line, "", "Arity", "BuiltinFailure")
		}
		vals := make([]Value, len(args))
		for i, a := range args {
			vals[i] = in.eval(a, env)
		}
		in.res.Stats.NativeCalls++
		return in.builtin(n, f.Nick, vals)
	case *Unspec:
		ood("calling an unspecified value (%s)", f.Why)
	}
	for _, a := range args {
		if !pure(a, env) {
			ood("non-callable fault with impure arguments")
		}
	}
	in.fault(n.Line, "", "NotCallable")
	return nil
}

func (in *Interp) invoke(f *Closure, vals []Value) Value {
	in.depth++
	in.res.Stats.Calls++
	if in.depth > in.res.Stats.MaxCallDepth {
		in.res.Stats.MaxCallDepth = in.depth
	}
	if in.depth > in.MaxDepth {
		ood("model recursion depth cap %d exceeded", in.MaxDepth)
	}
	defer func() { in.depth-- }()
	act := newEnv(f.Env, "call")
	act.Params = map[string]bool{f.Decl.Name: true}
	var self Value = f
	act.Vars[f.Decl.Name] = &self
	for i, p := range f.Decl.Keys {
		v := vals[i]
		act.Vars[p] = &v
		act.Params[p] = true
	}
	sw, sf := in.whileNest, in.forNest
	in.whileNest, in.forNest = 0, 0
	defer func() { in.whileNest, in.forNest = sw, sf }()
	for _, st := range f.Decl.Kids {
		sig := in.exec(st, act, false)
		switch sig.kind {
		case sigReturn:
			return sig.val
		case sigBreak, sigContinue:
			ood("break/continue reaching a function body outside any loop")
		}
	}
	return Nil{}
}

var builtinArity = map[string]int{
	"clock": 0, "len": 1, "append": -1, "remove": 2, "delete": 2, "keys": 1, "values": 1,
	"abs": 1, "sqrt": 1, "pow": 2, "sin": 1, "cos": 1, "tan": 1, "min": -1, "max": -1, "round": 1, "input": -1,
}

func (in *Interp) bnum(n *Node, v Value) float64 {
	switch x := v.(type) {
	case float64:
		return x
	case *Str:
		if x.Open() || LooksNumeric(x.Plain()) {
			ood("numeric-looking string as built-in argument")
		}
	case *Unspec:
		ood("unspecified value as built-in argument")
	}
	in.fault(n.Line, "", "BuiltinFailure")
	return 0
}

// RoundHalfAway is round-half-away-from-zero, computed without math.Round.
func RoundHalfAway(x float64) float64 {
	if math.IsNaN(x) || math.IsInf(x, 0) || x == 0 {
		return x
	}
	if math.Abs(x) >= 4503599627370496.0 { // 2^52: already integral
		return x
	}
	t := math.Trunc(x)
	d := math.Abs(x - t) // exact for |x| < 2^52
	if d >= 0.5 {
		if x > 0 {
			t++
		} else {
			t--
		}
	}
	if t == 0 && math.Signbit(x) {
		return math.Copysign(0, -1)
	}
	return t
}

func (in *Interp) builtin(n *Node, nick string, a []Value) Value {
	bf := func() { in.fault(n.Line, "", "BuiltinFailure") }
	switch nick {
	case "clock":
		return &Unspec{Why: "clock value"}
	case "len":
		arr, ok := a[0].(*Arr)
		if !ok {
			in.unspecCheck(a[0])
			bf()
		}
		return float64(len(arr.Elems))
	case "append":
		if len(a) < 2 {
			in.fault(n.Line, "", "BuiltinFailure", "Arity")
		}
		arr, ok := a[0].(*Arr)
		if !ok {
			in.unspecCheck(a[0])
			bf()
		}
		if arr.Listing != nil {
			ood("append to a key/value listing")
		}
		out := &Arr{Elems: append(append([]Value{}, arr.Elems...), a[1:]...)}
		return out
	case "remove":
		arr, ok := a[0].(*Arr)
		if !ok {
			in.unspecCheck(a[0])
			bf()
		}
		if arr.Listing != nil {
			ood("remove from a key/value listing")
		}
		f, ok := a[1].(float64)
		if !ok {
			if s, isStr := a[1].(*Str); isStr && (s.Open() || LooksNumeric(s.Plain())) {
				ood("numeric-looking string as remove index")
			}
			in.unspecCheck(a[1])
			bf()
		}
		if math.IsNaN(f) || math.IsInf(f, 0) || f != math.Trunc(f) || f < 0 || f >= float64(len(arr.Elems)) {
			bf()
		}
		i := int(f)
		out := &Arr{}
		out.Elems = append(out.Elems, arr.Elems[:i]...)
		out.Elems = append(out.Elems, arr.Elems[i+1:]...)
		return out
	case "delete":
		o, ok := a[0].(*Obj)
		if !ok {
			in.unspecCheck(a[0])
			bf()
		}
		s, ok := a[1].(*Str)
		if !ok {
			in.unspecCheck(a[1])
			bf()
		}
		if s.Open() {
			ood("delete with a key containing an open numeral")
		}
		k := s.Plain()
		if _, ok := o.M[k]; !ok {
			bf()
		}
		delete(o.M, k)
		for i, kk := range o.Keys {
			if kk == k {
				o.Keys = append(o.Keys[:i:i], o.Keys[i+1:]...)
				break
			}
		}
		o.Version++
		return &Unspec{Why: "result of delete"}
	case "keys", "values":
		o, ok := a[0].(*Obj)
		if !ok {
			in.unspecCheck(a[0])
			bf()
		}
		out := &Arr{Listing: &Listing{Obj: o, Version: o.Version, Values: nick == "values"}}
		for _, k := range o.Keys {
			if nick == "keys" {
				out.Elems = append(out.Elems, MkStr(k))
			} else {
				out.Elems = append(out.Elems, o.M[k])
			}
		}
		if len(o.Keys) <= 1 {
			out.Listing = nil // order is trivially fixed
		}
		return out
	case "abs":
		return math.Abs(in.bnum(n, a[0]))
	case "sqrt":
		return math.Sqrt(in.bnum(n, a[0]))
	case "pow":
		x := in.bnum(n, a[0])
		y := in.bnum(n, a[1])
		return math.Pow(x, y)
	case "sin":
		return math.Sin(in.bnum(n, a[0]))
	case "cos":
		return math.Cos(in.bnum(n, a[0]))
	case "tan":
		return math.Tan(in.bnum(n, a[0]))
	case "round":
		return RoundHalfAway(in.bnum(n, a[0]))
	case "min", "max":
		if len(a) == 0 {
			in.fault(n.Line, "", "BuiltinFailure", "Arity")
		}
		list := a
		if arr, ok := a[0].(*Arr); ok && len(a) == 1 {
			if arr.Listing != nil {
				// order-insensitive use of a listing is fine
			}
			list = arr.Elems
		}
		if len(list) == 0 {
			bf()
		}
		best := 0.0
		sawZeroPos, sawZeroNeg := false, false
		for i, v := range list {
			f := in.bnum(n, v)
			if math.IsNaN(f) {
				ood("min/max with NaN")
			}
			if f == 0 {
				if math.Signbit(f) {
					sawZeroNeg = true
				} else {
					sawZeroPos = true
				}
			}
			if i == 0 || (nick == "min" && f < best) || (nick == "max" && f > best) {
				best = f
			}
		}
		if best == 0 && sawZeroNeg && sawZeroPos {
			ood("min/max over mixed signed zeros")
		}
		return best
	case "input":
		if len(a) > 1 {
			in.fault(n.Line, "", "BuiltinFailure", "Arity")
		}
		if len(a) == 1 {
			s, ok := a[0].(*Str)
			if !ok {
				in.unspecCheck(a[0])
				bf()
			}
			if s.Open() {
				ood("prompt containing an open numeral")
			}
			in.res.Out = append(in.res.Out, Piece{Kind: "prompt", Text: s.Plain(), Line: n.Line})
		}
		if len(in.Stdin) == 0 {
			ood("input at end of stdin")
		}
		line := in.Stdin[0]
		in.Stdin = in.Stdin[1:]
		return MkStr(strings.Trim(line, " \t\r\n"))
	}
	panic("ref: builtin " + nick)
}

// pattern snapshots a value as an expected-output pattern.
func (in *Interp) pattern(v Value, top bool) *Pat {
	in.patPath = map[interface{}]bool{}
	return in.pat(v, top, 0)
}

func (in *Interp) pat(v Value, top bool, depth int) *Pat {
	if depth > 200 {
		ood("printing a very deep structure")
	}
	// a container that is already being rendered (it contains itself) cannot be
	// shown in full: any short back-reference marker is accepted at that point;
	// everything that is not part of the cycle must still be shown completely
	switch x := v.(type) {
	case *Arr:
		if in.patPath[x] {
			return &Pat{Kind: "backref"}
		}
		in.patPath[x] = true
		defer delete(in.patPath, x)
	case *Obj:
		if in.patPath[x] {
			return &Pat{Kind: "backref"}
		}
		in.patPath[x] = true
		defer delete(in.patPath, x)
	}
	switch x := v.(type) {
	case Nil:
		return &Pat{Kind: "nil"}
	case bool:
		return &Pat{Kind: "bool", Bool: x}
	case float64:
		return &Pat{Kind: "num", Num: x}
	case *Str:
		return &Pat{Kind: "text", Segs: append([]Seg{}, x.Segs...)}
	case *Arr:
		p := &Pat{Kind: "arr"}
		for _, e := range x.Elems {
			p.Elems = append(p.Elems, in.pat(e, false, depth+1))
		}
		if x.Listing != nil {
			p.Kind = "listing"
			p.Listing = x.Listing
			o := x.Listing.Obj
			if o.Version != x.Listing.Version {
				// listing of an older state: consistency with later listings is
				// not required, but it still must be a permutation
				p.Listing = &Listing{Obj: nil, Version: -1, Values: x.Listing.Values}
			}
			// keys and value patterns at listing time are the elements themselves
		}
		return p
	case *Obj:
		p := &Pat{Kind: "obj"}
		for _, k := range x.Keys {
			p.Keys = append(p.Keys, k)
			p.Elems = append(p.Elems, in.pat(x.M[k], false, depth+1))
		}
		return p
	case *Closure:
		return &Pat{Kind: "fn", Segs: []Seg{{Text: x.Decl.Name}}}
	case *Builtin:
		return &Pat{Kind: "fn"}
	case *Unspec:
		ood("printing an unspecified value (%s)", x.Why)
	}
	panic("ref: pattern")
}
