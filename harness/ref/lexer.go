// Package ref is "refborno": an independent reference model of the Borno
// language written from the property statements, grammer.txt and the README.
// It imports nothing from the repository under test.
package ref

import (
	"strconv"
	"strings"
	"unicode"
)

// Token kinds are plain strings: punctuation spells itself, keywords use
// English names, and IDENT / STRING / NUMBER / EOF.
type Token struct {
	Kind   string
	Lexeme string
	Num    float64
	Str    string
	Line   int
	Start  int // rune offsets
	End    int
}

type LexError struct {
	Kind      string // "char", "string", "comment", "number"
	Line      int    // line of the offending character / start of the construct
	EndLine   int    // last line of the construct (== Line for "char")
	RuneStart int
}

// Keywords as escaped code points.  Note U+09DF (precomposed YYA) in "else"
// and "continue": that is how the language spells them.
var Keywords = map[string]string{
	"\u09ab\u09be\u0982\u09b6\u09a8":       "fun",
	"\u09a7\u09b0\u09bf":                   "var",
	"\u09ab\u09b0":                         "for",
	"\u09af\u09a6\u09bf":                   "if",
	"\u09a8\u09be\u09b9\u09df":             "else",
	"\u09af\u09a4\u0995\u09cd\u09b7\u09a3": "while",
	"\u09b8\u09a4\u09cd\u09af":             "true",
	"\u09ae\u09bf\u09a5\u09cd\u09af\u09be": "false",
	"nil":                                  "nil",
	"\u09a6\u09c7\u0996\u09be\u0993":       "print",
	"\u09ab\u09c7\u09b0\u09a4":             "return",
	"\u09a5\u09be\u09ae\u09cb":             "break",
	"\u099a\u09be\u09b2\u09bf\u09df\u09c7_\u09af\u09be\u0993": "continue",
	"\u098f\u09ac\u0982": "&&",
	"\u09ac\u09be":       "||",
}

// Spellings of keywords by English name (for generators).
var KW = func() map[string]string {
	m := map[string]string{}
	for k, v := range Keywords {
		if v == "&&" {
			m["and"] = k
		} else if v == "||" {
			m["or"] = k
		} else {
			m[v] = k
		}
	}
	return m
}()

// Built-in names (escaped code points) by English nickname.
var BI = map[string]string{
	"clock":  "\u0995\u09cd\u09b2\u0995",
	"len":    "\u09b2\u09c7\u09a8",
	"append": "\u098f\u09a1",
	"remove": "\u09b0\u09bf\u09ae\u09c1\u09ad",
	"delete": "\u0995\u09bf_\u09b0\u09bf\u09ae\u09c1\u09ad",
	"keys":   "\u0985\u09ac\u09cd\u099c\u09c7\u0995\u09cd\u099f_\u0995\u09bf",
	"values": "\u0985\u09ac\u09cd\u099c\u09c7\u0995\u09cd\u099f_\u09ae\u09be\u09a8",
	"abs":    "\u09aa\u09b0\u09ae\u09ae\u09be\u09a8",
	"sqrt":   "\u09ac\u09b0\u09cd\u0997\u09ae\u09c2\u09b2",
	"pow":    "\u0998\u09be\u09a4",
	"sin":    "\u09b8\u09be\u0987\u09a8",
	"cos":    "\u0995\u09b8\u09be\u0987\u09a8",
	"tan":    "\u099f\u09cd\u09af\u09be\u09a8",
	"min":    "\u09b8\u09b0\u09cd\u09ac\u09a8\u09bf\u09ae\u09cd\u09a8",
	"max":    "\u09b8\u09b0\u09cd\u09ac\u09cb\u099a\u09cd\u099a",
	"round":  "\u09b0\u09be\u0989\u09a8\u09cd\u09a1",
	"input":  "\u0987\u09a8\u09aa\u09c1\u099f",
}

// BuiltinByName maps the Bangla spelling back to the nickname.
var BuiltinByName = func() map[string]string {
	m := map[string]string{}
	for k, v := range BI {
		m[v] = k
	}
	return m
}()

func IsDigit(c rune) bool { return (c >= '0' && c <= '9') || (c >= 0x09E6 && c <= 0x09EF) }
func IsAlpha(c rune) bool { return unicode.IsLetter(c) || unicode.IsMark(c) || c == '_' }

// ToASCIIDigits transliterates the ten Bangla digits only.
func ToASCIIDigits(s string) string {
	var b strings.Builder
	for _, r := range s {
		if r >= 0x09E6 && r <= 0x09EF {
			b.WriteRune('0' + (r - 0x09E6))
		} else {
			b.WriteRune(r)
		}
	}
	return b.String()
}

var twoChar = map[string]bool{"**": true, "<=": true, "<<": true, ">=": true, ">>": true, "&&": true, "||": true, "==": true, "!=": true}
var oneChar = "(){}[],.-+;:/*&|^~%!=<>"

// Lex is the spec lexer: longest match over code points.
func Lex(src []rune) ([]Token, []LexError) {
	var toks []Token
	var errs []LexError
	line := 1
	i := 0
	n := len(src)
	for i < n {
		c := src[i]
		switch {
		case c == '\n':
			line++
			i++
		case c == ' ' || c == '\t' || c == '\r':
			i++
		case c == '/' && i+1 < n && src[i+1] == '/':
			for i < n && src[i] != '\n' {
				i++
			}
		case c == '/' && i+1 < n && src[i+1] == '*':
			start, startLine := i, line
			i += 2
			closed := false
			for i < n {
				if src[i] == '*' && i+1 < n && src[i+1] == '/' {
					i += 2
					closed = true
					break
				}
				if src[i] == '\n' {
					line++
				}
				i++
			}
			if !closed {
				errs = append(errs, LexError{"comment", startLine, line, start})
			}
		case c == '"':
			start, startLine := i, line
			i++
			for i < n && src[i] != '"' {
				if src[i] == '\n' {
					line++
				}
				i++
			}
			if i >= n {
				errs = append(errs, LexError{"string", startLine, line, start})
			} else {
				i++
				toks = append(toks, Token{Kind: "STRING", Lexeme: string(src[start:i]), Str: string(src[start+1 : i-1]), Line: line, Start: start, End: i})
			}
		case IsDigit(c):
			start := i
			for i < n && IsDigit(src[i]) {
				i++
			}
			if i+1 < n && src[i] == '.' && IsDigit(src[i+1]) {
				i++
				for i < n && IsDigit(src[i]) {
					i++
				}
			}
			lex := string(src[start:i])
			v, err := strconv.ParseFloat(ToASCIIDigits(lex), 64)
			if err != nil {
				errs = append(errs, LexError{"number", line, line, start})
			} else {
				toks = append(toks, Token{Kind: "NUMBER", Lexeme: lex, Num: v, Line: line, Start: start, End: i})
			}
		case IsAlpha(c):
			start := i
			for i < n && (IsAlpha(src[i]) || IsDigit(src[i])) {
				i++
			}
			lex := string(src[start:i])
			kind := "IDENT"
			if k, ok := Keywords[lex]; ok {
				kind = k
			}
			toks = append(toks, Token{Kind: kind, Lexeme: lex, Line: line, Start: start, End: i})
		default:
			if i+1 < n && twoChar[string(src[i:i+2])] {
				toks = append(toks, Token{Kind: string(src[i : i+2]), Lexeme: string(src[i : i+2]), Line: line, Start: i, End: i + 2})
				i += 2
			} else if c < 128 && strings.ContainsRune(oneChar, c) {
				toks = append(toks, Token{Kind: string(c), Lexeme: string(c), Line: line, Start: i, End: i + 1})
				i++
			} else {
				errs = append(errs, LexError{"char", line, line, i})
				i++
			}
		}
	}
	toks = append(toks, Token{Kind: "EOF", Line: line, Start: n, End: n})
	return toks, errs
}
