package ref

import (
	"fmt"
	"math"
	"sort"
	"strconv"
	"strings"
)

// Node is the reference syntax tree.  Kinds:
// expressions: num str bool nil ident group unary binary logical call index prop
//
//	array object assign setindex setprop
//
// statements: expr print var varlist block if while for break continue return fun
type Node struct {
	Kind      string
	Op        string // operator spelling class ("||" for both spellings)
	Name      string // identifier / property / function name
	Num       float64
	Str       string
	Bool      bool
	Kids      []*Node  // fixed child positions, nil where absent
	Keys      []string // object keys in source order; parameter names for fun
	Line      int      // line used for diagnostics of this node's own operation
	Tok       int      // index of the first token of the node
	NameTok   int      // index of the token carrying Name (var, fun, assign, ident), -1 when none
	ParamToks []int    // fun: token indexes of the parameters
	End       int      // index one past the last token of the node
}

// Binary operator levels, low to high.  All left-associative.
var BinLevel = map[string]int{
	"||": 1, "&&": 2, "|": 3, "^": 4, "&": 5,
	"==": 6, "!=": 6,
	"<": 7, "<=": 7, ">": 7, ">=": 7,
	"<<": 8, ">>": 8,
	"+": 9, "-": 9,
	"*": 10, "/": 10, "%": 10,
	"**": 11,
}

const (
	LevelAssign = 0
	LevelUnary  = 12
	LevelSuffix = 13
	LevelAtom   = 14
)

type SyntaxError struct {
	Tok  int // index of the token at which the text stops being viable
	Line int
	Msg  string
	// AssignTarget is set when the error is an invalid assignment target;
	// Tok is then the '=' token.
	AssignTarget bool
}

func (e *SyntaxError) Error() string { return fmt.Sprintf("line %d: %s", e.Line, e.Msg) }

type Parser struct {
	toks []Token
	pos  int
	// Relaxed accepts any expression as an assignment target (used to find the
	// alternative diagnostic position C08 allows).
	Relaxed bool
	// TrailingComma accepts a trailing comma in object literals (C08's
	// stated out-of-domain departure).
	TrailingComma bool
	MaxParams     int
	depth         int
}

type bail struct{ err *SyntaxError }

func NewParser(toks []Token) *Parser { return &Parser{toks: toks, MaxParams: 255} }

// ParseProgram returns the statements, or the first syntax error.
func (p *Parser) ParseProgram() (prog []*Node, err *SyntaxError) {
	defer func() {
		if r := recover(); r != nil {
			if b, ok := r.(bail); ok {
				prog, err = nil, b.err
				return
			}
			panic(r)
		}
	}()
	for p.peek().Kind != "EOF" {
		prog = append(prog, p.declaration())
	}
	return prog, nil
}

func (p *Parser) peek() Token { return p.toks[p.pos] }
func (p *Parser) fail(msg string) {
	t := p.peek()
	panic(bail{&SyntaxError{Tok: p.pos, Line: t.Line, Msg: msg}})
}
func (p *Parser) at(kind string) bool { return p.peek().Kind == kind }
func (p *Parser) accept(kind string) bool {
	if p.at(kind) {
		p.pos++
		return true
	}
	return false
}
func (p *Parser) expect(kind string) Token {
	if !p.at(kind) {
		p.fail("expected " + kind)
	}
	t := p.peek()
	p.pos++
	return t
}

func (p *Parser) declaration() *Node {
	switch p.peek().Kind {
	case "fun":
		return p.funDecl()
	case "var":
		return p.varDecl()
	}
	return p.statement()
}

func reserved(name string) bool {
	_, ok := BuiltinByName[name]
	return ok
}

func (p *Parser) funDecl() *Node {
	start := p.pos
	p.expect("fun")
	if p.at("IDENT") && reserved(p.peek().Lexeme) {
		p.fail("reserved name")
	}
	name := p.expect("IDENT")
	nameTok := p.pos - 1
	p.expect("(")
	n := &Node{Kind: "fun", Name: name.Lexeme, Line: name.Line, Tok: start, NameTok: nameTok}
	if !p.at(")") {
		for {
			if len(n.Keys) >= p.MaxParams {
				p.fail("too many parameters")
			}
			n.Keys = append(n.Keys, p.expect("IDENT").Lexeme)
			n.ParamToks = append(n.ParamToks, p.pos-1)
			if !p.accept(",") {
				break
			}
		}
	}
	p.expect(")")
	p.expect("{")
	n.Kids = p.blockBody()
	n.End = p.pos
	return n
}

func (p *Parser) blockBody() []*Node {
	var out []*Node
	for !p.at("}") && !p.at("EOF") {
		out = append(out, p.declaration())
	}
	p.expect("}")
	return out
}

func (p *Parser) varDecl() *Node {
	start := p.pos
	p.expect("var")
	var decls []*Node
	for {
		if p.at("IDENT") && reserved(p.peek().Lexeme) {
			p.fail("reserved name")
		}
		name := p.expect("IDENT")
		d := &Node{Kind: "var", Name: name.Lexeme, Line: name.Line, Tok: p.pos - 1, NameTok: p.pos - 1, Kids: []*Node{nil}}
		if p.accept("=") {
			d.Kids[0] = p.expression()
		}
		d.End = p.pos
		decls = append(decls, d)
		if !p.accept(",") {
			break
		}
	}
	p.expect(";")
	if len(decls) == 1 {
		decls[0].Tok = start
		decls[0].End = p.pos
		return decls[0]
	}
	return &Node{Kind: "varlist", Kids: decls, Tok: start, End: p.pos, Line: decls[0].Line}
}

func (p *Parser) statement() *Node {
	start := p.pos
	t := p.peek()
	switch t.Kind {
	case "if":
		p.pos++
		p.expect("(")
		c := p.expression()
		p.expect(")")
		th := p.statement()
		var el *Node
		if p.accept("else") {
			el = p.statement()
		}
		return &Node{Kind: "if", Kids: []*Node{c, th, el}, Tok: start, End: p.pos, Line: t.Line}
	case "while":
		p.pos++
		p.expect("(")
		c := p.expression()
		p.expect(")")
		b := p.statement()
		return &Node{Kind: "while", Kids: []*Node{c, b}, Tok: start, End: p.pos, Line: t.Line}
	case "for":
		p.pos++
		p.expect("(")
		var init, cond, inc *Node
		if p.accept(";") {
		} else if p.at("var") {
			init = p.varDecl()
		} else {
			init = p.exprStmt()
		}
		if !p.at(";") {
			cond = p.expression()
		}
		p.expect(";")
		if !p.at(")") {
			inc = p.expression()
		}
		p.expect(")")
		b := p.statement()
		return &Node{Kind: "for", Kids: []*Node{init, cond, inc, b}, Tok: start, End: p.pos, Line: t.Line}
	case "print":
		p.pos++
		e := p.expression()
		p.expect(";")
		return &Node{Kind: "print", Kids: []*Node{e}, Tok: start, End: p.pos, Line: t.Line}
	case "return":
		p.pos++
		var e *Node
		if !p.at(";") {
			e = p.expression()
		}
		p.expect(";")
		return &Node{Kind: "return", Kids: []*Node{e}, Tok: start, End: p.pos, Line: t.Line}
	case "break", "continue":
		p.pos++
		semi := p.expect(";")
		return &Node{Kind: t.Kind, Tok: start, End: p.pos, Line: semi.Line}
	case "{":
		p.pos++
		body := p.blockBody()
		return &Node{Kind: "block", Kids: body, Tok: start, End: p.pos, Line: t.Line}
	}
	return p.exprStmt()
}

func (p *Parser) exprStmt() *Node {
	start := p.pos
	e := p.expression()
	p.expect(";")
	return &Node{Kind: "expr", Kids: []*Node{e}, Tok: start, End: p.pos, Line: e.Line}
}

func (p *Parser) expression() *Node {
	p.depth++
	defer func() { p.depth-- }()
	start := p.pos
	left := p.binary(1)
	if p.at("=") {
		eqPos := p.pos
		eq := p.peek()
		okTarget := left.Kind == "ident" || left.Kind == "index" || left.Kind == "prop"
		if !okTarget && !p.Relaxed {
			panic(bail{&SyntaxError{Tok: eqPos, Line: eq.Line, Msg: "invalid assignment target", AssignTarget: true}})
		}
		p.pos++
		val := p.expression()
		switch left.Kind {
		case "ident":
			return &Node{Kind: "assign", Name: left.Name, Kids: []*Node{val}, Line: eq.Line, Tok: start, End: p.pos, NameTok: left.NameTok}
		case "index":
			return &Node{Kind: "setindex", Kids: []*Node{left.Kids[0], left.Kids[1], val}, Line: eq.Line, Tok: start, End: p.pos}
		case "prop":
			return &Node{Kind: "setprop", Name: left.Name, Kids: []*Node{left.Kids[0], val}, Line: eq.Line, Tok: start, End: p.pos}
		default:
			return &Node{Kind: "badassign", Kids: []*Node{left, val}, Line: eq.Line, Tok: start, End: p.pos}
		}
	}
	return left
}

// binary is operator-precedence climbing driven by BinLevel.
func (p *Parser) binary(min int) *Node {
	start := p.pos
	left := p.unary()
	for {
		t := p.peek()
		lvl, ok := BinLevel[t.Kind]
		if !ok || lvl < min {
			return left
		}
		p.pos++
		right := p.binary(lvl + 1)
		kind := "binary"
		if lvl <= 2 {
			kind = "logical"
		}
		left = &Node{Kind: kind, Op: t.Kind, Kids: []*Node{left, right}, Line: t.Line, Tok: start, End: p.pos}
	}
}

func (p *Parser) unary() *Node {
	t := p.peek()
	if t.Kind == "!" || t.Kind == "-" || t.Kind == "~" {
		// iterative collection of a prefix stack (keeps host recursion shallow)
		start := p.pos
		var ops []Token
		for {
			t = p.peek()
			if t.Kind == "!" || t.Kind == "-" || t.Kind == "~" {
				ops = append(ops, t)
				p.pos++
				continue
			}
			break
		}
		n := p.suffixed()
		for i := len(ops) - 1; i >= 0; i-- {
			n = &Node{Kind: "unary", Op: ops[i].Kind, Kids: []*Node{n}, Line: ops[i].Line, Tok: start + i, End: p.pos}
		}
		return n
	}
	return p.suffixed()
}

func (p *Parser) suffixed() *Node {
	start := p.pos
	n := p.primary()
	for {
		switch p.peek().Kind {
		case "(":
			p.pos++
			c := &Node{Kind: "call", Kids: []*Node{n}, Tok: start}
			if !p.at(")") {
				for {
					c.Kids = append(c.Kids, p.expression())
					if !p.accept(",") {
						break
					}
				}
			}
			c.Line = p.expect(")").Line
			c.End = p.pos
			n = c
		case "[":
			p.pos++
			idx := p.expression()
			rb := p.expect("]")
			n = &Node{Kind: "index", Kids: []*Node{n, idx}, Line: rb.Line, Tok: start, End: p.pos}
		case ".":
			p.pos++
			name := p.expect("IDENT")
			n = &Node{Kind: "prop", Name: name.Lexeme, Kids: []*Node{n}, Line: name.Line, Tok: start, End: p.pos}
		default:
			return n
		}
	}
}

func (p *Parser) primary() *Node {
	t := p.peek()
	start := p.pos
	switch t.Kind {
	case "false", "true":
		p.pos++
		return &Node{Kind: "bool", Bool: t.Kind == "true", Line: t.Line, Tok: start, End: p.pos}
	case "nil":
		p.pos++
		return &Node{Kind: "nil", Line: t.Line, Tok: start, End: p.pos}
	case "NUMBER":
		p.pos++
		return &Node{Kind: "num", Num: t.Num, Line: t.Line, Tok: start, End: p.pos}
	case "STRING":
		p.pos++
		return &Node{Kind: "str", Str: t.Str, Line: t.Line, Tok: start, End: p.pos}
	case "IDENT":
		p.pos++
		return &Node{Kind: "ident", Name: t.Lexeme, Line: t.Line, Tok: start, End: p.pos, NameTok: start}
	case "(":
		p.pos++
		e := p.expression()
		rp := p.expect(")")
		return &Node{Kind: "group", Kids: []*Node{e}, Line: rp.Line, Tok: start, End: p.pos}
	case "[":
		p.pos++
		n := &Node{Kind: "array", Line: t.Line, Tok: start}
		if !p.at("]") {
			for {
				n.Kids = append(n.Kids, p.expression())
				if !p.accept(",") {
					break
				}
			}
		}
		p.expect("]")
		n.End = p.pos
		return n
	case "{":
		p.pos++
		n := &Node{Kind: "object", Line: t.Line, Tok: start}
		if !p.at("}") {
			for {
				k := p.expect("IDENT")
				p.expect(":")
				v := p.expression()
				n.Keys = append(n.Keys, k.Lexeme)
				n.Kids = append(n.Kids, v)
				if !p.accept(",") {
					break
				}
				if p.TrailingComma && p.at("}") {
					break
				}
			}
		}
		p.expect("}")
		n.End = p.pos
		return n
	}
	p.fail("expected expression")
	return nil
}

// ---------------------------------------------------------------------------
// Canonical rendering of trees (used to compare with the implementation's
// tree, which is rendered into the same form by the adapter).

// Sexp renders a tree.  Object literal properties are rendered sorted by key
// (a property set); duplicate keys keep the last value.
func Sexp(n *Node) string {
	var b strings.Builder
	sexp(&b, n)
	return b.String()
}

func SexpList(ns []*Node) string {
	var b strings.Builder
	for i, n := range ns {
		if i > 0 {
			b.WriteByte(' ')
		}
		sexp(&b, n)
	}
	return b.String()
}

func FmtNum(f float64) string {
	return strconv.FormatUint(math.Float64bits(f), 16)
}

func sexp(b *strings.Builder, n *Node) {
	if n == nil {
		b.WriteString("_")
		return
	}
	switch n.Kind {
	case "num":
		b.WriteString("#" + FmtNum(n.Num))
		return
	case "str":
		b.WriteString(strconv.Quote(n.Str))
		return
	case "bool":
		if n.Bool {
			b.WriteString("true")
		} else {
			b.WriteString("false")
		}
		return
	case "nil":
		b.WriteString("nil")
		return
	case "ident":
		b.WriteString("$" + n.Name)
		return
	}
	b.WriteByte('(')
	b.WriteString(n.Kind)
	if n.Op != "" {
		b.WriteString(" " + n.Op)
	}
	if n.Name != "" {
		b.WriteString(" " + n.Name)
	}
	if n.Kind == "object" {
		m := map[string]*Node{}
		for i, k := range n.Keys {
			m[k] = n.Kids[i]
		}
		ks := make([]string, 0, len(m))
		for k := range m {
			ks = append(ks, k)
		}
		sort.Strings(ks)
		for _, k := range ks {
			b.WriteString(" " + k + ":")
			sexp(b, m[k])
		}
		b.WriteByte(')')
		return
	}
	if n.Kind == "fun" {
		b.WriteString(" [" + strings.Join(n.Keys, ",") + "]")
	}
	for _, k := range n.Kids {
		b.WriteByte(' ')
		sexp(b, k)
	}
	b.WriteByte(')')
}

// StripGroups removes group nodes (deep copy).
func StripGroups(n *Node) *Node {
	if n == nil {
		return nil
	}
	if n.Kind == "group" {
		return StripGroups(n.Kids[0])
	}
	c := *n
	c.Kids = make([]*Node, len(n.Kids))
	for i, k := range n.Kids {
		c.Kids[i] = StripGroups(k)
	}
	return &c
}
