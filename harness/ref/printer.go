package ref

import (
	"strconv"
	"strings"
)

// Printing reference trees back to source text.
// Mode "min": parentheses only where the precedence table requires them.
// Mode "full": every composite sub-expression is parenthesised.

// Spell maps operator classes to the spelling used when printing; logical
// operators may be printed in either spelling (AltLogical).
type PrintOpts struct {
	Full       bool
	Atoms      bool // with Full: literals and names are parenthesised too
	AltLogical bool // print && / || with the Bangla words
}

func Level(n *Node) int {
	switch n.Kind {
	case "assign", "setindex", "setprop":
		return LevelAssign
	case "binary", "logical":
		return BinLevel[n.Op]
	case "unary":
		return LevelUnary
	case "call", "index", "prop":
		return LevelSuffix
	}
	return LevelAtom
}

func FormatNumber(f float64) string {
	return strconv.FormatFloat(f, 'f', -1, 64)
}

func (o PrintOpts) opText(op string) string {
	if o.AltLogical {
		if op == "&&" {
			return KW["and"]
		}
		if op == "||" {
			return KW["or"]
		}
	}
	return op
}

// Expr prints an expression that must be usable where a sub-expression of
// at least level min is required.
func (o PrintOpts) Expr(n *Node, min int) string {
	s := o.expr(n)
	if Level(n) < min || (o.Full && (Level(n) < LevelAtom || (o.Atoms && n.Kind != "group"))) {
		return "(" + s + ")"
	}
	return s
}

func (o PrintOpts) expr(n *Node) string {
	switch n.Kind {
	case "num":
		return FormatNumber(n.Num)
	case "str":
		return "\"" + n.Str + "\""
	case "bool":
		if n.Bool {
			return KW["true"]
		}
		return KW["false"]
	case "nil":
		return "nil"
	case "ident":
		return n.Name
	case "group":
		return "(" + o.Expr(n.Kids[0], 0) + ")"
	case "unary":
		return n.Op + " " + o.Expr(n.Kids[0], LevelUnary)
	case "binary", "logical":
		l := BinLevel[n.Op]
		return o.Expr(n.Kids[0], l) + " " + o.opText(n.Op) + " " + o.Expr(n.Kids[1], l+1)
	case "call":
		args := make([]string, 0, len(n.Kids)-1)
		for _, a := range n.Kids[1:] {
			args = append(args, o.Expr(a, 0))
		}
		return o.Expr(n.Kids[0], LevelSuffix) + "(" + strings.Join(args, ", ") + ")"
	case "index":
		return o.Expr(n.Kids[0], LevelSuffix) + "[" + o.Expr(n.Kids[1], 0) + "]"
	case "prop":
		return o.Expr(n.Kids[0], LevelSuffix) + "." + n.Name
	case "array":
		xs := make([]string, 0, len(n.Kids))
		for _, a := range n.Kids {
			xs = append(xs, o.Expr(a, 0))
		}
		return "[" + strings.Join(xs, ", ") + "]"
	case "object":
		xs := make([]string, 0, len(n.Kids))
		for i, a := range n.Kids {
			xs = append(xs, n.Keys[i]+": "+o.Expr(a, 0))
		}
		return "{" + strings.Join(xs, ", ") + "}"
	case "assign":
		return n.Name + " = " + o.Expr(n.Kids[0], 0)
	case "setindex":
		return o.Expr(n.Kids[0], LevelSuffix) + "[" + o.Expr(n.Kids[1], 0) + "] = " + o.Expr(n.Kids[2], 0)
	case "setprop":
		return o.Expr(n.Kids[0], LevelSuffix) + "." + n.Name + " = " + o.Expr(n.Kids[1], 0)
	}
	panic("printer: " + n.Kind)
}

// exprStmtText prints an expression in statement position: an expression
// whose text would start with '{' is wrapped in parentheses (a '{' at the
// start of a statement opens a block).
func (o PrintOpts) exprStmtText(n *Node) string {
	s := o.Expr(n, 0)
	if strings.HasPrefix(s, "{") {
		return "(" + s + ")"
	}
	return s
}

// Stmt prints a statement on one line.
func (o PrintOpts) Stmt(n *Node) string {
	switch n.Kind {
	case "expr":
		return o.exprStmtText(n.Kids[0]) + ";"
	case "print":
		return KW["print"] + " " + o.Expr(n.Kids[0], 0) + ";"
	case "var":
		if n.Kids[0] == nil {
			return KW["var"] + " " + n.Name + ";"
		}
		return KW["var"] + " " + n.Name + " = " + o.Expr(n.Kids[0], 0) + ";"
	case "varlist":
		parts := []string{}
		for _, d := range n.Kids {
			if d.Kids[0] == nil {
				parts = append(parts, d.Name)
			} else {
				parts = append(parts, d.Name+" = "+o.Expr(d.Kids[0], 0))
			}
		}
		return KW["var"] + " " + strings.Join(parts, ", ") + ";"
	case "block":
		return "{ " + o.Stmts(n.Kids) + " }"
	case "if":
		s := KW["if"] + " (" + o.Expr(n.Kids[0], 0) + ") " + o.Stmt(n.Kids[1])
		if n.Kids[2] != nil {
			s += " " + KW["else"] + " " + o.Stmt(n.Kids[2])
		}
		return s
	case "while":
		return KW["while"] + " (" + o.Expr(n.Kids[0], 0) + ") " + o.Stmt(n.Kids[1])
	case "for":
		init := ";"
		if n.Kids[0] != nil {
			if n.Kids[0].Kind == "expr" {
				// in a for header the initialiser is a plain expression statement
				init = o.Expr(n.Kids[0].Kids[0], 0) + ";"
			} else {
				init = o.Stmt(n.Kids[0])
			}
		}
		cond, inc := "", ""
		if n.Kids[1] != nil {
			cond = " " + o.Expr(n.Kids[1], 0)
		}
		if n.Kids[2] != nil {
			inc = " " + o.Expr(n.Kids[2], 0)
		}
		return KW["for"] + " (" + init + cond + ";" + inc + ") " + o.Stmt(n.Kids[3])
	case "break":
		return KW["break"] + ";"
	case "continue":
		return KW["continue"] + ";"
	case "return":
		if n.Kids[0] == nil {
			return KW["return"] + ";"
		}
		return KW["return"] + " " + o.Expr(n.Kids[0], 0) + ";"
	case "fun":
		return KW["fun"] + " " + n.Name + "(" + strings.Join(n.Keys, ", ") + ") { " + o.Stmts(n.Kids) + " }"
	}
	panic("printer: stmt " + n.Kind)
}

func (o PrintOpts) Stmts(ns []*Node) string {
	parts := make([]string, len(ns))
	for i, n := range ns {
		parts[i] = o.Stmt(n)
	}
	return strings.Join(parts, " ")
}

// Program prints one statement per line.
func (o PrintOpts) Program(ns []*Node) string {
	parts := make([]string, len(ns))
	for i, n := range ns {
		parts[i] = o.Stmt(n)
	}
	return strings.Join(parts, "\n") + "\n"
}
