package main

import (
	"fmt"
	"os"
	"path/filepath"
	"strings"

	"verifharness/ref"
)

// selftest: oracle self-checks (DESIGN §6): the model agrees with the shipped
// examples, the Earley grammar accepts them, the comparators accept the known
// renderings and reject wrong ones.
func selftest() int {
	bad := 0
	fail := func(format string, a ...interface{}) {
		bad++
		fmt.Printf("SELFTEST FAIL: "+format+"\n", a...)
	}
	repo := envOr("VERIF_REPO", "/repo")
	files, _ := filepath.Glob(filepath.Join(repo, "example", "*.bn"))
	g := ref.BuildGrammar(false, false)
	for _, f := range files {
		b, _ := os.ReadFile(f)
		src := string(b)
		toks, lerrs := ref.Lex([]rune(src))
		if len(lerrs) > 0 {
			fail("%s: spec lexer reports errors", f)
			continue
		}
		ok, at := g.Recognise(ref.EarleyKinds(toks))
		if !ok {
			fail("%s: Earley rejects at token %d", f, at)
		}
		_, serr := ref.NewParser(toks).ParseProgram()
		if serr != nil {
			fail("%s: reference parser rejects: %v", f, serr)
		}
		if strings.Contains(src, ref.BI["clock"]) {
			continue
		}
		m := RunModel(src, "", false, 0)
		o := RunLib(src, RunOpts{MaxSteps: 1000000})
		c := NewCtx()
		c.Prop = "selftest"
		v := CompareModel(c, m, o, JudgeOpts{})
		fmt.Printf("selftest example %s: %q\n", filepath.Base(f), v)
		for _, vv := range c.res.Violations {
			fmt.Printf("   (example disagreement: %s)\n", trunc(vv.Why, 200))
		}
	}
	// matcher unit tests
	type mt struct {
		out  string
		pat  *ref.Pat
		want bool
	}
	num := func(f float64) *ref.Pat { return &ref.Pat{Kind: "num", Num: f} }
	txt := func(s string) *ref.Pat { return &ref.Pat{Kind: "text", Segs: []ref.Seg{{Text: s}}} }
	cases := []mt{
		{"1e+06\n", num(1e6), true}, {"1000000\n", num(1e6), true}, {"1000001\n", num(1e6), false},
		{"[1 2 3]\n", &ref.Pat{Kind: "arr", Elems: []*ref.Pat{num(1), num(2), num(3)}}, true},
		{"[1, 2, 3]\n", &ref.Pat{Kind: "arr", Elems: []*ref.Pat{num(1), num(2), num(3)}}, true},
		{"[1 2]\n", &ref.Pat{Kind: "arr", Elems: []*ref.Pat{num(1), num(2), num(3)}}, false},
		{"[[97 98]]\n", &ref.Pat{Kind: "arr", Elems: []*ref.Pat{txt("ab")}}, false},
		{"map[a:1 k:x]\n", &ref.Pat{Kind: "obj", Keys: []string{"k", "a"}, Elems: []*ref.Pat{txt("x"), num(1)}}, true},
		{"{a: 1, k: x}\n", &ref.Pat{Kind: "obj", Keys: []string{"k", "a"}, Elems: []*ref.Pat{txt("x"), num(1)}}, true},
		{"map[a:1]\n", &ref.Pat{Kind: "obj", Keys: []string{"k", "a"}, Elems: []*ref.Pat{txt("x"), num(1)}}, false},
		{"[b a]\n", &ref.Pat{Kind: "listing", Elems: []*ref.Pat{txt("a"), txt("b")}, Listing: &ref.Listing{}}, true},
		{"[b b]\n", &ref.Pat{Kind: "listing", Elems: []*ref.Pat{txt("a"), txt("b")}, Listing: &ref.Listing{}}, false},
		{"[k1 k]\n", &ref.Pat{Kind: "listing", Elems: []*ref.Pat{txt("k"), txt("k1")}, Listing: &ref.Listing{}}, true},
		{"-0\n", num(negZero()), true}, {"0\n", num(negZero()), false},
		{"nil\n", &ref.Pat{Kind: "nil"}, true}, {"<nil>\n", &ref.Pat{Kind: "nil"}, false},
		{"[<nil>]\n", &ref.Pat{Kind: "arr", Elems: []*ref.Pat{{Kind: "nil"}}}, true},
		{"<function f>\n", &ref.Pat{Kind: "fn"}, true},
	}
	for _, tc := range cases {
		_, _, why := MatchOutput(tc.out, []ref.Piece{{Kind: "print", Pat: tc.pat}})
		if (why == "") != tc.want {
			fail("matcher on %q: got ok=%v want %v (%s)", tc.out, why == "", tc.want, why)
		}
	}
	// Earley vs reference parser agreement on a few texts
	for _, src := range []string{"a = b = c;", "1 + 2 = 3;", "{a:1};", "x = {a:1};", Print("1") + "}", K["if"] + " (a) b; " + K["else"] + " c;", K["var"] + " " + B["len"] + " = 1;", "a.b[1](2).c = 3;", "(a) = 1;"} {
		toks, _ := ref.Lex([]rune(src))
		ok, at := g.Recognise(ref.EarleyKinds(toks))
		_, serr := ref.NewParser(toks).ParseProgram()
		if ok != (serr == nil) || (!ok && at != serr.Tok) {
			fail("Earley/ref-parser disagree on %q: earley ok=%v at=%d, parser err=%v", src, ok, at, serr)
		}
	}
	if bad > 0 {
		return 1
	}
	fmt.Println("selftest ok")
	return 0
}

func negZero() float64 { z := 0.0; return -z }
