package main

import (
	"fmt"
	"math"

	"github.com/ah-naf/borno/token"

	"verifharness/ref"
)

// implKind maps the implementation's token types to the reference kinds.
var implKind = map[token.TokenType]string{
	token.LEFT_PAREN: "(", token.RIGHT_PAREN: ")", token.LEFT_BRACE: "{", token.RIGHT_BRACE: "}",
	token.LEFT_BRACKET: "[", token.RIGHT_BRACKET: "]", token.COMMA: ",", token.DOT: ".", token.MINUS: "-",
	token.PLUS: "+", token.SEMICOLON: ";", token.COLON: ":", token.SLASH: "/", token.STAR: "*",
	token.AND: "&", token.OR: "|", token.XOR: "^", token.POWER: "**", token.NOT: "~", token.MODULO: "%",
	token.BANG: "!", token.BANG_EQUAL: "!=", token.EQUAL: "=", token.EQUAL_EQUAL: "==", token.GREATER: ">",
	token.GREATER_EQUAL: ">=", token.LEFT_SHIFT: "<<", token.LESS: "<", token.LESS_EQUAL: "<=", token.RIGHT_SHIFT: ">>",
	token.IDENTIFIER: "IDENT", token.STRING: "STRING", token.NUMBER: "NUMBER",
	token.BREAK: "break", token.CONTINUE: "continue", token.LOGICAL_AND: "&&", token.ELSE: "else", token.FALSE: "false",
	token.FUN: "fun", token.FOR: "for", token.IF: "if", token.NIL: "nil", token.LOGICAL_OR: "||", token.PRINT: "print",
	token.RETURN: "return", token.TRUE: "true", token.VAR: "var", token.WHILE: "while", token.EOF: "EOF",
}

func litText(v interface{}) (string, bool) {
	switch s := v.(type) {
	case string:
		return s, true
	case []rune:
		return string(s), true
	case []byte:
		return string(s), true
	}
	return "", false
}

func litNum(v interface{}) (float64, bool) {
	switch n := v.(type) {
	case float64:
		return n, true
	case float32:
		return float64(n), true
	case int:
		return float64(n), true
	case int64:
		return float64(n), true
	}
	return 0, false
}

// diffTokens compares the implementation's token list with the spec lexer's.
func diffTokens(impl []token.Token, spec []ref.Token) string {
	n := len(impl)
	if len(spec) < n {
		n = len(spec)
	}
	for i := 0; i < n; i++ {
		a, b := impl[i], spec[i]
		k, ok := implKind[a.Type]
		if !ok {
			return fmt.Sprintf("token %d has unknown type %d", i, a.Type)
		}
		if k != b.Kind {
			return fmt.Sprintf("token %d: type %s, expected %s (lexeme %q vs %q)", i, k, b.Kind, a.Lexeme, b.Lexeme)
		}
		if a.Lexeme != b.Lexeme {
			return fmt.Sprintf("token %d (%s): lexeme %q, expected %q", i, k, a.Lexeme, b.Lexeme)
		}
		if a.Line != b.Line {
			return fmt.Sprintf("token %d (%s %q): line %d, expected %d", i, k, a.Lexeme, a.Line, b.Line)
		}
		switch k {
		case "STRING":
			s, ok := litText(a.Literal)
			if !ok || s != b.Str {
				return fmt.Sprintf("token %d: string value %q, expected %q", i, s, b.Str)
			}
		case "NUMBER":
			f, ok := litNum(a.Literal)
			if !ok || math.Float64bits(f) != math.Float64bits(b.Num) {
				return fmt.Sprintf("token %d: number value %v, expected %v", i, a.Literal, b.Num)
			}
		}
	}
	if len(impl) != len(spec) {
		return fmt.Sprintf("%d tokens, expected %d", len(impl), len(spec))
	}
	if len(impl) == 0 || impl[len(impl)-1].Type != token.EOF {
		return "token list does not end with the end-of-input token"
	}
	for i := 0; i+1 < len(impl); i++ {
		if impl[i].Type == token.EOF {
			return "more than one end-of-input token"
		}
	}
	return ""
}
