add("C02", "runtime monitoring: differential execution of the real interpreter against an independent reference model over the full operator x operand-kind x magnitude matrix, equality-law monitors, math/big cross-check",
    "Exploration: every binary/unary operator on every ordered pair of a 45-value pool (all runtime kinds, boundary magnitudes, several producers per value), plus seeded random doubles/integers/nested expressions; each execution of the real code is compared with refborno's value-or-fault. Held means held on the executions listed in the evidence, nothing more.",
    "Trusted: the harness's Go float64 arithmetic, math.Mod, math.Pow (cross-checked with math/big on exact powers), strconv.ParseFloat for numeral read-back; refborno's reading of the property.",
    "DESIGN.md §4 C02")
add("C01", "runtime monitoring: reference-parser tree equality and print/parse round-trip monitors over enumerated operator pairs/triples, suffix/assignment/statement forms, all short token sequences and seeded random trees",
    "Exploration: every accepted text among the enumerated families has the real parser's tree (walked through exported AST fields) compared with an independent precedence-table parser; random trees are printed with minimal/full parentheses and re-parsed by the real parser; parenthesised variants are executed and must print the same.",
    "Trusted: the 13-row precedence table and statement parser in harness/ref/parser.go (cross-checked against the Earley grammar on every accepted text); AST walked through exported fields of package ast.",
    "DESIGN.md §4 C01")
add("C08", "runtime monitoring: spec lexer + Earley recogniser (grammar as data) as accept/reject and first-error-position oracle; panic, step-budget and nothing-ran monitors on hooked executions; CLI exit/stdout monitor",
    "Exploration: all short token sequences and fragment strings, every prefix of corpus programs extended by every token, reserved names, parameter limits, random soup/mutations, 10000-deep nests; the real front end's accept/reject, first diagnostic line, totality (hook step budgets, recovered panics) and 'nothing executed' (evaluation-step hook, stdout) are checked on each.",
    "Trusted: the transcription of grammer.txt with C08's amendments in harness/ref/earley.go; the hook counters in /repo/vhook.",
    "DESIGN.md §4 C08")
add("C09", "runtime monitoring: spec-lexer differential plus source-partition/line invariant on every ScanTokens result over exhaustive short fragment strings and every Unicode scalar value",
    "Exploration: token lists (type, lexeme, literal, line, single EOF) compared with an independent longest-match lexer; partition and line invariant computed from the source text; lexical diagnostics matched one-to-one with the spec lexer's error list.",
    "Trusted: Go's unicode tables; harness/ref/lexer.go.",
    "DESIGN.md §4 C09")
add("C10", "runtime monitoring: exact big-rational nearest-even oracle on every NUMBER token; exhaustive per-code-point transliteration/classification; script-respelling equality monitor",
    "Exploration with an exhaustively enumerated sub-space: all 1,112,064 Unicode scalar values for transliteration and digit classification; all digit strings of length <=4 with all script mixtures (<=3); seeded random literals including exact midpoints, subnormals and the overflow threshold.",
    "Trusted: math/big rational arithmetic; math.Nextafter.",
    "DESIGN.md §4 C10")
