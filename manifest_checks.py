add("C02", "runtime monitoring: differential execution of the real interpreter against an independent reference model over the full operator x operand-kind x magnitude matrix, equality-law monitors, math/big cross-check",
    "Exploration: every binary/unary operator on every ordered pair of a 45-value pool (all runtime kinds, boundary magnitudes, several producers per value), plus seeded random doubles/integers/nested expressions; each execution of the real code is compared with refborno's value-or-fault. Held means held on the executions listed in the evidence, nothing more.",
    "Trusted: the harness's Go float64 arithmetic, math.Mod, math.Pow (cross-checked with math/big on exact powers), strconv.ParseFloat for numeral read-back; refborno's reading of the property.",
    "DESIGN.md §4 C02")
add("C01", "runtime monitoring: reference-parser tree equality and print/parse round-trip monitors over enumerated operator pairs/triples, suffix/assignment/statement forms, all short token sequences and seeded random trees",
    "Exploration: every accepted text among the enumerated families has the real parser's tree (walked through exported AST fields) compared with an independent precedence-table parser; random trees are printed with minimal/full parentheses and re-parsed by the real parser; parenthesised variants are executed and must print the same.",
    "Trusted: the 13-row precedence table and statement parser in harness/ref/parser.go (cross-checked against the Earley grammar on every accepted text); AST walked through exported fields of package ast.",
    "DESIGN.md §4 C01")
add("C08", "runtime monitoring: spec lexer + Earley recogniser (grammar as data) as accept/reject and first-error-position oracle; panic, step-budget and nothing-ran monitors on hooked executions; CLI exit/stdout monitor",
    "Exploration: all short token sequences and fragment strings, every prefix of corpus programs extended by every token, reserved names, parameter limits, random soup/mutations, 10000-deep nests; the real front end's accept/reject, first diagnostic line, totality (hook step budgets, recovered panics) and 'nothing executed' (evaluation-step hook, stdout) are checked on each.",
    "Trusted: the transcription of grammer.txt with C08's amendments in harness/ref/earley.go; the hook counters in /repo/vhook.",
    "DESIGN.md §4 C08")
add("C09", "runtime monitoring: spec-lexer differential plus source-partition/line invariant on every ScanTokens result over exhaustive short fragment strings and every Unicode scalar value",
    "Exploration: token lists (type, lexeme, literal, line, single EOF) compared with an independent longest-match lexer; partition and line invariant computed from the source text; lexical diagnostics matched one-to-one with the spec lexer's error list.",
    "Trusted: Go's unicode tables; harness/ref/lexer.go.",
    "DESIGN.md §4 C09")
add("C10", "runtime monitoring: exact big-rational nearest-even oracle on every NUMBER token; exhaustive per-code-point transliteration/classification; script-respelling equality monitor",
    "Exploration with an exhaustively enumerated sub-space: all 1,112,064 Unicode scalar values for transliteration and digit classification; all digit strings of length <=4 with all script mixtures (<=3); seeded random literals including exact midpoints, subnormals and the overflow threshold.",
    "Trusted: math/big rational arithmetic; math.Nextafter.",
    "DESIGN.md §4 C10")
add("C03", "runtime monitoring: scope-model differential on all short declare/assign/read/enter/exit histories with unique values, plus a model-free scope-chain invariant checked online on hook events (EnvDefine/EnvLookup/EnvHit/EnvMiss)",
    "Exploration: every balanced event history up to a length bound over deliberately colliding names and seeded random larger programs; each real execution (scope hooks on) compared with refborno's scope objects on stdout, first diagnostic and exit status; the hook trace must resolve every lookup in the innermost scope holding the name.",
    "Trusted: refborno's scope model (block, for-header, activation under the closure scope, program scope under globals); the vhook events.",
    "DESIGN.md §4 C03")
add("C04", "runtime monitoring: closure/activation model differential over every return placement to depth 3, positional binding/arity matrix, and every interleaving of calls to sibling closures (unique counter values identify the activation observed)",
    "Exploration: 155 return paths x iteration x value, 0-4 params x 0-5 args, non-callable callees of every kind, recursion to depth 500, all call interleavings over the closures of 1-3 factory activations, seeded random compositions; in-process and through the binary.",
    "Trusted: refborno's activation/closure model.",
    "DESIGN.md §4 C04")
add("C05", "runtime monitoring: trace-point model differential over enumerated loop/branch skeletons whose initializer, condition and increment are tracing probes; stray-signal diagnostics monitor",
    "Exploration: every loop skeleton up to a size bound (5 outer loop kinds, 13 control items, nested inner loops), arm selection for 21 values of every kind in 6 contexts, stray break/continue/return in 8 shapes, seeded random programs; complete printed trace compared with refborno.",
    "Trusted: refborno's control-flow model.",
    "DESIGN.md §4 C05")
add("C06", "runtime monitoring: planted fault x syntactic position matrix; X-never-after-Y monitor on the ordered hook events (stdout / diagnostic / built-in call / stdin read); logical step budget for termination; merged-pipe ordering monitor on the binary",
    "Exploration (fault enumeration over positions): 79 fault variants x 45 positions x 3 layouts with tripwires after the fault (tagged prints, input prompts with stdin available, loops that only a later break ends); first diagnostic category and line, stdout prefix, exit 70, nothing-afterwards and bounded termination are checked on each execution.",
    "Trusted: refborno's fault typing and lines; the tolerant diagnostic-category patterns in harness/match.go; vhook event order.",
    "DESIGN.md §4 C06")
