add("C02", "runtime monitoring: differential execution of the real interpreter against an independent reference model over the full operator x operand-kind x magnitude matrix, equality-law monitors, math/big cross-check",
    "Exploration: every binary/unary operator on every ordered pair of a 45-value pool (all runtime kinds, boundary magnitudes, several producers per value), plus seeded random doubles/integers/nested expressions; each execution of the real code is compared with refborno's value-or-fault. Held means held on the executions listed in the evidence, nothing more.",
    "Trusted: the harness's Go float64 arithmetic, math.Mod, math.Pow (cross-checked with math/big on exact powers), strconv.ParseFloat for numeral read-back; refborno's reading of the property.",
    "DESIGN.md §4 C02")
add("C01", "runtime monitoring: reference-parser tree equality and print/parse round-trip monitors over enumerated operator pairs/triples, suffix/assignment/statement forms, all short token sequences and seeded random trees",
    "Exploration: every accepted text among the enumerated families has the real parser's tree (walked through exported AST fields) compared with an independent precedence-table parser; random trees are printed with minimal/full parentheses and re-parsed by the real parser; parenthesised variants are executed and must print the same.",
    "Trusted: the 13-row precedence table and statement parser in harness/ref/parser.go (cross-checked against the Earley grammar on every accepted text); AST walked through exported fields of package ast.",
    "DESIGN.md §4 C01")
add("C08", "runtime monitoring: spec lexer + Earley recogniser (grammar as data) as accept/reject and first-error-position oracle; panic, step-budget and nothing-ran monitors on hooked executions; CLI exit/stdout monitor",
    "Exploration: all short token sequences and fragment strings, every prefix of corpus programs extended by every token, reserved names, parameter limits, random soup/mutations, 10000-deep nests; the real front end's accept/reject, first diagnostic line, totality (hook step budgets, recovered panics) and 'nothing executed' (evaluation-step hook, stdout) are checked on each.",
    "Trusted: the transcription of grammer.txt with C08's amendments in harness/ref/earley.go; the hook counters in /repo/vhook.",
    "DESIGN.md §4 C08")
add("C09", "runtime monitoring: spec-lexer differential plus source-partition/line invariant on every ScanTokens result over exhaustive short fragment strings and every Unicode scalar value",
    "Exploration: token lists (type, lexeme, literal, line, single EOF) compared with an independent longest-match lexer; partition and line invariant computed from the source text; lexical diagnostics matched one-to-one with the spec lexer's error list.",
    "Trusted: Go's unicode tables; harness/ref/lexer.go.",
    "DESIGN.md §4 C09")
add("C10", "runtime monitoring: exact big-rational nearest-even oracle on every NUMBER token; exhaustive per-code-point transliteration/classification; script-respelling equality monitor",
    "Exploration with an exhaustively enumerated sub-space: all 1,112,064 Unicode scalar values for transliteration and digit classification; all digit strings of length <=4 with all script mixtures (<=3); seeded random literals including exact midpoints, subnormals and the overflow threshold.",
    "Trusted: math/big rational arithmetic; math.Nextafter.",
    "DESIGN.md §4 C10")
add("C03", "runtime monitoring: scope-model differential on all short declare/assign/read/enter/exit histories with unique values, plus a model-free scope-chain invariant checked online on hook events (EnvDefine/EnvLookup/EnvHit/EnvMiss)",
    "Exploration: every balanced event history up to a length bound over deliberately colliding names and seeded random larger programs; each real execution (scope hooks on) compared with refborno's scope objects on stdout, first diagnostic and exit status; the hook trace must resolve every lookup in the innermost scope holding the name.",
    "Trusted: refborno's scope model (block, for-header, activation under the closure scope, program scope under globals); the vhook events.",
    "DESIGN.md §4 C03")
add("C04", "runtime monitoring: closure/activation model differential over every return placement to depth 3, positional binding/arity matrix, and every interleaving of calls to sibling closures (unique counter values identify the activation observed)",
    "Exploration: 155 return paths x iteration x value, 0-4 params x 0-5 args, non-callable callees of every kind, recursion to depth 500, all call interleavings over the closures of 1-3 factory activations, seeded random compositions; in-process and through the binary.",
    "Trusted: refborno's activation/closure model.",
    "DESIGN.md §4 C04")
add("C05", "runtime monitoring: trace-point model differential over enumerated loop/branch skeletons whose initializer, condition and increment are tracing probes; stray-signal diagnostics monitor",
    "Exploration: every loop skeleton up to a size bound (5 outer loop kinds, 13 control items, nested inner loops), arm selection for 21 values of every kind in 6 contexts, stray break/continue/return in 8 shapes, seeded random programs; complete printed trace compared with refborno.",
    "Trusted: refborno's control-flow model.",
    "DESIGN.md §4 C05")
add("C06", "runtime monitoring: planted fault x syntactic position matrix; X-never-after-Y monitor on the ordered hook events (stdout / diagnostic / built-in call / stdin read); logical step budget for termination; merged-pipe ordering monitor on the binary",
    "Exploration (fault enumeration over positions): 79 fault variants x 45 positions x 3 layouts with tripwires after the fault (tagged prints, input prompts with stdin available, loops that only a later break ends); first diagnostic category and line, stdout prefix, exit 70, nothing-afterwards and bounded termination are checked on each execution.",
    "Trusted: refborno's fault typing and lines; the tolerant diagnostic-category patterns in harness/match.go; vhook event order.",
    "DESIGN.md §4 C06")
add("C11", "runtime monitoring: pure-list-model differential after every step of all short operation histories over aliased arrays, every written value unique; history of every array ever returned kept live and re-observed",
    "Exploration: every history of <=2 steps (and every 2nd of <=3; thorough: all of <=4) over 28 non-faulting and 19 faulting step kinds on three arrays with shared ancestry, random histories of up to 34 steps; after each step every live array, its length and every previously returned array are printed and compared with refborno.",
    "Trusted: refborno's list model with reference identity.",
    "DESIGN.md §4 C11")
add("C12", "runtime monitoring: pure-map-model differential after every step of all short operation histories over aliased objects; key/value listing permutation-and-consistency monitor; each program executed 3 times (hash iteration order as schedule)",
    "Exploration: every history of <=2 steps (every 3rd of <=3; thorough: all of <=4) over 23 non-faulting and 14 faulting step kinds on three objects with shared ancestry, random histories; each listing performed twice in a row; listings may come in any order but must be permutations of the current entries and agree position-wise for an unmodified object.",
    "Trusted: refborno's map model with reference identity; the tolerant container reader in harness/match.go.",
    "DESIGN.md §4 C12")
add("C14", "runtime monitoring: probe-tag order model — every operand/argument/element/index is a side-effecting probe call with a unique tag; printed tag sequence compared with refborno; truthiness table x contexts",
    "Exploration: 45 expression forms at depth 1, every form x compatible sub-form at depth 2, seeded random nests at depth 3; 29 values x 11 truthiness contexts; hand-written store-order cases; in-process and through the binary.",
    "Trusted: refborno's evaluation order (left to right, callee before arguments, value before store, short-circuit).",
    "DESIGN.md §4 C14")
add("C15", "runtime monitoring: numeral read-back and shortest-digits monitor, NFC / canonical-equivalence monitor on stdout bytes, line-triple monitor (দেখাও v = \"\"+v = v+\"\")",
    "Exploration: boundary and random doubles by bit pattern printed as triples, bitwise/built-in numeric results, 32 strings x 12 placements including every Bangla code point with a canonical decomposition, nested containers; every numeral must read back exactly, be shortest, integers below 10^6 plain; output valid UTF-8 in NFC; containers show all elements/properties.",
    "Trusted: strconv read-back (cross-checked by C10), golang.org/x/text/unicode/norm.",
    "DESIGN.md §4 C15")
add("C17", "runtime monitoring: exact / ulp-bounded math oracle on printed results; built-in x arity x argument-kind matrix with fault monitors; pow-vs-operator byte equality; min/max permutation model; causal clock bracket",
    "Exploration: all 17 built-ins x 0-2 arguments x 12 kinds (+ sampled 3-4), numeric batches over boundary and random doubles (abs/sqrt/round exact via big arithmetic, trig within 2 ulp), ঘাত vs ** side by side, min/max over arrangements in list and array forms, ক্লক() bracketed around the child process.",
    "Trusted: Go math package as 'the platform's math library' for sin/cos/tan/pow; math/big for exact checks.",
    "DESIGN.md §4 C17")
add("C07", "runtime monitoring: abnormal-termination monitor (recovered Go panics in-process, worker death on fatal errors, CLI exit status / panic banner) over the operator, built-in and access-form matrices, untyped random programs, mutated programs and nesting/size stress",
    "Exploration: the whole operator x operand matrix, every built-in x argument kinds incl. boundary magnitudes, every access form x value kind x index kind, seeded untyped random programs (dense faults), token mutations of valid programs, 10000-deep nests, self-containing structures; every execution must end normally or with exit 70 and a diagnostic.",
    "Trusted: Go's recover() for ordinary panics; the parent process attributes unrecoverable deaths to the journalled case.",
    "DESIGN.md §4 C07")
add("C13", "runtime monitoring: repetition monitor — the same program on the same input executed many times in one process and as fresh processes with varied environment; Go's per-iteration map randomisation is the schedule",
    "Exploration: shipped examples, programs biased to map-iteration-order dependence (object literals with probe initialisers incl. repeated and case-colliding keys, listings used as data, diagnostics rendering literals, failing initialisers), general random programs; 8/40 in-process and 4/15 process executions each; stdout bytes, exit status and first diagnostic must be identical.",
    "Trusted: nothing beyond byte comparison; reach is bounded by the repetition count (escape probability stated in the evidence rule).",
    "DESIGN.md §4 C13")
add("C16", "runtime monitoring: metamorphic origin-independence monitor — pairwise equality of observation records across 12-21 producers of one value in ~170 one-hole contexts",
    "Exploration: every context x value group compares every producer's (stdout, exit status, normalised first diagnostic) with the literal producer's, in-process and through the binary.",
    "Trusted: the producers are equal values by the language's own definitions; diagnostics are normalised by removing line tags and quoted renderings.",
    "DESIGN.md §4 C16")
add("C18", "runtime monitoring: six metamorphic transform families (layout, digit script, logical synonyms, renaming, parentheses, dead code) applied on the spec lexer's tokens / reference parser's spans; original vs variant observation equality",
    "Exploration: shipped examples, hand-written programs and seeded generated programs (valid and faulting) x 13 variants each; stdout bytes, exit status and normalised first diagnostic must agree.",
    "Trusted: the spec lexer and reference parser used to place the transforms (they never touch the code under test).",
    "DESIGN.md §4 C18")
add("C19", "runtime monitoring: outcome-class oracle on (exit status, stdout, stderr) of the plain binary over argv shapes x program classes x stdin shapes; InputRead hook counts stdin reads in-process; strace fault injection for unreadable files (thorough)",
    "Exploration: 21 argv shapes, ~1300 (program, stdin) pairs over every outcome class with 0-4 ইনপুট calls, error positions, ইনপুট corner cases; each compared with refborno's class, stdout (prompts, trimmed lines) and diagnostics.",
    "Trusted: refborno; the spec front end for the static-error class.",
    "DESIGN.md §4 C19")
add("C20", "runtime monitoring: REPL transcript monitor on the single-pipe (stdout+stderr) stream split at prompts — response count, per-line model, fresh-session differential, exit status",
    "Exploration: every session of <=2/<=3 lines over a 42-line pool and seeded random sessions of up to 40 lines, with and without a final newline.",
    "Trusted: refborno in REPL mode for self-contained lines; the same binary's fresh single-line session as differential baseline.",
    "DESIGN.md §4 C20")
