#!/usr/bin/env python3
"""Regenerates MANIFEST.json from the table below (keeps it valid at all times)."""
import json, subprocess

CHECKS = {
 # id: (technique, level text, level note, design_ref)
}
def add(i, technique, text, note, ref):
    CHECKS[i] = (technique, text, note, ref)

exec(open('/verif/manifest_checks.py').read())

props = [json.loads(l) for l in open('/verif/properties.jsonl')]
hook_commits = subprocess.run(['git','-C','/repo','log','--format=%H','--grep=^verif hooks'],capture_output=True,text=True).stdout.split()
m = {
 "version": 1,
 "setup_cmd": "cd /verif && ./vcheck --build-only",
 "hooks": {
   "guard": "verif",
   "enable": "go build -tags verif (package github.com/ah-naf/borno/vhook: hook_on.go under //go:build verif, hook_off.go empty stubs otherwise); ./vcheck builds borno, borno-verif and the harness from /repo's working tree on every run",
   "baseline_off_cmd": "cd /repo && GOFLAGS=-mod=mod GOPROXY=off GOSUMDB=off GOTOOLCHAIN=local go test -json -vet=off -count=1 -timeout 25m ./...",
   "source_commits": hook_commits,
   "add_only": True,
 },
 "engines": [
   {"name": "vharness", "path": "/verif/harness", "serves_properties": sorted(CHECKS), "kind_free_text": "Go harness: runs the real lexer/parser/interpreter in-process under -tags verif hooks (P-lib) and the plain borno binary as child processes (P-cli) on enumerated and seeded-random workloads; oracles are an independent reference model (refborno: spec lexer, Earley recogniser over the published grammar, precedence-table parser, evaluator), metamorphic relations and online monitors over hook event traces"},
 ],
 "checks": [],
 "not_applicable": [],
 "notes": "Technique family: runtime monitoring. Every verdict is 'held on the executions observed'; evidence files list what was observed. See DESIGN.md.",
}
for p in props:
    i = p['id']
    if i in CHECKS:
        t, text, note, ref = CHECKS[i]
        m["checks"].append({
          "property_id": i,
          "quick_cmd": f"./vcheck {i} --tier quick",
          "thorough_cmd": f"./vcheck {i} --tier thorough",
          "evidence_file": f"/verif/evidence/{i}.json",
          "replay_cmd_template": f"./vcheck {i} --replay {{path}}",
          "engine": "vharness",
          "level_claimed": {"category": "exploration", "text": text, "design_ref": ref},
          "level_note": note,
          "technique": t,
        })
    else:
        m["not_applicable"].append({"property_id": i, "reason": "runtime monitoring applies (see DESIGN.md §4) but the check is not built yet in this revision; not claimed until it is"})
json.dump(m, open('/verif/MANIFEST.json','w'), indent=1, ensure_ascii=False)
print(len(m["checks"]), "checks,", len(m["not_applicable"]), "not yet claimed")
