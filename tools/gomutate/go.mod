module gomutate

go 1.22
