// gomutate: a small AST-based mutation generator for the repository under
// test.  It enumerates single-site mutations of the non-test Go files
// (operator swaps, condition forcing, constant tweaks, statement deletion,
// branch-keyword swaps) and can apply the N-th one in place to a copy.
//
//	gomutate -repo DIR -list           one line per mutant: N file:line kind description
//	gomutate -repo DIR -apply N        rewrite the file of mutant N inside DIR
package main

import (
	"flag"
	"fmt"
	"go/ast"
	"go/parser"
	"go/printer"
	"go/token"
	"os"
	"path/filepath"
	"sort"
	"strings"
)

type mutant struct {
	file string
	line int
	kind string
	desc string
	do   func()
}

var swaps = map[token.Token][]token.Token{
	token.LSS: {token.LEQ, token.GEQ}, token.LEQ: {token.LSS, token.GTR}, token.GTR: {token.GEQ, token.LEQ}, token.GEQ: {token.GTR, token.LSS},
	token.EQL: {token.NEQ}, token.NEQ: {token.EQL},
	token.LAND: {token.LOR}, token.LOR: {token.LAND},
	token.ADD: {token.SUB}, token.SUB: {token.ADD}, token.MUL: {token.QUO}, token.QUO: {token.MUL},
	token.SHL: {token.SHR}, token.SHR: {token.SHL}, token.AND: {token.OR}, token.OR: {token.AND},
}

func collect(fset *token.FileSet, path string, f *ast.File) []mutant {
	var out []mutant
	add := func(pos token.Pos, kind, desc string, do func()) {
		out = append(out, mutant{file: path, line: fset.Position(pos).Line, kind: kind, desc: desc, do: do})
	}
	isVhook := func(n ast.Node) bool {
		found := false
		ast.Inspect(n, func(x ast.Node) bool {
			if s, ok := x.(*ast.SelectorExpr); ok {
				if id, ok := s.X.(*ast.Ident); ok && id.Name == "vhook" {
					found = true
				}
			}
			return !found
		})
		return found
	}
	var walkBlock func(list *[]ast.Stmt)
	walkBlock = func(list *[]ast.Stmt) {
		for i := range *list {
			i := i
			st := (*list)[i]
			if isVhook(st) {
				if _, isExpr := st.(*ast.ExprStmt); isExpr {
					continue
				}
			}
			switch s := st.(type) {
			case *ast.ExprStmt, *ast.IncDecStmt:
				add(st.Pos(), "delete-stmt", "statement removed", func() { (*list)[i] = &ast.EmptyStmt{} })
			case *ast.AssignStmt:
				if s.Tok == token.ASSIGN || s.Tok == token.ADD_ASSIGN {
					add(st.Pos(), "delete-assign", "assignment removed", func() { (*list)[i] = &ast.EmptyStmt{} })
				}
			case *ast.BranchStmt:
				if s.Tok == token.BREAK && s.Label == nil {
					add(st.Pos(), "break-to-continue", "break -> continue", func() { s.Tok = token.CONTINUE })
				} else if s.Tok == token.CONTINUE {
					add(st.Pos(), "continue-to-break", "continue -> break", func() { s.Tok = token.BREAK })
				}
			case *ast.IfStmt:
				redundantGuard := false
				if sel, ok := s.Cond.(*ast.SelectorExpr); ok && sel.Sel.Name == "HadRuntimeError" {
					// `if utils.HadRuntimeError { return ... }` after a sub-evaluation: eval itself returns at
					// once when the flag is set, so disabling one of these guards is (nearly always) equivalent
					redundantGuard = true
				}
				if !isVhook(s.Cond) && !redundantGuard {
					cond := s.Cond
					add(s.Pos(), "if-true", "condition forced true", func() { s.Cond = ast.NewIdent("true") })
					add(s.Pos(), "if-false", "condition forced false", func() { s.Cond = ast.NewIdent("false") })
					add(s.Pos(), "if-negate", "condition negated", func() { s.Cond = &ast.UnaryExpr{Op: token.NOT, X: &ast.ParenExpr{X: cond}} })
				}
			}
		}
	}
	ast.Inspect(f, func(n ast.Node) bool {
		switch x := n.(type) {
		case *ast.FuncDecl:
			if x.Name.Name == "String" || x.Name.Name == "Error" {
				return false // renderings only
			}
		case *ast.BlockStmt:
			walkBlock(&x.List)
		case *ast.CaseClause:
			walkBlock(&x.Body)
		case *ast.BinaryExpr:
			if alts, ok := swaps[x.Op]; ok {
				// skip string concatenations with literals on either side (message building)
				if x.Op == token.ADD {
					if l, ok := x.X.(*ast.BasicLit); ok && l.Kind == token.STRING {
						return true
					}
					if r, ok := x.Y.(*ast.BasicLit); ok && r.Kind == token.STRING {
						return true
					}
				}
				orig := x.Op
				for _, a := range alts {
					a := a
					add(x.OpPos, "binop", fmt.Sprintf("%s -> %s", orig, a), func() { x.Op = a })
				}
			}
		case *ast.KeyValueExpr:
			// `LineNumber: 0` in the "no signal" value carries no meaning: mutating it is equivalent
			if id, ok := x.Key.(*ast.Ident); ok && id.Name == "LineNumber" {
				if l, ok := x.Value.(*ast.BasicLit); ok && l.Value == "0" {
					return false
				}
			}
		case *ast.BasicLit:
			if x.Kind == token.INT {
				orig := x.Value
				switch orig {
				case "0":
					add(x.Pos(), "const", "0 -> 1", func() { x.Value = "1" })
				case "1":
					add(x.Pos(), "const", "1 -> 0", func() { x.Value = "0" })
					add(x.Pos(), "const", "1 -> 2", func() { x.Value = "2" })
				default:
					add(x.Pos(), "const", orig+" -> "+orig+"+1", func() { x.Value = "(" + orig + " + 1)" })
					add(x.Pos(), "const", orig+" -> "+orig+"-1", func() { x.Value = "(" + orig + " - 1)" })
				}
			}
		case *ast.Ident:
			if x.Name == "true" && x.Obj == nil {
				add(x.Pos(), "bool", "true -> false", func() { x.Name = "false" })
			} else if x.Name == "false" && x.Obj == nil {
				add(x.Pos(), "bool", "false -> true", func() { x.Name = "true" })
			}
		case *ast.UnaryExpr:
			if x.Op == token.NOT {
				add(x.Pos(), "drop-not", "! removed", func() { x.Op = token.ADD })
			}
		case *ast.ReturnStmt:
			// return of two identical-kind results swapped is too exotic; skip
		}
		return true
	})
	return out
}

func main() {
	repo := flag.String("repo", "/repo", "repository directory")
	list := flag.Bool("list", false, "list mutants")
	apply := flag.Int("apply", -1, "apply mutant N")
	flag.Parse()
	var files []string
	for _, d := range []string{"lexer", "parser", "interpreter", "environment", "utils", "ast", "."} {
		m, _ := filepath.Glob(filepath.Join(*repo, d, "*.go"))
		for _, p := range m {
			if strings.HasSuffix(p, "_test.go") {
				continue
			}
			files = append(files, p)
		}
	}
	sort.Strings(files)
	n := 0
	for _, p := range files {
		fset := token.NewFileSet()
		f, err := parser.ParseFile(fset, p, nil, parser.ParseComments)
		if err != nil {
			fmt.Fprintln(os.Stderr, err)
			os.Exit(2)
		}
		ms := collect(fset, p, f)
		for _, m := range ms {
			if *list {
				rel, _ := filepath.Rel(*repo, m.file)
				fmt.Printf("%d %s:%d %s %s\n", n, rel, m.line, m.kind, m.desc)
			}
			if n == *apply {
				m.do()
				out, err := os.Create(p)
				if err != nil {
					fmt.Fprintln(os.Stderr, err)
					os.Exit(2)
				}
				if err := printer.Fprint(out, fset, f); err != nil {
					fmt.Fprintln(os.Stderr, err)
					os.Exit(2)
				}
				out.Close()
				rel, _ := filepath.Rel(*repo, m.file)
				fmt.Printf("applied %d %s:%d %s %s\n", n, rel, m.line, m.kind, m.desc)
				return
			}
			n++
		}
	}
	if *list {
		fmt.Fprintf(os.Stderr, "%d mutants\n", n)
	}
}
