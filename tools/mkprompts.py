#!/usr/bin/env python3
"""mkprompts.py <round-number> <letter1> <letter2>
Writes /tmp/mut/<ID>/PROMPT<round>.md for every property: the generic brief (taken from the previous
round's prompt), the summaries of all changes already kept under /verif/seeded/<ID>-*/meta.json (these
are the sub-agents' own descriptions; nothing about the checks is included), and the closing guidance."""
import json, sys, os, glob, re
rnd, l1, l2 = sys.argv[1], sys.argv[2], sys.argv[3]
CLOSING = open(os.path.join(os.path.dirname(__file__), 'prompt_closing_%s.txt' % rnd)).read()
for i in range(1, 21):
    pid = 'C%02d' % i
    prev = sorted(glob.glob("/tmp/mut/%s/PROMPT[0-9].md" % pid))[-1] if glob.glob('/tmp/mut/%s/PROMPT[0-9].md' % pid) else '/tmp/mut/%s/PROMPT.md' % pid
    txt = open(prev).read()
    head = txt.split('\nIMPORTANT — this is a')[0]
    head = re.sub(r'\(call them \w and \w\)', '(call them %s and %s)' % (l1, l2), head)
    head = re.sub(r'For each change X in \{\w, \w\}', 'For each change X in {%s, %s}' % (l1, l2), head)
    metas = []
    for d in sorted(glob.glob('/verif/seeded/%s-*' % pid)):
        m = json.load(open(d + '/meta.json'))
        metas.append('- %s (needs: %s)' % (m.get('summary', '').strip(), m.get('needs', '').strip()))
    out = head + '\nIMPORTANT — this is round %s. %d changes were already submitted by others; do NOT repeat them or variations of them, and stay away from the lines and mechanisms they use:\n' % (rnd, len(metas)) + '\n'.join(metas) + '\n\n' + CLOSING
    open('/tmp/mut/%s/PROMPT%s.md' % (pid, rnd), 'w').write(out)
    print(pid, len(out))
