#!/bin/bash
# Runs every seeded change against its own property's quick check; writes seeded/RESULTS.txt
cd /verif
: > seeded/RESULTS.txt
for d in seeded/C*-*; do
  b=$(basename $d); P=${b%%-*}; X=${b##*-}
  ./tools/mutcheck.sh $P $X $P >> seeded/RESULTS.txt 2>/dev/null
done
echo DONE >> seeded/RESULTS.txt
