#!/bin/bash
# mutcheck.sh <PROP> <variant> [check ids...]
# Confirms a seeded change (compiles, repo tests pass, demo fails with / passes without),
# then runs the given checks (default: the property's own) against it; prints a summary line.
export GOFLAGS=-mod=mod GOPROXY=off GOSUMDB=off GOTOOLCHAIN=local
P=$1; X=$2; shift 2
CHECKS="${*:-$P}"
SRC=/verif/seeded/$P-$X
[ -d "$SRC" ] || SRC=/tmp/mut/$P/out/$X
WT=$(mktemp -d /tmp/mutwt.XXXXXX)
git -C /repo worktree add --detach "$WT" HEAD >/dev/null 2>&1 || { echo "worktree failed"; exit 2; }
cleanup() { git -C /repo worktree remove --force "$WT" >/dev/null 2>&1; rm -rf "$WT"; }
trap cleanup EXIT
cd "$WT"
bash "$SRC/demo.sh" "$WT" >/dev/null 2>&1; base=$?
git apply "$SRC/patch.diff" || { echo "$P-$X: PATCH DOES NOT APPLY"; exit 2; }
go build ./... || { echo "$P-$X: DOES NOT COMPILE"; exit 2; }
tests=$(go test -vet=off -count=1 ./... 2>&1 | grep -c '^FAIL\|^--- FAIL')
bash "$SRC/demo.sh" "$WT" >/dev/null 2>&1; mut=$?
res=""
for C in $CHECKS; do
  out=$(cd /verif && VERIF_REPO="$WT" VERIF_DIR=/tmp/mutverif.$$ ./vcheck "$C" --tier quick 2>&1); rc=$?
  sig=$(echo "$out" | grep -m1 'signature:' | sed 's/^ *signature: //' | cut -c1-80)
  res="$res $C=rc$rc[$sig]"
done
rm -rf /tmp/mutverif.$$
echo "$P-$X: demo_base=$base demo_mut=$mut repo_test_failures=$tests |$res"
