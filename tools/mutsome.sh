#!/bin/bash
# mutsome.sh <variant letters...> : re-runs the seeded changes with these variant letters against
# their own property's quick check and replaces their lines in seeded/RESULTS.txt
cd /verif
for d in seeded/C*-*; do
  b=$(basename $d); P=${b%%-*}; X=${b##*-}
  case " $* " in *" $X "*) ;; *) continue;; esac
  line=$(./tools/mutcheck.sh $P $X $P 2>/dev/null | tail -1)
  grep -v "^$P-$X:" seeded/RESULTS.txt | grep -v '^DONE$' > seeded/RESULTS.tmp
  echo "$line" >> seeded/RESULTS.tmp
  sort seeded/RESULTS.tmp > seeded/RESULTS.txt; rm seeded/RESULTS.tmp
done
echo DONE >> seeded/RESULTS.txt
