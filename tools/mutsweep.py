#!/usr/bin/env python3
"""Mechanical mutation sweep: every k-th single-site mutant of /repo (tools/gomutate) is built,
run against the repository's own tests and then against the quick checks (cheapest first) until
one reports a violation.  Usage: mutsweep.py START STEP [END]  -> appends to mutsweep_results.txt"""
import os, subprocess, sys, shutil, time
HERE=os.path.dirname(os.path.abspath(__file__)); VERIF=os.path.dirname(HERE)
ENV=dict(os.environ, GOFLAGS='-mod=mod', GOPROXY='off', GOSUMDB='off', GOTOOLCHAIN='local')
ORDER='C14 C02 C05 C04 C19 C15 C17 C13 C06 C11 C20 C16 C03 C07 C12 C10 C09 C01 C08 C18'.split()
start=int(sys.argv[1]); step=int(sys.argv[2]); end=int(sys.argv[3]) if len(sys.argv)>3 else 10**9
tool='/tmp/gomutate_bin_%d'%os.getpid()
subprocess.run(['go','build','-o',tool,'.'],cwd=os.path.join(HERE,'gomutate'),env=ENV,check=True)
listing=subprocess.run([tool,'-repo','/repo','-list'],capture_output=True,text=True).stdout.splitlines()
out=open(os.path.join(HERE,'mutsweep_results.txt'),'a')
for line in listing:
    n=int(line.split()[0])
    if n<start or n>=end or (n-start)%step: continue
    d='/tmp/gm_%d'%os.getpid()
    shutil.rmtree(d,ignore_errors=True)
    subprocess.run(['rsync','-a','--exclude','.git','/repo/',d+'/'],check=True)
    subprocess.run([tool,'-repo',d,'-apply',str(n)],capture_output=True)
    res=''
    if subprocess.run(['go','build','./...'],cwd=d,env=ENV,capture_output=True).returncode!=0 or subprocess.run(['go','vet','./...'],cwd=d,env=ENV,capture_output=True).returncode not in (0,1) :
        res='nocompile'
    else:
        t=subprocess.run(['go','test','-vet=off','-count=1','./...'],cwd=d,env=ENV,capture_output=True,text=True)
        if t.returncode!=0: res='killed-by-repo-tests'
    if not res:
        for c in ORDER:
            e=dict(ENV, VERIF_REPO=d, VERIF_DIR='/tmp/gm_vd_%d'%os.getpid())
            try:
                r=subprocess.run([os.path.join(VERIF,'vcheck'),c,'--tier','quick'],cwd=VERIF,env=e,capture_output=True,text=True,timeout=1500)
            except subprocess.TimeoutExpired:
                res='timeout-in-'+c; break
            if r.returncode==1:
                sig=[l.strip() for l in r.stdout.splitlines() if 'signature:' in l]
                res='killed-by-'+c+' '+(sig[0][:80] if sig else ''); break
            if r.returncode==2 and 'BUILD-FAILED' in r.stdout:
                res='nocompile-verif'; break
        if not res:
            res='SURVIVED'
            diff=subprocess.run(['diff','-ru','--exclude=.git','/repo',d],capture_output=True,text=True).stdout
            os.makedirs(os.path.join(HERE,'survivors'),exist_ok=True)
            open(os.path.join(HERE,'survivors','%d.diff'%n),'w').write(diff)
    out.write('%s => %s\n'%(line,res)); out.flush()
    shutil.rmtree(d,ignore_errors=True)
out.write('DONE %d %d\n'%(start,step)); out.flush()
os.remove(tool)
