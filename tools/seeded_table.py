#!/usr/bin/env python3
"""Regenerates the seeded-change table in DESIGN.md (between the SEEDED-TABLE markers) and
refreshes seeded/*/meta.json from seeded/RESULTS.txt."""
import json,glob,re,os
V='/verif'
res={}
for l in open(V+'/seeded/RESULTS.txt'):
    m=re.match(r'(C\d+)-(\w): demo_base=(\d) demo_mut=(\d) repo_test_failures=(\d+) \|\s*(.*)',l)
    if m: res[(m.group(1),m.group(2))]=m
NOTES={('C14','c'):'Not detected, by design: whether the arguments of a wrong-arity call are evaluated before the arity error is not pinned by C14 (read literally its statement would favour the changed behaviour; its anchor describes the original); the model treats wrong-arity / non-callable calls with impure arguments as out of domain.',
       ('C19','f'):'Not detected, by design: the change only affects texts in which a ধরি declaration spans a line break, which C08 and C18 explicitly place outside the domain (the implementation has an undocumented rule there).',
       ('C01','g'):'Not detected by C01, caught by C13 (initialiser-order): what a literal that writes one name twice means is not part of the grammar C01 pins; the change does break C13\'s source-order clause for the names written once.',
       ('C03','i'):'Not detected, by design: whether a body-level declaration collides with a parameter / the function\'s own name depends on whether the body is the activation scope or a block inside it, which C03\'s scope list does not settle; out of domain in the model from the start.',
       ('C06','j'):'Not detected, by design: no property says what ইনপুট does at end of input; the model refuses runs that read past the end.',
       ('C16','o'):'Not detected by C16, caught by C14 (stdout-mismatch): the change reorders the evaluation of subscript and assigned value in `a[i] = v`, which is observable only when the two operands are different producers with side effects — evaluation order is what C14 pins; C16 compares producers of one and the same value, for which the order cannot show.',
       ('C16','s'):'Not detected by C16, caught by C14 (stdout-mismatch): like C16-o an evaluation-order change (the assigned value is evaluated before the target of `o.k = v`), observable only between different producers with side effects.',
       ('C14','t'):'Not detected, by design: the change moves the redeclaration check in front of the evaluation of the initialiser, so a rejected redeclaration no longer runs its initialiser. Like C14-c (arity check versus argument evaluation) the order between detecting the error and evaluating the operands of the failing statement is not pinned; the model treats a redeclaration whose initialiser has effects as out of domain.',
       ('C10','t'):'Not detected by C10, caught by C02 (coercion-inconsistent:&): whole numbers outside the 64-bit range as operands of bitwise operators are outside what C02 pins ("act on 64-bit two\'s-complement integers") and the model refuses them; the literal itself still denotes the right double, so C10 has nothing to object to.',
       ('C10','u'):'Not detected by C10, caught by C17 (c17-value:round): the change is in the rounding built-in (floor(x + 0.5) instead of round-half-away), which C17 pins exactly; the literals involved still denote the right doubles.',
       ('C16','v'):'Not detected by C16, caught by C14 (stdout-mismatch): arguments evaluated before the callee expression of a chained call — an evaluation-order change like C16-o and C16-s.',
       ('C19','u'):'Not detected, by design: a trailing comma after the last property of an object literal is accepted by the implementation although the grammar has no such rule; C08 and C12 leave it open (texts whose only departure from the grammar is that comma are out of domain), so rejecting it — what this change does — is as conforming as accepting it.',
       ('C01','u'):'Not detected, by design: the change only affects declarations with a line break between ধরি and the first name; declarations that span lines outside an array / object literal initialiser are outside the domain of C01, C08 and C18 (the implementation has an undocumented one-line rule there).',
       ('C13','u'):'Not detected, and not detectable by running programs of the language as it is: the change adds a new built-in (a sum over an object\'s values in map order). On the unchanged tree that name is simply undefined — a deterministic error — so no workload has a reason to call it.',
       ('C12','w'):'Not detected, by design: the change makes any two objects that are both empty compare equal with ==. No property says what == yields for two distinct containers (C02 pins reflexivity, symmetry, totality and cross-type inequality only; C12 never mentions ==), so the model refuses such comparisons; everything C12 does pin — sharing, reads, writes, deletes, listings, printing — is untouched by the change.',
       ('C16','z'):'Not detected, by design: the refactoring (one shared comma-list helper in the parser) stops accepting a comma after the last property of an object literal. As recorded for C19-u, the grammar has no such rule and C08 / C12 leave it open, so rejecting it is as conforming as accepting it; texts whose only departure from the grammar is that comma are out of domain.',
       ('C06','y'):'Not detected, by design: the same refactoring as C16-z (a shared comma-list helper that no longer accepts a comma after the last property of an object literal); see there and C19-u.',
       ('C19','z'):'Not detected, by design: the scope-storage rewrite keeps the FIRST definition when a function is declared a second time in one scope (or after a variable of that name). What a second function declaration of an already bound name means is pinned by no property (C03 speaks of ধরি redeclarations only) and the model has refused such programs from the start; variable redeclaration, shadowing, closures and every lookup are unchanged by the rewrite.',
       ('C01','B'):'Not detected by C01, caught by C08 (cli-reject) and C19 (frontend-reject-expected): the refactoring makes main.go decide "rejected" from the parser\'s error alone, so a text whose only errors are lexical (a byte-order mark, a stray character, an unterminated comment) is run. C01 quantifies over token sequences the parser accepts; such texts have no token sequence, and rejecting them without running anything is what C08 and C19 pin.',
       ('C14','F'):'Not detected, by design: the Callable API change makes a wrong argument count on a variadic built-in fail before its arguments are evaluated. As for C14-c, whether the arguments of a wrong-arity call are evaluated before the arity error is pinned nowhere; the model treats wrong-arity calls with impure arguments as out of domain. Correct calls, and wrong-arity calls with pure arguments, behave as before.',
       ('C13','c'):'With this change the repository\'s own flaky (non-baseline) parser test Object_Literal fails intermittently; the 157 stable tests pass.'}
for (p,x),m in res.items():
    d=f'{V}/seeded/{p}-{x}'
    if not os.path.exists(d+'/meta.json'): continue
    meta=json.load(open(d+'/meta.json'))
    meta['property']=p
    meta['confirmed']={'applies_and_compiles':True,'repo_test_failures_with_change':int(m.group(5)),'demo_exit_without_change':int(m.group(3)),'demo_exit_with_change':int(m.group(4)),
      'how':f'tools/mutcheck.sh {p} {x} — fresh scratch worktree of /repo HEAD under /tmp, demo.sh run before and after `git apply patch.diff`, `go build ./...`, `go test -vet=off -count=1 ./...`, then ./vcheck with VERIF_REPO pointing at the worktree; worktree removed afterwards'}
    meta['checks_run']={c:{'quick_exit':int(rc),'first_signature':sig} for c,rc,sig in re.findall(r'(C\d+)=rc(\d)\[([^\]]*)\]',m.group(6))}
    meta['source']='independent sub-agent given only the property text and a scratch worktree (round %d)'%({'a':1,'b':1,'c':2,'d':2,'e':3,'f':3,'g':4,'h':4,'i':5,'j':5,'k':6,'l':6,'m':7,'n':7,'o':8,'p':8,'q':9,'r':9,'s':10,'t':10,'u':11,'v':11,'w':12,'x':12,'y':13,'z':13,'A':14,'B':14,'E':15,'F':15}.get(x,0))
    if (p,x) in NOTES: meta['note']=NOTES[(p,x)]
    json.dump(meta,open(d+'/meta.json','w'),indent=1,ensure_ascii=False)
rows=[]
caught=total=0
for d in sorted(glob.glob(V+'/seeded/C*-*')):
    m=json.load(open(d+'/meta.json')); name=d.split('/')[-1]; p=m['property']
    own=m.get('checks_run',{}).get(p,{}); rc=own.get('quick_exit')
    total+=1
    if rc==1: caught+=1; r='caught (%s)'%own.get('first_signature','')[:40]
    elif m.get('note') and 'caught by' in m['note']: r='not caught by this check — caught by another (see note)'
    elif m.get('note'): r='not caught — out of domain by design'
    else: r='**not caught**' if rc==0 else 'not run yet'
    summ=(m.get('summary') or '').replace('\n',' ').replace('|','/')
    if len(summ)>160: summ=summ[:157]+'…'
    rows.append(f'| {name} | {summ} | {r} |')
table='| change | what it does | property\'s quick check |\n|---|---|---|\n'+'\n'.join(rows)+f'\n\n{caught} of {total} caught by their own property\'s quick check.\n'
s=open(V+'/DESIGN.md',encoding='utf-8').read()
b,e='<!-- SEEDED-TABLE-BEGIN -->','<!-- SEEDED-TABLE-END -->'
if b in s:
    s=s[:s.index(b)+len(b)]+'\n'+table+s[s.index(e):]
    open(V+'/DESIGN.md','w',encoding='utf-8').write(s)
print(caught,'of',total)
