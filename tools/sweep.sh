#!/bin/bash
# sweep.sh <tier> <seed...> : runs every check at the given seeds, evidence into a scratch dir
TIER=$1; shift
cd "$(dirname "$0")/.."
for S in "$@"; do
  for i in 01 02 03 04 05 06 07 08 09 10 11 12 13 14 15 16 17 18 19 20; do
    start=$(date +%s)
    out=$(VERIF_SEED=$S VERIF_DIR=/tmp/sweep_verif_$$ ./vcheck C$i --tier $TIER 2>&1); rc=$?
    echo "seed=$S C$i rc=$rc $(( $(date +%s) - start ))s :: $(echo "$out" | grep -E '^C[0-9]+ tier' | cut -c1-160) $(echo "$out" | grep -E 'signature:|INCONCLUSIVE' | sort | uniq -c | head -5 | tr '\n' ';')"
  done
done
echo DONE
